"""Check driver: runs all targets of one property, matches refutations against the known
findings, replays new ones on the real code, writes evidence, maps to exit codes.

exit 0  all obligations discharged (known findings printed as KNOWN-FINDING lines)
exit 1  an obligation was refuted and is not a listed finding  -> VIOLATION line
exit 2  undecided (solver unknown on both solvers, target missing, construct outside subset)
exit 3  the checker itself failed (traceback, zero obligations, vacuous precondition)
"""
import importlib
import json
import multiprocessing as mp
import os
import subprocess
import sys
import time
import traceback

VERIF = os.path.dirname(os.path.dirname(os.path.abspath(__file__)))
# development runs against a scratch copy (PYVC_REPO set by tools/mutcheck.sh, refcheck*.sh, refpatch.sh) must not overwrite the
# evidence of /repo: their output goes to a scratch directory
_SCRATCH = os.environ.get('PYVC_REPO') not in (None, '', '/repo')
REPLAY_DIR = os.path.join(VERIF, 'replays') if not _SCRATCH else os.path.join(os.environ['PYVC_REPO'], '_pyvc_replays')
EVID_DIR = os.path.join(VERIF, 'evidence') if not _SCRATCH else os.path.join(os.environ['PYVC_REPO'], '_pyvc_evidence')
if os.environ.get('PYVC_EVIDENCE_DIR'):
    EVID_DIR = os.environ['PYVC_EVIDENCE_DIR']      # runs against a deliberately changed /repo (tools/seedcheck.sh) keep the evidence of the clean tree intact
VENV_PY = '/venv/bin/python'


def _run_one(args):
    prop, idx, timeout_ms, tier = args
    try:
        mod = importlib.import_module('contracts.' + prop.lower())
        tg = mod.targets(tier)[idx]
        if hasattr(tg, 'run'):
            return tg.run(timeout_ms, tier)
        from .engine import run_target
        return run_target(tg, timeout_ms=timeout_ms, tier=tier)
    except Exception:
        return {'target': '%s[%d]' % (prop, idx), 'crash': traceback.format_exc(), 'obligations': [],
                'undecided': [], 'errors': [], 'paths': 0}


def load_known():
    p = os.path.join(VERIF, 'known_findings.json')
    if not os.path.exists(p):
        return []
    return json.load(open(p)).get('findings', [])


FLAG_MEANING = {
    'REAL_FLOAT': 'floating-point numbers are mathematical reals',
    'FREE_TENSOR_SYMBOLS': 'tensors are free symbols of any dimensions (einsum-term normal form); only the wiring is decided',
    'SVD_AS_EXACT_FACTORISATION': 'tensornetwork.split_node_full_svd is replaced by an exact factorisation (u = the node with its right legs merged, '
                                  's and vh identities); what is proved holds when nothing is truncated, isometry of u / vh is not available',
    'ENUMERATED_NUMBER_OF_SITES': 'the number of sites / list lengths is enumerated over the stated range (bounded in that number, unbounded in every dimension)',
    'ELEMENTWISE_SYMPY': 'arrays are one generic element (sympy expression in the indices) per region and diagonal case; identities decided by sympy (trusted)',
    'GENERIC_SYMBOLS': 'a difference of the declared generic symbols (e.g. two frequencies) that does not simplify to zero is taken as non-zero; '
                       'their coincidence is a configuration of its own',
    'COMPREHENSION_MAP': 'a comprehension over a symbolic-length sequence is an element-wise map (its element expression must be effect free)',
    'INVARIANT_NAMES_REMAPPED': 'loop-carried locals named in an invariant template were re-bound to renamed locals of the code (checked, not assumed)',
    'NP_ARRAY_IS_VALUE_COPY': 'np.array(x) of an array is an equal array (aliasing is the subject of C20)',
}


def match_known(known, prop, ob):
    for k in known:
        if k.get('status') != 'open' or k.get('property') != prop:
            continue
        if k.get('obligation') == ob['name'] and (not k.get('target') or k.get('target') == ob.get('target')):
            return k
    return None


_REPLAY_CACHE = {}
MAX_REPLAYS = 8


def run_replay(prop, ob, replay_spec):
    key = json.dumps({'f': (replay_spec or {}).get('func'), 'i': {k: v for k, v in ((replay_spec or {}).get('inputs') or {}).items()
                                                                    if k not in ('obligation', 'model', 'info', 'target')}}, sort_keys=True, default=str)
    if replay_spec is not None and key in _REPLAY_CACHE:
        confirmed, out = _REPLAY_CACHE[key]
        c2, path, _ = _run_replay(prop, ob, replay_spec, reuse=(confirmed, out))
        return confirmed, path, out
    if replay_spec is not None and len(_REPLAY_CACHE) >= MAX_REPLAYS:
        c2, path, _ = _run_replay(prop, ob, replay_spec, reuse=(None, 'replay budget of this run used up (%d replays); run ./check %s --replay <this file>' % (MAX_REPLAYS, prop)))
        return None, path, ''
    confirmed, path, out = _run_replay(prop, ob, replay_spec)
    if replay_spec is not None:
        _REPLAY_CACHE[key] = (confirmed, out)
    return confirmed, path, out


def _run_replay(prop, ob, replay_spec, reuse=None):
    """replay_spec: {'func': name in replay/<prop>.py, 'inputs': json}.  Runs the real code
    under /venv.  Returns (confirmed: bool|None, output text)."""
    os.makedirs(REPLAY_DIR, exist_ok=True)
    safe = (ob['name'] + '@' + str(ob.get('target'))).replace('/', '_').replace(' ', '_').replace('#', '_')
    path = os.path.join(REPLAY_DIR, '%s_%s.json' % (prop, safe))
    doc = {'property': prop, 'obligation': ob['name'], 'target': ob.get('target'),
           'function': ob.get('function'), 'counter_model': ob.get('model'),
           'solver_output': {'result': ob.get('result'), 'backend': ob.get('backend'),
                             'model_full': ob.get('model_full'), 'info': ob.get('info')},
           'replay': replay_spec,
           'command': '%s %s/replay/run.py %s' % (VENV_PY, VERIF, path)}
    json.dump(doc, open(path, 'w'), indent=1, default=str)
    if replay_spec is None:
        return None, path, 'no replay builder for this obligation'
    if reuse is not None:
        doc['replay_output'], doc['replay_confirmed'] = reuse[1], reuse[0]
        json.dump(doc, open(path, 'w'), indent=1, default=str)
        return reuse[0], path, reuse[1]
    try:
        p = subprocess.run([VENV_PY, os.path.join(VERIF, 'replay', 'run.py'), path],
                           capture_output=True, text=True, timeout=600,
                           env=dict(os.environ, PYTHONPATH=os.environ.get('PYVC_REPO', '/repo')))
        out = (p.stdout + p.stderr)[-4000:]
        confirmed = p.returncode == 1
        if p.returncode not in (0, 1):
            confirmed = None
    except Exception as e:      # pragma: no cover
        out, confirmed = 'replay failed to run: %s' % e, None
    doc['replay_output'] = out
    doc['replay_confirmed'] = confirmed
    json.dump(doc, open(path, 'w'), indent=1, default=str)
    return confirmed, path, out


def _native_one(job):
    prop, func, inputs, idx = job
    os.makedirs(REPLAY_DIR, exist_ok=True)
    path = os.path.join(REPLAY_DIR, '%s_native_%s_%d.json' % (prop, func, idx))
    doc = {'property': prop, 'obligation': 'native/%s' % func, 'target': 'bounded native sweep', 'replay': {'func': func, 'inputs': inputs},
           'command': '%s %s/replay/run.py %s' % (VENV_PY, VERIF, path)}
    json.dump(doc, open(path, 'w'), indent=1, default=str)
    t0 = time.time()
    try:
        p = subprocess.run([VENV_PY, os.path.join(VERIF, 'replay', 'run.py'), path], capture_output=True, text=True, timeout=3000,
                           env=dict(os.environ, PYTHONPATH=os.environ.get('PYVC_REPO', '/repo')))
        out = (p.stdout + p.stderr)[-3000:]
        rc = p.returncode
    except Exception as e:          # pragma: no cover
        out, rc = 'native sweep failed to run: %s' % e, 2
    doc['replay_output'], doc['replay_confirmed'] = out, rc == 1
    json.dump(doc, open(path, 'w'), indent=1, default=str)
    return {'func': func, 'inputs': inputs, 'violates': rc == 1, 'error': None if rc in (0, 1) else out[-300:], 'path': path,
            'seconds': round(time.time() - t0, 1), 'summary': out[:300]}


def native_sweep(prop, known):
    """thorough tier: the native replays of the property on their built-in finite input sets (replay/<prop>.py: THOROUGH =
    [(function, inputs, obligation name of the open finding it reproduces or None)]).  Bounded, never counted as proved."""
    try:
        src = open(os.path.join(VERIF, 'replay', prop.lower() + '.py')).read()
    except OSError:
        return []
    import ast as _ast
    todo = []
    for st in _ast.parse(src).body:
        if isinstance(st, _ast.Assign) and any(isinstance(t, _ast.Name) and t.id == 'THOROUGH' for t in st.targets):
            try:
                todo = _ast.literal_eval(st.value)
            except ValueError:
                ns = {}
                exec(compile(_ast.Module(body=[st], type_ignores=[]), 'THOROUGH', 'exec'), ns)
                todo = ns['THOROUGH']
    jobs = [(prop, f, i, k) for k, (f, i, _) in enumerate(todo)]
    if not jobs:
        return []
    ctx = mp.get_context('fork')
    with ctx.Pool(min(8, len(jobs))) as pool:
        res = pool.map(_native_one, jobs, chunksize=1)
    for r, (f, i, kn) in zip(res, todo):
        r['obligation'] = kn or ('native/' + f)
        r['known'] = None
        if r['violates'] and kn:
            r['known'] = next((k for k in known if k.get('status') == 'open' and k.get('property') == prop and k.get('obligation') == kn), None)
    return res


def main(argv=None):
    import argparse
    ap = argparse.ArgumentParser()
    ap.add_argument('prop')
    ap.add_argument('--tier', default=os.environ.get('VERIF_TIER', 'quick'))
    ap.add_argument('--replay', default=None)
    ap.add_argument('--jobs', type=int, default=int(os.environ.get('VERIF_JOBS', '14')))
    ap.add_argument('--only', default=None, help='substring filter on target names (debugging)')
    ap.add_argument('-v', action='store_true')
    a = ap.parse_args(argv)
    prop = a.prop.upper()
    if a.replay:
        p = subprocess.run([VENV_PY, os.path.join(VERIF, 'replay', 'run.py'), a.replay],
                           env=dict(os.environ, PYTHONPATH=os.environ.get('PYVC_REPO', '/repo')))
        return p.returncode
    t0 = time.time()
    seed = int(os.environ.get('VERIF_SEED', '0') or 0)
    tier = a.tier if a.tier in ('quick', 'thorough') else 'quick'
    timeout_ms = 10000 if tier == 'quick' else 120000
    os.environ['PYVC_TIER'] = tier
    sys.path.insert(0, VERIF)
    try:
        mod = importlib.import_module('contracts.' + prop.lower())
        tgs = mod.targets(tier)
    except Exception:
        traceback.print_exc()
        print('CHECKER-ERROR property=%s cannot load contracts' % prop)
        return 3
    idxs = [i for i, t in enumerate(tgs) if not a.only or a.only in t.name]
    jobs = [(prop, i, timeout_ms, tier) for i in idxs]
    if a.jobs > 1 and len(jobs) > 1:
        ctx = mp.get_context('fork')
        with ctx.Pool(min(a.jobs, len(jobs))) as pool:
            results = pool.map(_run_one, jobs, chunksize=1)
    else:
        results = [_run_one(j) for j in jobs]

    known = load_known()
    n_ob = n_dis = 0
    refuted, unknown, undecided, crashes, errors = [], [], [], [], []
    per_ob = []
    for tg, r in zip([tgs[i] for i in idxs], results):
        if r.get('crash'):
            crashes.append((r['target'], r['crash']))
            continue
        for u in r.get('undecided', []):
            undecided.append((r['target'], u))
        for e in r.get('errors', []):
            errors.append((r['target'], e))
        if not r['obligations'] and not r.get('undecided'):
            errors.append((r['target'], 'zero obligations generated'))
        # vacuity guard: an obligation whose path condition is unsatisfiable belongs to a DEAD path (the interpreter's own feasibility
        # test had timed out, the guard's solver then refuted the path): it is dropped.  If EVERY obligation of a target is of that
        # kind the scenario's preconditions contradict each other: checker error.
        vac = [ob for ob in r['obligations'] if ob.get('pc_sat') == 'unsat']
        if vac and len(vac) == len(r['obligations']):
            errors.append((r['target'], 'vacuous path condition at %s (all %d obligations of the target)' % (vac[0]['name'], len(vac))))
        elif vac:
            r['dead_paths'] = r.get('dead_paths', 0) + len(vac)
            r['obligations'] = [ob for ob in r['obligations'] if ob.get('pc_sat') != 'unsat']
        for ob in r['obligations']:
            ob['target'] = r['target']
            ob['function'] = r.get('function')
            n_ob += 1
            if ob['result'] == 'discharged':
                n_dis += 1
            elif ob['result'] == 'refuted':
                refuted.append((tg, ob))
            else:
                unknown.append((tg, ob))
            per_ob.append({k: ob.get(k) for k in ('name', 'target', 'function', 'backend', 'result', 'seconds', 'flags')})

    # --- group refutations by obligation name (first counter-model each)
    violations, known_hits = [], []
    seen = set()
    for tg, ob in refuted:
        key = (ob['target'], ob['name'])
        if key in seen:
            continue
        seen.add(key)
        k = match_known(known, prop, ob)
        if k is not None:
            known_hits.append((k, ob))
            continue
        spec = None
        builder = getattr(tg, 'replay', None)
        if builder is not None:
            try:
                spec = builder(ob)
            except Exception as e:
                spec = None
                ob.setdefault('info', {})['replay_builder_error'] = str(e)
        confirmed, path, out = run_replay(prop, ob, spec)
        violations.append((ob, confirmed, path))

    native = []
    fallback = tier != 'thorough' and bool(undecided or unknown)
    if tier == 'thorough' or fallback:
        # thorough tier: always.  quick tier: only as the BOUNDED stand-in when some target could not be decided (code outside
        # the verifier's reach, e.g. restructured loops): the real code is run on the finite input sets of replay/<prop>.py
        native = native_sweep(prop, known)
        for n in native:
            if n['violates'] and n.get('known') is None:
                violations.append(({'name': n['obligation'], 'target': 'native/' + n['func']}, True, n['path']))
            elif n['violates']:
                print('KNOWN-FINDING: property=%s %s [native/%s] %s' % (prop, n['obligation'], n['func'], n['known'].get('what', '')))
            elif n.get('error'):
                errors.append(('native/' + n['func'], n['error']))
    for k, ob in known_hits:
        print('KNOWN-FINDING: property=%s %s [%s] %s' % (prop, ob['name'], ob['target'], k.get('what', '')))
    for ob, confirmed, path in violations:
        tail = '' if confirmed else ' no-failing-input-found'
        print('VIOLATION property=%s replay=%s obligation=%s target=%s%s' % (prop, path, ob['name'], ob['target'], tail))
    for t, u in undecided:
        print('UNDECIDED property=%s target=%s %s' % (prop, t, u))
    for tg, ob in unknown:
        print('UNDECIDED property=%s target=%s obligation=%s solver=%s' % (prop, ob['target'], ob['name'], ob.get('reason')))
    for t, c in crashes:
        print('CHECKER-ERROR property=%s target=%s\n%s' % (prop, t, c))
    for t, e in errors:
        print('CHECKER-ERROR property=%s target=%s %s' % (prop, t, e))

    # --- evidence
    functions = {}
    flags, lib_pure, lib_used = set(), set(), set()
    backends = {}
    solver_s = 0.0
    for r in results:
        fi = r.get('function_info')
        if fi:
            functions[fi['name']] = fi
        for fi in r.get('functions_extra', []):
            functions[fi['name']] = fi
        flags |= set(r.get('flags', []))
        lib_pure |= set(r.get('lib_pure', []))
        lib_used |= set(r.get('lib_used', []))
        for ob in r['obligations']:
            backends[ob.get('backend', '?')] = backends.get(ob.get('backend', '?'), 0) + 1
            solver_s += ob.get('seconds', 0) or 0
    meta = getattr(mod, 'META', {})
    known_discharged_equiv = len({(ob['target'], ob['name']) for _, ob in known_hits})
    level = meta.get('level', 'proof')
    expl = meta.get('explanation', '') or ('contracts on the real functions; verification conditions generated from the '
                                          'AST of /repo on every run and discharged by z3 (cvc5 / z3-4.8 CLI for unknowns)')
    if n_dis != n_ob:
        # not every obligation is discharged (listed open findings, or this run found a
        # violation / an undecided obligation): not a proof-level record
        level = 'other'
        expl += ('; %d of %d obligations discharged, %d refuted obligations are listed open findings '
                 '(KNOWN-FINDING lines), %d new refutations, %d unknown' % (
                     n_dis, n_ob, sum(1 for _, ob in refuted if match_known(known, prop, ob)),
                     sum(1 for _, ob in refuted if not match_known(known, prop, ob)), len(unknown)))
    trusted = list(meta.get('trusted_base', [])) + \
        ['assumption flag ' + f + (': ' + FLAG_MEANING[f.split('[')[0]] if f.split('[')[0] in FLAG_MEANING else '') for f in sorted(flags)] + \
        ['library contract (assumed): ' + l for l in sorted(lib_used)] + \
        ['library function treated as pure uninterpreted function: ' + l for l in sorted(lib_pure)]
    samples = []
    for r in results[:200]:
        for ob in r['obligations'][:1]:
            samples.append({'obligation': ob['name'], 'target': r['target'], 'function': r.get('function'),
                            'result': ob['result'], 'backend': ob.get('backend'), 'seconds': ob.get('seconds')})
    cov = {
        'obligations': n_ob, 'discharged': n_dis,
        'refuted_known_findings': sum(1 for _, ob in refuted if match_known(known, prop, ob)),
        'refuted_new': sum(1 for _, ob in refuted if not match_known(known, prop, ob)),
        'unknown': len(unknown),
        'checker_cmd': './check %s --tier %s' % (prop, tier),
        'trusted_base': trusted,
        'explanation': expl,
        'functions_under_contract': sorted(functions.values(), key=lambda f: f['name']),
        'targets': len(idxs), 'paths': sum(r.get('paths', 0) for r in results),
        'backends': backends, 'solver_seconds': round(solver_s, 3),
        'clauses': meta.get('clauses', []),
        'known_findings_matched': [{'obligation': ob['name'], 'target': ob['target'], 'what': k.get('what')} for k, ob in known_hits],
        'per_obligation': per_ob[:400],
        'samples': samples[:12],
        'extraction_drops': meta.get('extraction_drops', DEFAULT_DROPS),
    }
    if fallback:
        cov['bounded_native_sweeps'] = [{k: n.get(k) for k in ('func', 'inputs', 'violates', 'seconds', 'summary')} for n in native]
        cov['bounded_native_note'] = ('bounded stand-in, run because %d target(s)/obligation(s) were undecided; never counted as proved'
                                      % (len(undecided) + len(unknown)))
    if tier == 'thorough':
        cov['cross_checked_by_cvc5'] = {'agree': sum(1 for r in results for ob in r['obligations'] if (ob.get('cross_check') or {}).get('result') == 'unsat'),
                                        'cvc5_unknown': sum(1 for r in results for ob in r['obligations'] if (ob.get('cross_check') or {}).get('result') == 'unknown'),
                                        'disagree': sum(1 for r in results for ob in r['obligations'] if (ob.get('cross_check') or {}).get('result') == 'sat')}
        cov['bounded_native_sweeps'] = [{k: n.get(k) for k in ('func', 'inputs', 'violates', 'seconds', 'summary')} for n in native]
        cov['bounded_native_note'] = ('bounded: each sweep runs the real code under /venv on the finite set of inputs written in replay/%s.py '
                                      '(THOROUGH); never counted as proved' % prop.lower())
    ev = {'property_id': prop, 'tier': tier, 'seed': seed, 'level': level, 'coverage': cov,
          'assumptions': trusted, 'wall_s': round(time.time() - t0, 2), 'violations': len(violations)}
    os.makedirs(EVID_DIR, exist_ok=True)
    json.dump(ev, open(os.path.join(EVID_DIR, prop + '.json'), 'w'), indent=1, default=str)
    print('SUMMARY property=%s tier=%s targets=%d paths=%d obligations=%d discharged=%d known=%d new_refuted=%d unknown=%d undecided=%d wall=%.1fs' % (
        prop, tier, len(idxs), cov['paths'], n_ob, n_dis, cov['refuted_known_findings'], cov['refuted_new'],
        len(unknown), len(undecided), time.time() - t0))
    if violations:
        return 1
    if crashes or errors or n_ob == 0:
        return 3
    if undecided or unknown:
        return 2
    return 0


DEFAULT_DROPS = ('extraction is the Python ast of the files under /repo/oqupy, re-read on every run; '
                 'dropped: docstrings, type annotations, contents of f-strings/format strings '
                 '(abstracted to an opaque string), print output')


if __name__ == '__main__':
    sys.exit(main())
