"""ASSUMED contracts of builtins and library functions, and the operator semantics.

Everything in LIB / the generic pure-function fallback is part of the trusted base and is
listed in the evidence (`lib_contracts_used`, `lib_pure_uf`).
"""
import ast
import z3

from .values import (is_symbolic_key, SDict, V, NONE, Unsupported, PyRaise, ExcVal, Obj, Seq, SymMap, SliceVal, RangeVal,
                     Cx, Opaque, is_z3, is_int, is_real, is_bool, is_v, is_num, to_z3, to_real,
                     to_int, concrete_int, concrete_bool, ite, veq, uf, fresh_bool, fresh_int,
                     fresh_v, fresh_real, real_const, to_cx, keq, round_half_even, trunc, NpScalar)
from .modules import ModuleRef, FuncRef, ClassRef, Module


class InfVal:
    def __init__(self, sign=1):
        self.sign = sign

    def __repr__(self):
        return 'inf' if self.sign > 0 else '-inf'


INF = InfVal(1)


def _interp_types():
    from . import interp as I
    return I


# ---------------------------------------------------------------------------------
# sequence helpers

def as_seq(v, kind=None):
    if isinstance(v, Seq):
        return v
    if isinstance(v, (list, tuple)):
        return Seq.from_list(list(v), kind or ('tuple' if isinstance(v, tuple) else 'list'))
    if isinstance(v, RangeVal):
        return v.as_seq()
    raise Unsupported('not a sequence: %r' % (v,))


def snap(v, kind=None):
    """snapshot copy as a Seq (derived sequences must not observe later in-place mutation)"""
    return as_seq(v, kind).copy()


def seq_len(v):
    if isinstance(v, (list, tuple, dict, str)):
        return len(v)
    if isinstance(v, Seq):
        n = concrete_int(v.length)
        return n if n is not None else v.length
    if isinstance(v, RangeVal):
        return seq_len(v.as_seq())
    raise Unsupported('len of %r' % (v,))


def norm_index(i, n):
    """python negative index normalisation; returns (i', in_range Bool)"""
    i = to_int(i)
    n = to_int(n)
    ci = concrete_int(i)
    if ci is not None:
        ip = i if ci >= 0 else i + n
    else:
        ip = z3.If(i < 0, i + n, i)
    return ip, z3.And(ip >= 0, ip < n)


def slice_indices(sl, n):
    """Python's slice.indices(n) for symbolic values: returns (start, step, length)."""
    n = to_int(n)
    step = 1 if sl.step is None else sl.step
    cs = concrete_int(step)
    if cs is None:
        raise Unsupported('slice with symbolic step')
    if cs == 0:
        raise PyRaise(ExcVal('ValueError', ('slice step cannot be zero',)))

    def clamp(x, lo, hi):
        return z3.If(x < lo, lo, z3.If(x > hi, hi, x))
    if cs > 0:
        lo, hi = z3.IntVal(0), n
        if sl.start is None:
            start = z3.IntVal(0)
        else:
            s = to_int(sl.start)
            start = clamp(z3.If(s < 0, s + n, s), lo, hi)
        if sl.stop is None:
            stop = n
        else:
            s = to_int(sl.stop)
            stop = clamp(z3.If(s < 0, s + n, s), lo, hi)
        length = z3.If(stop > start, (stop - start + (cs - 1)) / cs, 0)
    else:
        lo, hi = z3.IntVal(-1), n - 1
        if sl.start is None:
            start = n - 1
        else:
            s = to_int(sl.start)
            start = clamp(z3.If(s < 0, s + n, s), lo, hi)
        if sl.stop is None:
            stop = z3.IntVal(-1)
        else:
            s = to_int(sl.stop)
            stop = clamp(z3.If(s < 0, s + n, s), lo, hi)
        length = z3.If(start > stop, (start - stop + (-cs - 1)) / (-cs), 0)
    return z3.simplify(start), cs, z3.simplify(length)


def _check_index_type(x):
    if x is None or is_int(x) or is_bool(x):
        return
    raise PyRaise(ExcVal('TypeError', ('slice indices must be integers',)))


# ---------------------------------------------------------------------------------
# getitem / setitem

def getitem(ip, o, idx):
    if hasattr(o, 'pv_getitem'):
        return o.pv_getitem(ip, idx)
    if isinstance(o, dict) and hasattr(idx, 'pv_getattr'):
        if idx in o:
            return o[idx]
        raise PyRaise(ExcVal('KeyError', ('object key',)))
    if isinstance(o, (list, tuple)):
        if isinstance(idx, SliceVal):
            cs = [concrete_int(x) if x is not None else None for x in (idx.start, idx.stop, idx.step)]
            if all(x is None or c is not None for x, c in zip((idx.start, idx.stop, idx.step), cs)):
                return o[slice(*cs)]
            return getitem(ip, as_seq(o), idx)
        ci = concrete_int(idx) if (is_int(idx) or is_bool(idx)) else None
        if ci is not None:
            try:
                return o[ci]
            except IndexError:
                raise PyRaise(ExcVal('IndexError', ('list index out of range',)))
        if is_int(idx):
            return getitem(ip, as_seq(o), idx)
        raise PyRaise(ExcVal('TypeError', ('list indices must be integers',)))
    if isinstance(o, RangeVal):
        return getitem(ip, o.as_seq(), idx)
    if isinstance(o, Seq):
        if isinstance(idx, SliceVal):
            for x in (idx.start, idx.stop, idx.step):
                _check_index_type(x)
            start, step, length = slice_indices(idx, o.length)
            base = o.fn
            return Seq(length, lambda i: base(start + i * step), o.kind)
        if is_int(idx) or is_bool(idx):
            ipx, ok = norm_index(idx, o.length)
            if not ip.decide(ok, 'index-in-range'):
                raise PyRaise(ExcVal('IndexError', ('index out of range',)))
            ip.instantiate_universals(o, ipx)
            return o.fn(ipx)
        if isinstance(idx, Seq) and o.kind in ('ndarray', 'range') and _is_bool_seq(idx):
            return mask_filter(ip, o, idx)
        if isinstance(idx, (list, Seq)) and o.kind in ('ndarray', 'range'):
            ids = as_seq(idx)
            nn = concrete_int(ids.length)
            if nn is not None and nn <= 16:
                items = [getitem(ip, o, ids.fn(z3.IntVal(k))) for k in range(nn)]
                return Seq.from_list(items, 'ndarray') if items else Seq(0, o.fn, 'ndarray')
            return fancy_index(ip, o, ids)
        if isinstance(idx, tuple) and len(idx) == 1:
            return getitem(ip, o, idx[0])
        raise PyRaise(ExcVal('TypeError', ('bad index type',)))
    if isinstance(o, dict):
        sym = getattr(o, 'sym', None)
        if (isinstance(idx, (str, int, bool, tuple)) or idx is None) and not is_symbolic_key(idx):
            if idx in o:
                return o[idx]
            if sym is not None and not isinstance(idx, str) and ip.decide(sym.has(idx), 'dictkey-sym'):
                return sym.get(idx)
            raise PyRaise(ExcVal('KeyError', (idx,)))
        # symbolic key into a concrete dict
        for k, v in list(o.items()):
            if not isinstance(k, str) and ip.decide(keq(idx, k), 'dictkey'):
                return v
        if sym is not None and ip.decide(sym.has(idx), 'dictkey-sym'):
            return sym.get(idx)
        raise PyRaise(ExcVal('KeyError', (idx,)))
    if isinstance(o, SymMap):
        if not ip.decide(o.has(idx), 'mapkey'):
            raise PyRaise(ExcVal('KeyError', (idx,)))
        return o.get(idx)
    if isinstance(o, str):
        return '<str>'
    if isinstance(o, Obj):
        m = ip.find_method(o, '__getitem__')
        if m is not None:
            return ip.call(m, [idx], {})
    if is_v(o):
        hook = getattr(ip.registry, 'opaque_getitem', None) if ip.registry else None
        if hook is not None:
            r = hook(ip, o, idx)
            if r is not None:
                return r[0]
        ip.flags.add('OPAQUE_INDEX')
        return uf('getitem', o, _idx_flat(idx))
    raise Unsupported('subscript of %r' % (o,))


def _idx_flat(idx):
    if isinstance(idx, SliceVal):
        return ('slice', NONE if idx.start is None else idx.start,
                NONE if idx.stop is None else idx.stop, NONE if idx.step is None else idx.step)
    if isinstance(idx, tuple):
        return tuple(_idx_flat(x) for x in idx)
    return idx


def _is_bool_seq(s):
    try:
        probe = s.fn(z3.Int('_probe'))
    except Exception:
        return False
    return isinstance(probe, bool) or (is_z3(probe) and z3.is_bool(probe))


def mask_filter(ip, o, mask):
    """ASSUMED contract of boolean-mask indexing a[mask] (1-d): the result lists, in order,
    the elements whose mask entry is True.  Modelled by a strictly increasing position map
    pos: [0,c) -> [0,n) onto the True positions and its inverse rank; the same mask OBJECT
    always yields the same maps (so a[m] and b[m] select the same positions).
    Universal facts are instantiated on demand (ip.filter_facts)."""
    key = id(mask)
    rec = ip.ghost.setdefault('filters', {}).get(key)
    src = o.copy()
    if rec is None:
        k = len(ip.ghost['filters'])
        pos = z3.Function('mask_pos_%d' % k, z3.IntSort(), z3.IntSort())
        rank = z3.Function('mask_rank_%d' % k, z3.IntSort(), z3.IntSort())
        c = fresh_int('mask_count')
        msnap = mask.copy()
        n = msnap.length
        ip.add_pc(z3.And(c >= 0, c <= n))
        rec = {'pos': pos, 'rank': rank, 'count': c, 'mask': msnap, 'n': n, 'keepalive': mask}

        def facts_m(m):      # for a result index m
            return z3.Implies(z3.And(m >= 0, m < c),
                              z3.And(pos(m) >= 0, pos(m) < n, to_z3(msnap.fn(pos(m))), rank(pos(m)) == m,
                                     z3.Implies(m + 1 < c, pos(m) < pos(m + 1)),
                                     z3.Implies(m >= 1, pos(m - 1) < pos(m))))

        def facts_j(j):      # for a source index j
            return z3.Implies(z3.And(j >= 0, j < n, to_z3(msnap.fn(j))),
                              z3.And(rank(j) >= 0, rank(j) < c, pos(rank(j)) == j))
        rec['facts_m'], rec['facts_j'] = facts_m, facts_j
        ip.ghost['filters'][key] = rec
        # boundary instances
        for m in (z3.IntVal(0), c - 1):
            ip.add_pc(facts_m(m))
        # the count is zero iff no entry is True (instances at the boundaries only; the
        # general fact is available through facts_j)
    pos, c = rec['pos'], rec['count']
    res = Seq(c, lambda m: src.fn(pos(m)), 'ndarray')
    rec.setdefault('results', []).append(res)
    ip.add_universal(res, lambda m: rec['facts_m'](m), c)
    return res


def fancy_index(ip, o, ids):
    """ndarray[int-list]: element-wise with numpy negative-index semantics; IndexError
    if any index is out of range."""
    n = o.length
    j = fresh_int('fj')
    if ip.decide(ids.length > 0, 'fancy-nonempty'):
        # is there an out-of-range element?
        ip.instantiate_universals(ids, j)
        ipx, ok = norm_index(ids.fn(j), n)
        bad = z3.And(j >= 0, j < ids.length, z3.Not(ok))
        if ip.may_exist(bad, 'fancy-oob'):
            raise PyRaise(ExcVal('IndexError', ('index out of bounds',)))
        isnap = ids.copy()
        ip.add_universal(ids, lambda i: norm_index(isnap.fn(i), n)[1], isnap.length)
    isnap2, osnap = ids.copy(), o.copy()

    def fn(i):
        ipx, _ = norm_index(isnap2.fn(i), n)
        return osnap.fn(ipx)
    return Seq(isnap2.length, fn, 'ndarray')


def setitem(ip, o, idx, v):
    if hasattr(o, 'pv_setitem'):
        return o.pv_setitem(ip, idx, v)
    if isinstance(o, list):
        if isinstance(idx, SliceVal):
            raise Unsupported('slice assignment on list')
        ci = concrete_int(idx)
        if ci is None:
            # symbolic index into concrete list: update every slot conditionally
            ipx, ok = norm_index(idx, len(o))
            if not ip.decide(ok, 'index-in-range'):
                raise PyRaise(ExcVal('IndexError', ('assignment index out of range',)))
            for k in range(len(o)):
                o[k] = ite(ipx == k, v, o[k])
            return
        try:
            o[ci] = v
        except IndexError:
            raise PyRaise(ExcVal('IndexError', ('assignment index out of range',)))
        return
    if isinstance(o, Seq):
        if isinstance(idx, SliceVal):
            if idx.start is None and idx.stop is None and idx.step is None:
                if isinstance(v, Seq):
                    o.fn = v.fn
                else:
                    o.fn = lambda i: v
                return
            raise Unsupported('slice assignment on Seq')
        ipx, ok = norm_index(idx, o.length)
        if not ip.decide(ok, 'index-in-range'):
            raise PyRaise(ExcVal('IndexError', ('assignment index out of range',)))
        old = o.fn
        o.fn = lambda i: ite(i == ipx, v, old(i))
        return
    if isinstance(o, dict):
        if is_symbolic_key(idx):
            if not isinstance(o, SDict):
                raise Unsupported('symbolic key store into concrete dict')
            for k in list(o.keys()):
                if not isinstance(k, str):
                    o[k] = ite(keq(idx, k), v, o[k])
            if o.sym is None:
                o.sym = SymMap()
            o.sym.set(idx, v)
            return
        o[idx] = v
        sym = getattr(o, 'sym', None)
        if sym is not None and not isinstance(idx, str):
            sym.set(idx, v)
        return
    if isinstance(o, SymMap):
        o.set(idx, v)
        return
    if isinstance(o, Obj):
        m = ip.find_method(o, '__setitem__')
        if m is not None:
            return ip.call(m, [idx, v], {})
    if is_v(o):
        # element store into an opaque array: its content is not tracked (flag)
        ip.flags.add('OPAQUE_MUT')
        ip.log.append(('opaque-store', o))
        return
    raise Unsupported('item assignment on %r' % (o,))


# ---------------------------------------------------------------------------------
# arithmetic

def _int_pow(a, n):
    r = 1
    for _ in range(n):
        r = r * a
    return r


def py_floordiv(a, b):
    a, b = to_int(a), to_int(b)
    cb = concrete_int(b)
    if cb is not None and cb > 0:
        return a / b
    # general: floor(a/b)
    q = a / b          # z3: euclidean
    return z3.If(b > 0, q, z3.If(a % b == 0, q, q - 1))


def py_mod(a, b):
    a, b = to_int(a), to_int(b)
    cb = concrete_int(b)
    if cb is not None and cb > 0:
        return a % b
    return a - b * py_floordiv(a, b)


_OPNAMES = {'Add': 'add', 'Sub': 'sub', 'Mult': 'mul', 'Div': 'div', 'MatMult': 'matmul', 'Pow': 'pow',
            'Mod': 'mod', 'FloorDiv': 'floordiv', 'BitXor': 'xor'}


def binop(ip, op, a, b):
    if hasattr(a, 'pv_binop'):
        return a.pv_binop(ip, _OPNAMES.get(type(op).__name__), b)
    if hasattr(b, 'pv_binop'):
        return b.pv_binop(ip, _OPNAMES.get(type(op).__name__), a, reflected=True)
    # concrete python values
    if _is_conc_num(a) and _is_conc_num(b) and not isinstance(op, (ast.MatMult,)):
        try:
            if isinstance(op, ast.Add):
                return a + b
            if isinstance(op, ast.Sub):
                return a - b
            if isinstance(op, ast.Mult):
                return a * b
            if isinstance(op, ast.FloorDiv):
                return a // b
            if isinstance(op, ast.Mod):
                return a % b
            if isinstance(op, ast.Pow) and b >= 0:
                return a ** b
        except ZeroDivisionError:
            raise PyRaise(ExcVal('ZeroDivisionError', ()))
    if isinstance(a, str) or isinstance(b, str):
        if isinstance(op, (ast.Add, ast.Mod, ast.Mult)):
            return '<str>'
        raise Unsupported('string operation')
    if isinstance(a, InfVal) or isinstance(b, InfVal):
        raise Unsupported('arithmetic with inf')
    # list concatenation / repetition
    if isinstance(op, ast.Add) and isinstance(a, (list, tuple)) and isinstance(b, (list, tuple)) \
            and type(a) is type(b):
        return a + b
    if isinstance(op, ast.Add) and (isinstance(a, (list, Seq)) and isinstance(b, (list, Seq))) and \
            not (isinstance(a, Seq) and a.kind == 'ndarray') and not (isinstance(b, Seq) and b.kind == 'ndarray'):
        sa, sb = snap(a), snap(b)
        la = sa.length
        return Seq(z3.simplify(sa.length + sb.length), lambda i: ite(i < la, sa.fn(i), sb.fn(i - la)), 'list')
    if isinstance(op, ast.Mult) and isinstance(a, (list, tuple)) and (is_int(b)):
        cb = concrete_int(b)
        if cb is not None:
            return a * cb
        if len(a) == 1:
            x = a[0]
            return Seq(z3.If(to_int(b) > 0, to_int(b), 0), lambda i: x, 'list')
        raise Unsupported('list * symbolic int')
    if isinstance(op, ast.Mult) and isinstance(b, (list, tuple)) and is_int(a):
        return binop(ip, op, b, a)
    # element-wise ndarray arithmetic
    if (isinstance(a, Seq) and a.kind in ('ndarray', 'range')) or (isinstance(b, Seq) and b.kind in ('ndarray', 'range')):
        if isinstance(a, Seq):
            a = a.copy()
        if isinstance(b, Seq):
            b = b.copy()
        if isinstance(a, Seq) and isinstance(b, Seq):
            return Seq(a.length, lambda i: binop(ip, op, a.fn(i), b.fn(i)), 'ndarray')
        if isinstance(a, Seq):
            return Seq(a.length, lambda i: binop(ip, op, a.fn(i), b), 'ndarray')
        return Seq(b.length, lambda i: binop(ip, op, a, b.fn(i)), 'ndarray')
    if isinstance(a, Cx) or isinstance(b, Cx):
        if is_v(a) or is_v(b):
            nm = _OPNAMES.get(type(op).__name__, 'op')
            if isinstance(a, Cx):
                return uf('cx_%s_left' % nm, a.re, a.im, b)
            return uf('cx_%s_right' % nm, a, b.re, b.im)
        a, b = to_cx(a), to_cx(b)
        ip.flags.add('REAL_FLOAT')
        if isinstance(op, ast.Add):
            return Cx(a.re + b.re, a.im + b.im)
        if isinstance(op, ast.Sub):
            return Cx(a.re - b.re, a.im - b.im)
        if isinstance(op, ast.Mult):
            return Cx(a.re * b.re - a.im * b.im, a.re * b.im + a.im * b.re)
        if isinstance(op, ast.Div):
            d = b.re * b.re + b.im * b.im
            return Cx((a.re * b.re + a.im * b.im) / d, (a.im * b.re - a.re * b.im) / d)
        raise Unsupported('complex op %s' % type(op).__name__)
    if is_v(a) or is_v(b) or a is None or b is None:
        if a is None or b is None:
            raise PyRaise(ExcVal('TypeError', ('unsupported operand None',)))
        name = {'Add': 'add', 'Sub': 'sub', 'Mult': 'mul', 'Div': 'div', 'MatMult': 'matmul',
                'Pow': 'pow', 'Mod': 'mod', 'FloorDiv': 'floordiv', 'BitXor': 'xor'}.get(type(op).__name__)
        if name is None:
            raise Unsupported('opaque op %s' % type(op).__name__)
        if name == 'matmul' and ip.registry is not None and ip.registry.matmul is not None:
            return ip.registry.matmul(ip, a, b)
        return uf(name, a, b)
    if isinstance(a, Obj) or isinstance(b, Obj):
        raise Unsupported('operator on objects')
    if not (is_num(a) or is_bool(a)) or not (is_num(b) or is_bool(b)):
        raise Unsupported('binop %s on %r, %r' % (type(op).__name__, a, b))
    if isinstance(op, (ast.BitXor, ast.BitAnd, ast.BitOr)) and is_bool(a) and is_bool(b):
        # python bools: ^ & | are the logical connectives (both operands are evaluated; no short circuit)
        if isinstance(a, bool) and isinstance(b, bool):
            return {'BitXor': a ^ b, 'BitAnd': a & b, 'BitOr': a | b}[type(op).__name__]
        za, zb = to_z3(a), to_z3(b)
        return {'BitXor': z3.Xor(za, zb), 'BitAnd': z3.And(za, zb), 'BitOr': z3.Or(za, zb)}[type(op).__name__]
    both_int = (is_int(a) or is_bool(a)) and (is_int(b) or is_bool(b))
    if isinstance(op, ast.Add):
        return to_int(a) + to_int(b) if both_int else _fl(ip, to_real(a) + to_real(b))
    if isinstance(op, ast.Sub):
        return to_int(a) - to_int(b) if both_int else _fl(ip, to_real(a) - to_real(b))
    if isinstance(op, ast.Mult):
        return to_int(a) * to_int(b) if both_int else _fl(ip, to_real(a) * to_real(b))
    if isinstance(op, ast.Div):
        den = to_real(b)
        if not ip.decide(den != 0, 'div-nonzero'):
            raise PyRaise(ExcVal('ZeroDivisionError', ()))
        return _fl(ip, to_real(a) / den)
    if isinstance(op, ast.FloorDiv):
        if both_int:
            if not ip.decide(to_int(b) != 0, 'div-nonzero'):
                raise PyRaise(ExcVal('ZeroDivisionError', ()))
            return py_floordiv(a, b)
        raise Unsupported('float floor division')
    if isinstance(op, ast.Mod):
        if both_int:
            if not ip.decide(to_int(b) != 0, 'div-nonzero'):
                raise PyRaise(ExcVal('ZeroDivisionError', ()))
            return py_mod(a, b)
        raise Unsupported('float modulo')
    if isinstance(op, ast.Pow):
        cb = concrete_int(b) if is_int(b) else None
        if cb is not None and 0 <= cb <= 4:
            return _int_pow(to_int(a) if is_int(a) else to_real(a), cb) if cb > 0 else 1
        return uf('pow', to_real(a), to_real(b), sort=z3.RealSort())
    raise Unsupported('binop %s' % type(op).__name__)


U_ROUNDOFF = z3.RealVal(1) / z3.RealVal(2 ** 53)


def _fl(ip, exact):
    """result of one binary64 operation.  Default: the exact real (flag REAL_FLOAT).
    In fp_relax mode: standard model fl(x) = x (1 + d), |d| <= 2^-53 (no overflow/underflow,
    flag FP_STANDARD_MODEL) with a fresh d per operation."""
    if getattr(ip, 'fp_relax', False):
        ip.flags.add('FP_STANDARD_MODEL')
        d = fresh_real('delta')
        ip.add_pc(z3.And(d >= -U_ROUNDOFF, d <= U_ROUNDOFF))
        return exact * (1 + d)
    ip.flags.add('REAL_FLOAT')
    return exact


def _is_conc_num(x):
    return isinstance(x, int)


# ---------------------------------------------------------------------------------
# comparison

def compare(ip, op, a, b):
    I = _interp_types()
    if isinstance(op, (ast.Is, ast.IsNot)):
        r = _is(a, b)
        if isinstance(op, ast.IsNot):
            return (not r) if isinstance(r, bool) else z3.Not(r)
        return r
    if isinstance(op, (ast.In, ast.NotIn)):
        r = contains(ip, b, a)
        if isinstance(op, ast.NotIn):
            return (not r) if isinstance(r, bool) else z3.Not(r)
        return r
    if hasattr(a, 'pv_compare'):
        return a.pv_compare(ip, type(op).__name__, b)
    if hasattr(b, 'pv_compare'):
        return b.pv_compare(ip, type(op).__name__, a)
    if isinstance(a, InfVal) or isinstance(b, InfVal):
        return _cmp_inf(op, a, b)
    if (isinstance(a, Seq) and a.kind == 'ndarray') or (isinstance(b, Seq) and b.kind == 'ndarray'):
        if isinstance(a, Seq):
            a = a.copy()
        if isinstance(b, Seq):
            b = b.copy()
        if isinstance(a, Seq) and isinstance(b, Seq):
            return Seq(a.length, lambda i: compare(ip, op, a.fn(i), b.fn(i)), 'ndarray')
        if isinstance(a, Seq):
            return Seq(a.length, lambda i: compare(ip, op, a.fn(i), b), 'ndarray')
        return Seq(b.length, lambda i: compare(ip, op, a, b.fn(i)), 'ndarray')
    if isinstance(op, (ast.Eq, ast.NotEq)):
        r = _eq(ip, a, b)
        if isinstance(op, ast.NotEq):
            return (not r) if isinstance(r, bool) else z3.Not(r)
        return r
    if isinstance(a, int) and isinstance(b, int):
        return {'Lt': a < b, 'LtE': a <= b, 'Gt': a > b, 'GtE': a >= b}[type(op).__name__]
    if (is_num(a) or is_bool(a)) and (is_num(b) or is_bool(b)):
        if (is_int(a) or is_bool(a)) and (is_int(b) or is_bool(b)):
            x, y = to_int(a), to_int(b)
        else:
            x, y = to_real(a), to_real(b)
        return {'Lt': x < y, 'LtE': x <= y, 'Gt': x > y, 'GtE': x >= y}[type(op).__name__]
    if a is None or b is None:
        raise PyRaise(ExcVal('TypeError', ('ordering comparison with None',)))
    if is_v(a) or is_v(b):
        return uf('cmp_' + type(op).__name__, a, b, sort=z3.BoolSort())
    raise Unsupported('comparison %s of %r, %r' % (type(op).__name__, a, b))


def _cmp_inf(op, a, b):
    name = type(op).__name__
    if isinstance(a, InfVal) and isinstance(b, InfVal):
        return {'Lt': False, 'LtE': True, 'Gt': False, 'GtE': True, 'Eq': True, 'NotEq': False}[name]
    if isinstance(b, InfVal):      # finite vs +inf
        return {'Lt': True, 'LtE': True, 'Gt': False, 'GtE': False, 'Eq': False, 'NotEq': True}[name]
    return {'Lt': False, 'LtE': False, 'Gt': True, 'GtE': True, 'Eq': False, 'NotEq': True}[name]


def _is(a, b):
    if hasattr(a, 'pv_getattr') or hasattr(b, 'pv_getattr'):
        return a is b
    if isinstance(a, NpScalar) or isinstance(b, NpScalar):
        return a is b          # a numpy scalar is never the singleton True / False / None
    if a is None and b is None:
        return True
    if a is None or b is None:
        other = b if a is None else a
        if is_v(other):
            return other == NONE
        return False
    if isinstance(a, bool) and isinstance(b, bool):
        return a is b
    if is_z3(a) and z3.is_bool(a) and isinstance(b, bool):
        # `x is True` on a *python bool* symbolic value
        return a == b
    if is_z3(b) and z3.is_bool(b) and isinstance(a, bool):
        return b == a
    if is_v(a) and is_v(b):
        return a == b
    if isinstance(a, (Obj, list, dict, Seq, SymMap)) or isinstance(b, (Obj, list, dict, Seq, SymMap)):
        return a is b
    raise Unsupported('`is` on %r, %r' % (a, b))


def _eq(ip, a, b):
    if isinstance(a, NpScalar):
        a = a.val
    if isinstance(b, NpScalar):
        b = b.val
    if isinstance(a, str) or isinstance(b, str):
        if isinstance(a, str) and isinstance(b, str):
            if a.startswith('<') or b.startswith('<'):
                raise Unsupported('comparison of abstracted strings')
            return a == b
        if is_v(a) or is_v(b):
            return uf('eq_str', a if is_v(a) else b, a if isinstance(a, str) else b, sort=z3.BoolSort())
        return False
    if a is None or b is None:
        return _is(a, b)
    if isinstance(a, (tuple, list)) and isinstance(b, (tuple, list)):
        if len(a) != len(b):
            return False
        parts = [_eq(ip, x, y) for x, y in zip(a, b)]
        if all(isinstance(p, bool) for p in parts):
            return all(parts)
        return z3.And([to_z3(p) for p in parts])
    if is_v(a) or is_v(b):
        if is_v(a) and is_v(b):
            return a == b
        ip.flags.add('OPAQUE_EQ')
        va, other = (a, b) if is_v(a) else (b, a)
        return uf('eq_val', va, other, sort=z3.BoolSort())
    if isinstance(a, (Seq,)) or isinstance(b, Seq):
        raise Unsupported('== on symbolic-length sequences in a non-goal position')
    if isinstance(a, Obj) or isinstance(b, Obj):
        return a is b
    if isinstance(a, Cx) or isinstance(b, Cx):
        a, b = to_cx(a), to_cx(b)
        return z3.And(a.re == b.re, a.im == b.im)
    if isinstance(a, bool) and isinstance(b, bool):
        return a == b
    if isinstance(a, int) and isinstance(b, int):
        return a == b
    if isinstance(a, (tuple, list)) or isinstance(b, (tuple, list)):
        return False
    za, zb = to_z3(a), to_z3(b)
    if za.sort() != zb.sort():
        if (is_num(za) or is_bool(za)) and (is_num(zb) or is_bool(zb)):
            return to_real(za) == to_real(zb)
        return False
    return za == zb


class KeysView:
    def __init__(self, m):
        self.m = m


def contains(ip, container, x):
    if isinstance(container, KeysView):
        container = container.m
    if isinstance(container, dict):
        sym = getattr(container, 'sym', None)
        if not is_symbolic_key(x):
            if x in container or sym is None or isinstance(x, str):
                return x in container
            return sym.has(x)
        parts = [keq(x, k) for k in container.keys() if not isinstance(k, str)]
        if sym is not None:
            parts.append(sym.has(x))
        return z3.Or(parts) if parts else False
    if isinstance(container, SymMap):
        return container.has(x)
    if isinstance(container, (list, tuple)):
        parts = [_eq(ip, x, y) for y in container]
        if all(isinstance(p, bool) for p in parts):
            return any(parts)
        return z3.Or([to_z3(p) for p in parts])
    if isinstance(container, Seq):
        j = fresh_int('inj')
        # membership in a symbolic sequence: existential; fork on a fresh witness
        raise Unsupported('membership test in symbolic-length sequence')
    if isinstance(container, str):
        raise Unsupported('substring test')
    raise Unsupported('`in` on %r' % (container,))


# ---------------------------------------------------------------------------------
# attributes

def _list_method(ip, o, attr):
    I = _interp_types()

    def append(ip_, args, kw):
        ip_.note_mutation(o)
        o.append(args[0])

    def insert(ip_, args, kw):
        ip_.note_mutation(o)
        ci = concrete_int(args[0])
        if ci is None:
            n, v = len(o), args[1]
            k = to_int(args[0])
            k = z3.If(k < 0, z3.If(k + n < 0, 0, k + n), z3.If(k > n, n, k))
            old = list(o)
            new = []
            for j in range(n + 1):
                before = old[j] if j < n else v
                after = old[j - 1] if j >= 1 else v
                new.append(ite(j < k, before, ite(k == j, v, after)))
            o[:] = new
            return
        o.insert(ci, args[1])

    def extend(ip_, args, kw):
        ip_.note_mutation(o)
        o.extend(ip_.iter_concrete(args[0]))

    def pop(ip_, args, kw):
        ip_.note_mutation(o)
        if not o:
            raise PyRaise(ExcVal('IndexError', ('pop from empty list',)))
        if args:
            ci = concrete_int(args[0])
            if ci is None:
                raise Unsupported('pop at symbolic index')
            return o.pop(ci)
        return o.pop()

    def copy_(ip_, args, kw):
        return list(o)

    def reverse(ip_, args, kw):
        ip_.note_mutation(o)
        o.reverse()

    def index(ip_, args, kw):
        raise Unsupported('list.index')
    table = {'append': append, 'insert': insert, 'extend': extend, 'pop': pop, 'copy': copy_,
             'reverse': reverse, 'index': index, 'tolist': copy_}
    if attr in table:
        return I.Builtin('list.' + attr, table[attr])
    raise Unsupported('list.%s' % attr)


def _seq_method(ip, o, attr):
    I = _interp_types()

    def append(ip_, args, kw):
        ip_.note_mutation(o)
        n, old, v = o.length, o.fn, args[0]
        o.fn = lambda i: ite(i == n, v, old(i))
        o.length = z3.simplify(n + 1)

    def insert(ip_, args, kw):
        ip_.note_mutation(o)
        n, old, v = o.length, o.fn, args[1]
        k = to_int(args[0])
        # python clamps the insertion index
        k = z3.If(k < 0, z3.If(k + n < 0, 0, k + n), z3.If(k > n, n, k))
        o.fn = lambda i: ite(i < k, old(i), ite(i == k, v, old(i - 1)))
        o.length = z3.simplify(n + 1)

    def copy_(ip_, args, kw):
        return o.copy()

    def extend(ip_, args, kw):
        ip_.note_mutation(o)
        other = snap(args[0])
        n, old = o.length, o.fn
        o.fn = lambda i: ite(i < n, old(i), other.fn(i - n))
        o.length = z3.simplify(n + other.length)

    def sort(ip_, args, kw):
        raise Unsupported('sort of symbolic sequence')

    def tolist(ip_, args, kw):
        return o.copy('list')

    def transpose(ip_, args, kw):
        return o
    table = {'append': append, 'insert': insert, 'copy': copy_, 'sort': sort, 'tolist': tolist, 'extend': extend}
    if o.kind == 'ndarray':
        table = {'copy': copy_, 'tolist': tolist, 'sort': sort}
        if attr in ('max', 'min'):
            return I.Builtin('ndarray.' + attr, lambda ip_, a, k: seq_extreme(ip_, o, attr))
        if attr == 'any':
            return I.Builtin('ndarray.any', lambda ip_, a, k: seq_any(ip_, o))
        if attr == 'all':
            return I.Builtin('ndarray.all', lambda ip_, a, k: z3.Not(to_z3(seq_any(ip_, o, negate=True))))
    if attr in table:
        return I.Builtin('seq.' + attr, table[attr])
    raise Unsupported('%s.%s' % (o.kind, attr))


def seq_extreme(ip, s, which):
    """max()/min() of a numeric sequence: fresh m, witness index, universal bound."""
    n = concrete_int(s.length)
    if n is not None and n <= 16:
        if n == 0:
            raise PyRaise(ExcVal('ValueError', ('zero-size array',)))
        m = s.fn(z3.IntVal(0))
        for k in range(1, n):
            x = s.fn(z3.IntVal(k))
            m = z3.If((x > m) if which == 'max' else (x < m), x, m)
        return m
    if not ip.decide(s.length > 0, 'extreme-nonempty'):
        raise PyRaise(ExcVal('ValueError', ('zero-size array',)))
    ckey = (id(s), id(s.fn), str(s.length), which)
    cache = ip.ghost.setdefault('extreme_cache', {})
    if ckey in cache and cache[ckey][0] is s:
        return cache[ckey][1]          # max/min of the same (unmodified) sequence is the same number
    snap = s.copy()
    probe = snap.fn(z3.IntVal(0))
    m = fresh_int('m') if is_int(probe) else fresh_real('m')
    j = fresh_int('mj')
    ip.add_pc(z3.And(j >= 0, j < snap.length, snap.fn(j) == m))
    fact = (lambda i: snap.fn(i) <= m) if which == 'max' else (lambda i: snap.fn(i) >= m)
    ip.add_universal(s, fact, snap.length)
    ip.extreme_facts.append((snap, m, which))
    cache[ckey] = (s, m)
    return m


def seq_any(ip, s, negate=False):
    """np.any over a Bool sequence: fork on a fresh witness."""
    j = fresh_int('anyj')
    snap = s.copy()
    el = to_z3(snap.fn(j))
    cond = z3.Not(el) if negate else el
    wit = z3.And(j >= 0, j < snap.length, cond)
    if ip.may_exist(wit, 'any'):
        return True
    ip.add_universal(s, (lambda i: to_z3(snap.fn(i))) if negate else (lambda i: z3.Not(to_z3(snap.fn(i)))),
                     snap.length)
    return False


def getattr_(ip, o, attr):
    I = _interp_types()
    if hasattr(o, 'pv_getattr'):
        return o.pv_getattr(ip, attr)
    if isinstance(o, Obj):
        if attr in o.fields:
            return o.fields[attr]
        if attr == '__class__':
            return o.cls
        if isinstance(o.cls, ClassRef):
            m = o.cls.find(attr)
            if m is not None:
                kind = getattr(m, 'kind', 'method')
                if kind == 'property':
                    model = ip.registry.models.get(m.qualname) if ip.registry else None
                    if model is not None and m.qualname not in ip.registry.inline_now:
                        return model(ip, [o], {})
                    return ip.call(m, [o], {})
                return I.BoundMethod(o, m)
            if attr in ('__enter__', '__exit__'):
                raise PyRaise(ExcVal('AttributeError', (attr,)))
            raise PyRaise(ExcVal('AttributeError', (attr,)))
        key = o.cls + '.' + attr
        if ip.registry and key in ip.registry.models:
            if key in ip.registry.model_properties:
                return ip.registry.models[key](ip, [o], {})
            return I.BoundMethod(o, ('model', key))
        if attr.startswith('__') or getattr(ip.registry, 'closed_records', None) and o.cls in ip.registry.closed_records:
            raise PyRaise(ExcVal('AttributeError', (attr,)))
        # an abstract record (contract-side stand-in for a library object): an attribute the contract does not describe is a gap of
        # the contract, not an AttributeError of the code
        raise Unsupported('attribute `%s` of the abstract record %s is not described by the contract' % (attr, o.cls))
    if isinstance(o, I.SuperProxy):
        cls = o.obj.cls
        mro = cls.mro()
        names = [c.qualname for c in mro]
        start = names.index(o.after_cls.qualname) + 1 if o.after_cls.qualname in names else 0
        for c in mro[start:]:
            m = c.own_members().get(attr)
            if m is not None:
                return I.BoundMethod(o.obj, m)
        if attr == '__init__':
            return I.Builtin('object.__init__', lambda ip_, a, k: None)
        raise Unsupported('super().%s' % attr)
    if isinstance(o, ModuleRef):
        dotted = o.dotted + '.' + attr
        if dotted in CONSTANTS:
            return CONSTANTS[dotted]
        return ModuleRef(dotted)
    if isinstance(o, Module):
        r = o.lookup(attr)
        if r is None:
            raise PyRaise(ExcVal('AttributeError', (attr,)))
        return ip.materialise(r)
    if isinstance(o, list):
        return _list_method(ip, o, attr)
    if isinstance(o, Seq):
        if attr == 'shape':
            return (seq_len(o),)
        if attr == 'T':
            return o
        return _seq_method(ip, o, attr)
    if isinstance(o, dict):
        if attr == 'keys':
            return I.Builtin('dict.keys', lambda ip_, a, k: KeysView(o))
        if attr == 'values':
            return I.Builtin('dict.values', lambda ip_, a, k: list(o.values()))
        if attr == 'items':
            return I.Builtin('dict.items', lambda ip_, a, k: [(kk, vv) for kk, vv in o.items()])
        if attr == 'get':
            def dget(ip_, a, k):
                default = a[1] if len(a) > 1 else None
                try:
                    return getitem(ip_, o, a[0])
                except PyRaise as pr:
                    if pr.exc.typ == 'KeyError':
                        return default
                    raise
            return I.Builtin('dict.get', dget)
        if attr == 'clear':
            def clear(ip_, a, k):
                ip_.note_mutation(o)
                dict.clear(o)
                if isinstance(o, SDict):
                    o.sym = None
            return I.Builtin('dict.clear', clear)
        if attr == 'pop':
            def pop(ip_, a, k):
                ip_.note_mutation(o)
                if is_z3(a[0]):
                    raise Unsupported('dict.pop with symbolic key')
                return dict.pop(o, a[0], *a[1:]) if (a[0] in o or len(a) > 1) else ip_.raise_('KeyError')
            return I.Builtin('dict.pop', pop)
        raise Unsupported('dict.%s' % attr)
    if isinstance(o, SymMap):
        if attr == 'keys':
            return I.Builtin('dict.keys', lambda ip_, a, k: KeysView(o))
        if attr == 'get':
            def sget(ip_, a, k):
                if ip_.decide(o.has(a[0]), 'mapkey'):
                    return o.get(a[0])
                return a[1] if len(a) > 1 else None
            return I.Builtin('dict.get', sget)
        raise Unsupported('symbolic dict.%s' % attr)
    if isinstance(o, Cx):
        if attr == 'real':
            return o.re
        if attr == 'imag':
            return o.im
        if attr == 'conjugate':
            return I.Builtin('complex.conjugate', lambda ip_, a, k: Cx(o.re, -o.im))
    if isinstance(o, ExcVal):
        if attr == 'args':
            return o.args
    if isinstance(o, (I.ExcClass, I.TypeTok, ClassRef, FuncRef)) and attr == '__name__':
        return '<str>'
    if isinstance(o, ClassRef):
        m = o.find(attr)
        if m is not None:
            return m
    if isinstance(o, str):
        if attr == 'format':
            return I.Builtin('str.format', lambda ip_, a, k: '<str>')
        if attr == 'join':
            return I.Builtin('str.join', lambda ip_, a, k: '<str>')
    if is_v(o):
        ip.flags.add('OPAQUE_ATTR')
        hook = ip.registry.opaque_attr if ip.registry else None
        if hook is not None:
            r = hook(ip, o, attr)
            if r is not None:
                return r[0]
        if attr in OPAQUE_VALUE_ATTRS:
            r = uf('attr_' + attr, o)
            ip.add_pc(r != NONE)       # library attribute values are never None
            return r
        return I.Builtin('opaque.' + attr, lambda ip_, a, k, o=o, attr=attr: opaque_method(ip_, o, attr, a, k))
    if is_real(o) or is_int(o):
        if attr == 'real':
            return o
        if attr == 'imag':
            return 0
    if o is None and not (attr.startswith('__') and attr.endswith('__')):
        raise PyRaise(ExcVal('AttributeError', ("'NoneType' object has no attribute '%s'" % attr,)))
    raise Unsupported('attribute %s of %r' % (attr, o))


OPAQUE_VALUE_ATTRS = {'T', 'shape', 'real', 'imag', 'dtype', 'ndim', 'size', 'flags', 'tensor',
                      'edges', 'name'}


# spellings of the same numpy operation on an opaque array get the same uninterpreted symbol
# (x.conj() / x.conjugate() / np.conj(x) / np.conjugate(x);  x.T / x.transpose() / np.transpose(x))
METHOD_SYNONYMS = {'conj': 'conjugate'}


def opaque_method(ip, o, attr, args, kwargs):
    attr = METHOD_SYNONYMS.get(attr, attr)
    ip.lib_pure.add('method:' + attr)
    extra = [v for k, v in sorted(kwargs.items())]
    if attr == 'transpose' and not args and not extra:
        r = uf('attr_T', o)
        ip.add_pc(r != NONE)
        return r
    if attr == 'copy' and not args and not extra:
        pass
    return uf('meth_' + attr, o, *[_idx_flat(a) for a in args], *extra)


# ---------------------------------------------------------------------------------
# builtins

def b_len(ip, args, kw):
    v = args[0]
    if hasattr(v, 'pv_len'):
        return v.pv_len(ip)
    if isinstance(v, Obj):
        m = ip.find_method(v, '__len__')
        if m is None:
            raise PyRaise(ExcVal('TypeError', ('object has no len()',)))
        return ip.call(m, [], {})
    if is_v(v):
        return uf('len', v, sort=z3.IntSort())
    if isinstance(v, KeysView):
        raise Unsupported('len of keys view')
    return seq_len(v)


def b_range(ip, args, kw):
    if len(args) == 1:
        return RangeVal(0, args[0], 1)
    if len(args) == 2:
        return RangeVal(args[0], args[1], 1)
    return RangeVal(args[0], args[1], args[2])


def call_type(ip, name, args, kw):
    if name == 'int':
        x = args[0] if args else 0
        if hasattr(x, 'pv_int'):
            return x.pv_int(ip)
        if is_int(x):
            return x
        if is_bool(x):
            return to_int(x)
        if is_real(x):
            ip.flags.add('REAL_FLOAT')
            return trunc(x)
        if isinstance(x, InfVal):
            raise PyRaise(ExcVal('OverflowError', ()))
        if is_v(x):
            if ip.may_raise('int()-raises'):
                raise PyRaise(ExcVal('TypeError', ('int()',)))
            return uf('int_of', x, sort=z3.IntSort())
        raise PyRaise(ExcVal('TypeError', ('int()',)))
    if name == 'float':
        x = args[0] if args else 0
        if is_real(x):
            return x
        if is_int(x) or is_bool(x):
            ip.flags.add('REAL_FLOAT')
            return to_real(x)
        if isinstance(x, InfVal):
            return x
        if is_v(x):
            if ip.may_raise('float()-raises'):
                raise PyRaise(ExcVal('TypeError', ('float()',)))
            return uf('float_of', x, sort=z3.RealSort())
        raise PyRaise(ExcVal('TypeError', ('float()',)))
    if name == 'complex':
        x = args[0]
        if isinstance(x, Cx):
            return x
        if is_num(x):
            return to_cx(x)
        if is_v(x):
            if ip.may_raise('complex()-raises'):
                raise PyRaise(ExcVal('TypeError', ('complex()',)))
            return Cx(uf('re_of', x, sort=z3.RealSort()), uf('im_of', x, sort=z3.RealSort()))
        raise PyRaise(ExcVal('TypeError', ('complex()',)))
    if name == 'bool':
        t = ip.truth(args[0]) if args else False
        return t
    if name == 'list':
        if not args:
            return []
        v = args[0]
        if isinstance(v, (list, tuple)):
            return list(v)
        if isinstance(v, dict):
            return list(v.keys())
        if isinstance(v, (Seq, RangeVal)):
            s = as_seq(v)
            n = concrete_int(s.length)
            if n is not None and n <= 64:
                return [s.fn(z3.IntVal(k)) for k in range(n)]
            return s.copy('list')
        if is_v(v):
            raise Unsupported('list() of opaque value')
        raise Unsupported('list(%r)' % (v,))
    if name == 'tuple':
        if not args:
            return ()
        v = args[0]
        if isinstance(v, (list, tuple)):
            return tuple(v)
        if isinstance(v, (Seq, RangeVal)):
            s = as_seq(v)
            n = concrete_int(s.length)
            if n is not None and n <= 64:
                return tuple(s.fn(z3.IntVal(k)) for k in range(n))
            return s.copy('tuple')
        raise Unsupported('tuple(%r)' % (v,))
    if name == 'dict':
        return SDict(kw) if not args else SDict(args[0])
    if name == 'str':
        return '<str>'
    if name == 'slice':
        a = list(args) + [None] * (3 - len(args))
        if len(args) == 1:
            return SliceVal(None, a[0], None)
        return SliceVal(a[0], a[1], a[2])
    if name == 'type':
        return _interp_types().TypeTok('type-of')
    raise Unsupported('type call %s' % name)


def type_of(ip, v):
    """set of type names a value is an instance of (None when unknown/opaque)."""
    if v is None:
        return {'NoneType'}
    if hasattr(v, 'pv_types'):
        return set(v.pv_types)
    if isinstance(v, bool) or (is_z3(v) and z3.is_bool(v)):
        return {'bool', 'int'}
    if is_int(v):
        return {'int'}
    if is_real(v):
        return {'float'}
    if isinstance(v, Cx):
        return {'complex'}
    if isinstance(v, str):
        return {'str', 'typing.Text', 'Text'}
    if isinstance(v, list):
        return {'list'}
    if isinstance(v, tuple):
        return {'tuple'}
    if isinstance(v, (dict, SymMap)):
        return {'dict'}
    if isinstance(v, SliceVal):
        return {'slice'}
    if isinstance(v, Seq):
        return {{'list': 'list', 'tuple': 'tuple', 'ndarray': 'numpy.ndarray', 'range': 'range'}[v.kind]} | \
            ({'ndarray'} if v.kind == 'ndarray' else set())
    if isinstance(v, InfVal):
        return {'float'}
    return None


def b_isinstance(ip, args, kw):
    I = _interp_types()
    v, t = args
    ts = t if isinstance(t, tuple) else (t,)
    names = []
    for x in ts:
        if isinstance(x, I.TypeTok):
            names.append(x.name)
        elif isinstance(x, ClassRef):
            names.append(x.name)
        elif isinstance(x, ModuleRef):
            names.append(x.dotted)
            names.append(x.dotted.split('.')[-1])
        elif isinstance(x, I.ExcClass):
            names.append(x.name)
        else:
            raise Unsupported('isinstance type %r' % (x,))
    if isinstance(v, Obj):
        if isinstance(v.cls, ClassRef):
            return any(v.cls.is_subclass_of(n) for n in names)
        bases = ip.registry.model_bases.get(v.cls, [v.cls]) if ip.registry else [v.cls]
        return any(n in bases for n in names)
    if isinstance(v, ExcVal):
        from .interp import exc_isinstance
        return any(exc_isinstance(v.typ, n) for n in names)
    tv = type_of(ip, v)
    if tv is not None:
        return any(n in tv for n in names)
    if is_v(v):
        known = ip.ghost.get('vtypes', {}).get(str(v))
        if known is not None:
            return any(n in known for n in names)
        return uf('isinstance_' + '_'.join(sorted(set(n.split('.')[-1] for n in names))), v,
                  sort=z3.BoolSort())
    if isinstance(v, (I.Closure, I.BoundMethod, I.Builtin, FuncRef)):
        return False
    if isinstance(v, (ClassRef, I.TypeTok, I.ExcClass, ModuleRef)):
        return 'type' in names
    if callable(v) and getattr(v, '_pyvc_model', False):
        return False
    raise Unsupported('isinstance(%r, ...)' % (v,))


def b_minmax(which):
    def f(ip, args, kw):
        items = args
        if len(args) == 1:
            items = ip.iter_values(args[0])
            if not isinstance(items, list):
                return seq_extreme(ip, items, which)
        items = list(items)
        fin = [x for x in items if not isinstance(x, InfVal)]
        if len(fin) != len(items):
            infs = [x for x in items if isinstance(x, InfVal)]
            if which == 'min' and all(i.sign > 0 for i in infs):
                if not fin:
                    return INF
                items = fin
            else:
                raise Unsupported('max/min with inf')
        if not items:
            raise PyRaise(ExcVal('ValueError', ('empty sequence',)))
        if all(isinstance(x, int) for x in items):
            return max(items) if which == 'max' else min(items)
        m = items[0]
        for x in items[1:]:
            c = compare(ip, ast.Gt() if which == 'max' else ast.Lt(), x, m)
            m = ite(to_z3(c), x, m)
        return m
    return f


def b_abs(ip, args, kw):
    x = args[0]
    if isinstance(x, int):
        return abs(x)
    if is_num(x):
        return z3.If(x >= 0, x, -x)
    if is_v(x):
        return uf('abs', x)
    raise Unsupported('abs')


def b_zip(ip, args, kw):
    if any(isinstance(a, _interp_types().LazyIter) for a in args):
        def produce():
            its = [a.pull() if isinstance(a, _interp_types().LazyIter) else iter(_concrete_items(ip, a)) for a in args]
            while True:
                row = []
                for it in its:              # python's zip pulls left to right and stops at the first exhausted iterator
                    try:
                        row.append(next(it))
                    except StopIteration:
                        return
                yield tuple(row)
        return _interp_types().LazyIter(produce(), 'zip')
    if all(isinstance(a, (list, tuple)) for a in args):
        return [tuple(t) for t in zip(*args)]
    conc = [seq_len(a) for a in args]
    if all(isinstance(n, int) for n in conc):
        n = min(conc)
        seqs = [as_seq(a) for a in args]
        return [tuple(s.fn(z3.IntVal(k)) for s in seqs) for k in range(n)]
    seqs = [snap(a) for a in args]
    n = seqs[0].length
    for s in seqs[1:]:
        n = z3.If(s.length < n, s.length, n)
    return Seq(z3.simplify(n), lambda i: tuple(s.fn(i) for s in seqs), 'list')


def _concrete_items(ip, a):
    items = ip.iter_values(a)
    if not isinstance(items, list):
        raise Unsupported('zip of a generator with a symbolic-length sequence')
    return items


def b_enumerate(ip, args, kw):
    start = kw.get('start', args[1] if len(args) > 1 else 0)
    v = args[0]
    if isinstance(v, _interp_types().LazyIter):
        def produce():
            for k, x in enumerate(v.pull()):
                yield (start + k, x)
        return _interp_types().LazyIter(produce(), 'enumerate')
    if isinstance(v, (list, tuple)):
        return [(start + k, x) for k, x in enumerate(v)]
    s = snap(v)
    n = concrete_int(s.length)
    if n is not None and n <= 64:
        return [(start + k, s.fn(z3.IntVal(k))) for k in range(n)]
    return Seq(s.length, lambda i: (i + start, s.fn(i)), 'list')


def b_map(ip, args, kw):
    """map is lazy in python 3: the function is called when an element is pulled"""
    LI = _interp_types().LazyIter
    fn, its = args[0], args[1:]

    def produce():
        srcs = [a.pull() if isinstance(a, LI) else iter(_concrete_items(ip, a)) for a in its]
        while True:
            row = []
            for it in srcs:
                try:
                    row.append(next(it))
                except StopIteration:
                    return
            yield ip.call(fn, row, {})
    return LI(produce(), 'map')


def b_reversed(ip, args, kw):
    v = args[0]
    if isinstance(v, (list, tuple)):
        return list(reversed(v))
    s = snap(v)
    n = s.length
    return Seq(n, lambda i: s.fn(n - 1 - i), 'list')


def b_sorted(ip, args, kw):
    v = args[0]
    if kw.get('key') is not None:
        raise Unsupported('sorted() with a key function')
    rev = kw.get('reverse', False)
    if not isinstance(rev, bool):
        raise Unsupported('sorted() with a symbolic reverse flag')
    items = ip.iter_values(v)
    if isinstance(items, list):
        items = [concrete_int(x) if (not isinstance(x, (int, float)) and is_z3(x) and concrete_int(x) is not None) else x for x in items]
    if isinstance(items, list) and len(items) <= 1:
        return list(items)
    if isinstance(items, list) and all(isinstance(x, (int, float)) and not isinstance(x, bool) for x in items):
        return sorted(items, reverse=rev)
    if rev:
        raise Unsupported('sorted(reverse=True) of symbolic values')
    if isinstance(items, list) and len(items) <= 4 and all(is_num(x) for x in items):
        # sorting network via min/max (insertion sort on symbolic values)
        xs = list(items)
        for i in range(len(xs)):
            for j in range(len(xs) - 1 - i):
                a, b = xs[j], xs[j + 1]
                c = to_z3(compare(ip, ast.LtE(), a, b))
                xs[j], xs[j + 1] = ite(c, a, b), ite(c, b, a)
        return xs
    raise Unsupported('sorted() of symbolic sequence')


def b_print(ip, args, kw):
    ip.log.append(('print',))
    return None


def b_sum(ip, args, kw):
    items = ip.iter_values(args[0])
    if not isinstance(items, list):
        raise Unsupported('sum of symbolic-length sequence')
    acc = args[1] if len(args) > 1 else 0
    for x in items:
        acc = binop(ip, ast.Add(), acc, x)
    return acc


def b_any(ip, args, kw):
    items = ip.iter_values(args[0])
    if isinstance(items, list):
        for x in items:
            if ip.branch(x, 'any'):
                return True
        return False
    return seq_any(ip, items)


def b_all(ip, args, kw):
    items = ip.iter_values(args[0])
    if isinstance(items, list):
        for x in items:
            if not ip.branch(x, 'all'):
                return False
        return True
    r = seq_any(ip, items, negate=True)
    return not r


def b_callable(ip, args, kw):
    I = _interp_types()
    v = args[0]
    if isinstance(v, (I.Closure, I.BoundMethod, I.Builtin, FuncRef, ClassRef)):
        return True
    if getattr(v, '_pyvc_model', False):
        return True
    if isinstance(v, Obj):
        return ip.find_method(v, '__call__') is not None
    if is_v(v):
        known = ip.ghost.get('vtypes', {}).get(str(v))
        if known is not None:
            return 'callable' in known
        return uf('callable', v, sort=z3.BoolSort())
    return False


def b_round(ip, args, kw):
    if len(args) > 1:
        raise Unsupported('round with digits')
    x = args[0]
    if is_int(x):
        return x
    return round_half_even(x)


def b_hasattr(ip, args, kw):
    o, name = args
    if isinstance(o, Obj):
        if name in o.fields:
            return True
        if isinstance(o.cls, ClassRef):
            return o.cls.find(name) is not None
        return (o.cls + '.' + name) in ip.registry.models
    raise Unsupported('hasattr on %r' % (o,))


def b_getattr(ip, args, kw):
    if len(args) == 3:
        try:
            return getattr_(ip, args[0], args[1])
        except PyRaise:
            return args[2]
    return getattr_(ip, args[0], args[1])


def _mk_builtins():
    I = _interp_types()
    B = I.Builtin
    d = {
        'len': B('len', b_len), 'range': B('range', b_range), 'isinstance': B('isinstance', b_isinstance),
        'max': B('max', b_minmax('max')), 'min': B('min', b_minmax('min')), 'abs': B('abs', b_abs),
        'zip': B('zip', b_zip), 'enumerate': B('enumerate', b_enumerate), 'map': B('map', b_map),
        'reversed': B('reversed', b_reversed), 'sorted': B('sorted', b_sorted),
        'print': B('print', b_print), 'sum': B('sum', b_sum), 'any': B('any', b_any),
        'all': B('all', b_all), 'callable': B('callable', b_callable), 'round': B('round', b_round),
        'hasattr': B('hasattr', b_hasattr), 'getattr': B('getattr', b_getattr),
        'True': True, 'False': False, 'None': None,
    }
    for t in ('int', 'float', 'complex', 'bool', 'list', 'tuple', 'dict', 'str', 'slice', 'type', 'object'):
        d[t] = I.TypeTok(t)
    return d


class _LazyBuiltins(dict):
    def _fill(self):
        if not dict.__len__(self):
            dict.update(self, _mk_builtins())

    def __contains__(self, k):
        self._fill()
        return dict.__contains__(self, k)

    def __getitem__(self, k):
        self._fill()
        return dict.__getitem__(self, k)


BUILTINS = _LazyBuiltins()

CONSTANTS = {
    'numpy.inf': INF, 'numpy.nan': 'NaN', 'numpy.pi': z3.Real('PI'), 'math.pi': z3.Real('PI'),
    'numpy.newaxis': None,
}


# ---------------------------------------------------------------------------------
# library functions

def np_arange(ip, args, kw):
    if len(args) != 1:
        raise Unsupported('np.arange with %d args' % len(args))
    n = args[0]
    if is_real(n):
        raise Unsupported('np.arange of float')
    n = to_int(n)
    return Seq(z3.If(n > 0, n, 0), lambda i: i, 'ndarray')


def np_array(ip, args, kw):
    v = args[0]
    if isinstance(v, (list, tuple)):
        if all(is_num(x) or is_bool(x) for x in v):
            return Seq.from_list(list(v), 'ndarray')
        if len(v) == 0:
            return Seq(0, lambda i: 0, 'ndarray')
        ip.lib_pure.add('numpy.array')
        return uf('np_array', *v)
    if isinstance(v, Seq):
        return v.copy('ndarray')
    if isinstance(v, RangeVal):
        return v.as_seq().copy('ndarray')
    if is_v(v):
        ip.lib_pure.add('numpy.array')
        hook = ip.registry.np_array_opaque if ip.registry else None
        if hook is not None:
            return hook(ip, v, kw)
        r = uf('np_array', v)
        ip.add_pc(r != NONE)
        return r
    if is_num(v):
        return v
    if isinstance(v, Cx):
        return v
    raise Unsupported('np.array(%r)' % (v,))


def np_round(ip, args, kw):
    x = args[0]
    ip.flags.add('REAL_FLOAT')
    if isinstance(x, Seq):
        return Seq(x.length, lambda i: to_real(round_half_even(x.fn(i))), 'ndarray')
    if is_int(x):
        return x
    # numpy returns a float; keep the integer value as a Real
    return z3.ToReal(round_half_even(x))


def np_min(ip, args, kw):
    return b_minmax('min')(ip, args, kw)


def np_max(ip, args, kw):
    return b_minmax('max')(ip, args, kw)


def np_append(ip, args, kw):
    a, x = args
    s = snap(a)
    n = s.length
    return Seq(z3.simplify(n + 1), lambda i: ite(i == n, x, s.fn(i)), 'ndarray')


def np_allclose(ip, args, kw):
    a, b = args[0], args[1]
    if isinstance(a, (Seq, list, tuple)) and isinstance(b, (Seq, list, tuple)):
        sa, sb = as_seq(a), as_seq(b)
        n = concrete_int(sa.length)
        if n is not None and n <= 8:
            ip.flags.add('ALLCLOSE_EXACT')
            return z3.And([to_z3(_eq(ip, sa.fn(z3.IntVal(k)), sb.fn(z3.IntVal(k)))) for k in range(n)] + [z3.BoolVal(True)])
    if is_v(a) or is_v(b):
        return uf('allclose', a, b, sort=z3.BoolSort())
    raise Unsupported('np.allclose on %r' % (a,))


def np_isclose(ip, args, kw):
    """ASSUMED contract of np.isclose(a, b, rtol=1e-5, atol=1e-8): |a - b| <= atol + rtol |b|"""
    a, b = to_real(args[0]), to_real(args[1])
    rtol = to_real(kw.get('rtol', args[2] if len(args) > 2 else 1.0e-5))
    atol = to_real(kw.get('atol', args[3] if len(args) > 3 else 1.0e-8))
    d = z3.If(a >= b, a - b, b - a)
    ab = z3.If(b >= 0, b, -b)
    return d <= atol + rtol * ab


def copy_copy(ip, args, kw):
    v = args[0]
    if isinstance(v, list):
        return list(v)
    if isinstance(v, dict):
        d = type(v)(v)
        if getattr(v, 'sym', None) is not None:
            d.sym = v.sym.copy()
        return d
    if isinstance(v, Seq):
        return v.copy()
    if isinstance(v, SymMap):
        return v.copy()
    if isinstance(v, Obj):
        if isinstance(v.cls, ClassRef):
            m = v.cls.find('__copy__')
            if m is not None:
                return ip.call(m, [v], {})
        o = Obj(v.cls, dict(v.fields), v.tag)
        return o
    return v


def copy_deepcopy(ip, args, kw):
    v = args[0]
    if isinstance(v, list):
        return [copy_deepcopy(ip, [x], {}) for x in v]
    if isinstance(v, tuple):
        return tuple(copy_deepcopy(ip, [x], {}) for x in v)
    if isinstance(v, dict):
        return {k: copy_deepcopy(ip, [x], {}) for k, x in v.items()}
    if isinstance(v, Seq):
        return v.copy()
    if isinstance(v, Obj):
        if isinstance(v.cls, ClassRef):
            m = v.cls.find('__deepcopy__')
            if m is not None:
                return ip.call(m, [v, {}], {})
        # python's default: a new object whose attributes are deep copies; FUNCTIONS (closures, lambdas) are atomic for deepcopy:
        # a closure that captured the original object keeps referring to the original
        return Obj(v.cls, {k: copy_deepcopy(ip, [x], {}) for k, x in v.fields.items()}, v.tag)
    return v


def bisect_right(ip, args, kw):
    """ASSUMED contract of bisect.bisect(sorted_list, x): returns k with
    all(e <= x for e in a[:k]) and all(e > x for e in a[k:]); requires a sorted."""
    a, x = args[0], args[1]
    s = as_seq(a)
    snap = s.copy()
    k = fresh_int('bis')
    ip.add_pc(z3.And(k >= 0, k <= snap.length))
    ip.add_universal(s, lambda i: z3.And(z3.Implies(i < k, snap.fn(i) <= x), z3.Implies(i >= k, snap.fn(i) > x)),
                     snap.length)
    ip.ghost.setdefault('bisect', []).append((snap, x, k))
    return k


def warnings_warn(ip, args, kw):
    ip.log.append(('warn', args[1].name if len(args) > 1 and hasattr(args[1], 'name') else 'UserWarning'))
    return None


def itertools_product(ip, args, kw):
    lists = [ip.iter_values(a) for a in args]
    if all(isinstance(l, list) for l in lists):
        import itertools
        return [tuple(t) for t in itertools.product(*lists)]
    raise Unsupported('itertools.product over symbolic-length sequences')


def np_nonzero(ip, args, kw):
    """np.nonzero(mask) for a 1-d mask of concrete length: every subset is explored."""
    m = as_seq(args[0])
    n = concrete_int(m.length)
    if n is None or n > 6:
        raise Unsupported('np.nonzero on symbolic-length mask')
    idx = [k for k in range(n) if ip.decide(to_z3(m.fn(z3.IntVal(k))), 'nonzero[%d]' % k)]
    return (Seq.from_list(idx, 'ndarray') if idx else Seq(0, lambda i: z3.IntVal(0), 'ndarray'),)


def np_ceil(ip, args, kw):
    x = args[0]
    if is_int(x):
        return x
    x = to_real(x)
    f = z3.ToInt(x)
    return z3.ToReal(z3.If(z3.ToReal(f) == x, f, f + 1))


def np_floor(ip, args, kw):
    x = args[0]
    if is_int(x):
        return x
    return z3.ToReal(z3.ToInt(to_real(x)))


def np_abs(ip, args, kw):
    return b_abs(ip, args, kw)


LIB = {
    'numpy.nonzero': np_nonzero, 'numpy.ceil': np_ceil, 'numpy.floor': np_floor, 'numpy.abs': np_abs, 'numpy.absolute': np_abs,
    'numpy.arange': np_arange, 'numpy.array': np_array, 'numpy.asarray': np_array, 'numpy.round': np_round,
    'numpy.min': np_min, 'numpy.max': np_max, 'numpy.append': np_append,
    'numpy.allclose': np_allclose, 'numpy.isclose': np_isclose, 'math.isclose': np_isclose, 'copy.copy': copy_copy, 'copy.deepcopy': copy_deepcopy,
    'copy': copy_copy, 'deepcopy': copy_deepcopy,
    'bisect.bisect': bisect_right, 'bisect.bisect_right': bisect_right,
    'warnings.warn': warnings_warn, 'itertools.product': itertools_product,
    'time.time': lambda ip, a, k: fresh_real('time'),
    'numpy.finfo': lambda ip, a, k: _finfo(ip),
    'numpy.log': lambda ip, a, k: _real_fn(ip, 'lib_numpy_log', a), 'math.log': lambda ip, a, k: _real_fn(ip, 'lib_numpy_log', a),
}

def _real_fn(ip, name, args):
    """real function of a real scalar: uninterpreted, real-valued"""
    x = args[0]
    if is_num(x) and not isinstance(x, Cx):
        return uf(name, to_real(x), sort=z3.RealSort())
    return uf(name, _idx_flat(x))


def _finfo(ip):
    """np.finfo(float): eps = 2**-52 (IEEE double)"""
    eps = z3.Real('FLOAT_EPS')
    ip.add_pc(eps == z3.RealVal(1) / z3.RealVal(2 ** 52))
    return Obj('finfo', {'eps': eps, 'tiny': z3.Real('FLOAT_TINY'), 'max': z3.Real('FLOAT_MAX')})


PURE_PREFIXES = ('numpy.', 'scipy.', 'tensornetwork.', 'math.', 'numdifftools.', 'functools.')


def call_library(ip, dotted, args, kw):
    if ip.registry is not None and dotted in ip.registry.lib_models:
        return ip.registry.lib_models[dotted](ip, args, kw)
    icpt = getattr(ip.registry, 'lib_intercept', None) if ip.registry is not None else None
    if icpt is not None:
        r = icpt(ip, dotted, args, kw)
        if r is not NotImplemented:
            return r
    # `from copy import copy` style names arrive as 'copy.copy'
    if dotted in LIB:
        ip.lib_used.add(dotted)
        return LIB[dotted](ip, args, kw)
    if dotted in ('numpy.conj', 'numpy.conjugate') and len(args) == 1 and not kw and is_v(args[0]):
        return opaque_method(ip, args[0], 'conjugate', [], {})
    if dotted == 'numpy.transpose' and len(args) == 1 and not kw and is_v(args[0]):
        return opaque_method(ip, args[0], 'transpose', [], {})
    if dotted.startswith(PURE_PREFIXES):
        ip.lib_pure.add(dotted)
        I = _interp_types()
        extra = [v for k, v in sorted(kw.items()) if not isinstance(v, (ModuleRef, I.TypeTok))]
        flat = []
        for a in list(args) + extra:
            if isinstance(a, ModuleRef):
                continue
            flat.append(_idx_flat(a))
        return uf('lib_' + dotted.replace('.', '_'), *flat)
    raise Unsupported('library call %s' % dotted)
