"""cas — computer-algebra back end (sympy) for the kernel identities of C12.

The integrand closures of CustomSD.correlation / CustomSD.eta_function are extracted from the
real source (ast) and translated to sympy expressions over  w (frequency > 0), tau (real),
T (temperature > 0), J (= self._spectral_density(w), real).  Each obligation is an identity
"expression == 0" decided by sympy's simplifier (rewrite to exp, expand, simplify); sympy is
trusted for differentiation and simplification (listed in the trusted base).  A result that
does not simplify to 0 is reported as refuted together with a numeric witness point.
"""
import ast
import sympy as sp

w = sp.Symbol('w', positive=True)
tau = sp.Symbol('tau', real=True)
T = sp.Symbol('T', positive=True)
J = sp.Symbol('J', real=True)
EPS = sp.Symbol('EPS', positive=True)          # np.finfo(float).eps
WC = sp.Symbol('wc', positive=True)            # self.cutoff


class NotTranslatable(Exception):
    pass


def to_sympy(node, env):
    if isinstance(node, ast.Constant):
        v = node.value
        if isinstance(v, complex):
            return sp.nsimplify(v.real) + sp.I * sp.nsimplify(v.imag)
        if isinstance(v, (int, float)):
            return sp.nsimplify(v)
        raise NotTranslatable(repr(v))
    if isinstance(node, ast.Name):
        if node.id in env:
            return env[node.id]
        raise NotTranslatable('name ' + node.id)
    if isinstance(node, ast.UnaryOp) and isinstance(node.op, ast.USub):
        return -to_sympy(node.operand, env)
    if isinstance(node, ast.UnaryOp) and isinstance(node.op, ast.UAdd):
        return to_sympy(node.operand, env)
    if isinstance(node, ast.BinOp):
        a, b = to_sympy(node.left, env), to_sympy(node.right, env)
        if isinstance(node.op, ast.Add):
            return a + b
        if isinstance(node.op, ast.Sub):
            return a - b
        if isinstance(node.op, ast.Mult):
            return a * b
        if isinstance(node.op, ast.Div):
            return a / b
        if isinstance(node.op, ast.Pow):
            return a ** b
        raise NotTranslatable('operator')
    if isinstance(node, ast.Attribute):
        if isinstance(node.value, ast.Name) and node.value.id == 'self' and node.attr == 'temperature':
            return T
        if isinstance(node.value, ast.Name) and node.value.id == 'self' and node.attr == 'cutoff':
            return WC
        if node.attr == 'eps' and isinstance(node.value, ast.Call) and ast.unparse(node.value.func) == 'np.finfo':
            return EPS
        raise NotTranslatable('attribute ' + node.attr)
    if isinstance(node, ast.Call):
        f = node.func
        if isinstance(f, ast.Attribute) and isinstance(f.value, ast.Name) and f.value.id == 'np' and f.attr == 'exp':
            return sp.exp(to_sympy(node.args[0], env))
        if isinstance(f, ast.Attribute) and isinstance(f.value, ast.Name) and f.value.id == 'self' and f.attr == '_spectral_density':
            return J
        if isinstance(f, ast.Attribute) and isinstance(f.value, ast.Name) and f.value.id == 'np' and f.attr == 'finfo':
            return sp.Symbol('FINFO')
        raise NotTranslatable('call ' + ast.unparse(f))
    raise NotTranslatable(type(node).__name__)


def kernel_branches(funcdef, env):
    """integrand closure -> dict branch-name -> sympy expression.
    Accepted shapes:  `return expr`   or   `if guard: inte = A  else: inte = B ; return inte`"""
    body = [s for s in funcdef.body if not (isinstance(s, ast.Expr) and isinstance(s.value, ast.Constant))]
    if len(body) == 1 and isinstance(body[0], ast.Return):
        return {'plain': to_sympy(body[0].value, env)}
    if len(body) == 2 and isinstance(body[0], ast.If) and isinstance(body[1], ast.Return):
        iff = body[0]

        def val(stmts):
            if len(stmts) == 1 and isinstance(stmts[0], ast.Assign):
                return to_sympy(stmts[0].value, env)
            raise NotTranslatable('branch body')
        out = {'thermal': val(iff.body), 'guard': val(iff.orelse), 'guard_test': ast.unparse(iff.test)}
        # the guard condition as  lhs - rhs  of  `lhs > rhs`  (thermal branch taken when positive)
        t = iff.test
        if isinstance(t, ast.Compare) and len(t.ops) == 1 and isinstance(t.ops[0], (ast.Gt, ast.GtE)):
            out['guard_margin'] = to_sympy(t.left, env) - to_sympy(t.comparators[0], env)
        elif isinstance(t, ast.Compare) and len(t.ops) == 1 and isinstance(t.ops[0], (ast.Lt, ast.LtE)):
            out['guard_margin'] = to_sympy(t.comparators[0], env) - to_sympy(t.left, env)
        else:
            raise NotTranslatable('guard condition ' + ast.unparse(t))
        return out
    raise NotTranslatable('integrand shape')


def is_zero(expr):
    e = sp.simplify(sp.expand(expr.rewrite(sp.exp)))
    if e == 0:
        return True, e
    e2 = sp.simplify(sp.expand_complex(e))
    if e2 == 0:
        return True, e2
    e3 = sp.simplify(e2.rewrite(sp.cos))
    return e3 == 0, e3


def witness(expr):
    subs = {w: sp.Rational(13, 10), tau: sp.Rational(7, 10), T: sp.Rational(9, 10), J: sp.Rational(3, 5)}
    try:
        return complex(sp.N(expr.subs(subs)))
    except Exception:
        return None
