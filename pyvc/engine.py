"""Contracts registry, loop-invariant handling, path exploration and obligation discharge."""
import ast
import os
import subprocess
import tempfile
import time
import traceback

import z3

from . import values as Vv
from .values import (Unsupported, Infeasible, PathEnd, PyRaise, ExcVal, Obj, Seq, SymMap, Opaque,
                     veq, to_z3, to_int, fresh_int, fresh_bool, concrete_int, is_z3, map_eq)
from .interp import (Interp, Frame, BreakSignal, ContinueSignal, ReturnSignal, Closure,
                     BoundMethod, Builtin)
from .modules import Repo, FuncRef, ClassRef, nested_function, describe, source_hash


def model(fn):
    fn._pyvc_model = True
    return fn


class MaybeUndef:
    """template entry for a variable that is not yet bound before the first iteration
    (bound by the body before it is read).  Skipped at the init check; at havoc the value
    is installed (for k = 0 it is an unconstrained ghost value)."""

    def __init__(self, val, defined=None):
        self.val, self.defined = val, defined


class Custom:
    """template entry with its own goal-position equality: eq(ip, have, val) -> z3 Bool"""

    def __init__(self, val, eq):
        self.val, self.eq = val, eq


class LoopInv:
    """Inductive invariant in *template* form: template(ip, frame, k) returns a dict
    lvalue -> value describing the state of every variable/field the loop modifies at the
    top of iteration k (k = number of completed iterations).  lvalues are dotted paths
    rooted at a local variable name ('states', 'self._dynamics._times').  Extra facts may
    be assumed inside template via ip.assume (definitional axioms only)."""

    def __init__(self, template, name='loop', frame_unchanged=()):
        self.template = template
        self.name = name
        self.frame_unchanged = frame_unchanged

    # -- lvalue access (template names -> names in the code: see _infer_renames)
    def _code_path(self, path):
        parts = path.split('.')
        parts[0] = getattr(self, 'rename', {}).get(parts[0], parts[0])
        return '.'.join(parts)

    def _get(self, ip, frame, path):
        parts = self._code_path(path).split('.')
        v = ip.lookup_name(parts[0], frame)
        for p in parts[1:]:
            if isinstance(v, Obj):
                v = v.fields[p]
            elif isinstance(v, dict):
                v = v[p]
            else:
                raise Unsupported('invariant path %s' % path)
        return v

    def _set(self, ip, frame, path, val):
        parts = self._code_path(path).split('.')
        if len(parts) == 1:
            f = frame
            while f is not None and parts[0] not in f.vars:
                f = f.parent
            (f or frame).vars[parts[0]] = val
            return
        v = ip.lookup_name(parts[0], frame)
        for p in parts[1:-1]:
            v = v.fields[p] if isinstance(v, Obj) else v[p]
        if isinstance(v, Obj):
            v.fields[parts[-1]] = val
        else:
            v[parts[-1]] = val

    def _check(self, ip, frame, k, phase):
        tmpl = self.template(ip, frame, k)
        for n, fact in enumerate(tmpl.pop('@facts', [])):
            ip.prove('%s/%s/fact%d' % (self.name, phase, n), fact)
        for path, want in tmpl.items():
            if isinstance(want, MaybeUndef):
                if phase == 'init':
                    continue
                want = want.val
            if isinstance(want, Custom):
                have = self._get(ip, frame, path)
                ip.prove('%s/%s/%s' % (self.name, phase, path), want.eq(ip, have, want.val))
                continue
            try:
                have = self._get(ip, frame, path)
            except (KeyError, Unsupported):
                if phase == 'init' and want is None:
                    continue
                # the template does not fit the code any more (a local it names does not exist): that is a statement
                # about my annotation, not about the property -> undecided, never a violation
                raise Unsupported('invariant template of loop %s names `%s`, which the code does not define here' % (self.name, path))
            ip.prove('%s/%s/%s' % (self.name, phase, path), eq_goal(have, want))

    def _havoc(self, ip, frame, k, assigned):
        tmpl = self.template(ip, frame, k)
        for fact in tmpl.pop('@facts', []):
            ip.add_pc(fact)
        if not ip.feasible():
            raise Infeasible()
        guard = LoopGuard(ip, frame, [self._code_path(p) for p in tmpl.keys()], self.name)
        for path, val in tmpl.items():
            if isinstance(val, MaybeUndef):
                val = val.val
            if isinstance(val, Custom):
                val = val.val
            c = _clone(val)
            self._set(ip, frame, path, c)
            guard.note_installed(c)
        ip.loop_guards.append(guard)
        self._guard = guard
        roots = {self._code_path(p).split('.')[0] for p in tmpl}
        for name in assigned:
            if name not in roots:
                frame.vars[name] = Opaque('assigned in loop %s but not described by its invariant' % self.name)

    def _infer_renames(self, ip, frame, assigned, loop_targets=()):
        """A template names the loop-carried locals.  When a name of the template does not occur in the function any more (a
        local was renamed), look for the unique assignment of the orphaned template names to the loop-carried locals the
        template does not mention such that every defined one has the template's value at loop entry.  The invariant is then
        CHECKED (init, preserve, frame) under that assignment, so a wrong guess can only fail, never prove anything false."""
        import itertools
        self.rename = {}
        try:
            tmpl = self.template(ip, frame, z3.IntVal(0))
        except Exception:
            return
        tmpl.pop('@facts', None)
        func_names = {n.id for n in ast.walk(frame.func) if isinstance(n, ast.Name)} if frame.func is not None else set()
        roots = []
        for p in tmpl:
            r = p.split('.')[0]
            if r not in roots:
                roots.append(r)
        orphans = [r for r in roots if r not in func_names and r != 'self']
        if not orphans:
            return
        def defined(name):
            try:
                return True, ip.lookup_name(name, frame)
            except Exception:
                return False, None
        need_def = [o for o in orphans if not isinstance(tmpl.get(o), MaybeUndef) and tmpl.get(o) is not None]
        free = sorted(n for n in (set(assigned) | _mutated_names(self._body)) if n not in roots and n not in loop_targets)
        # loop-carried locals are defined at loop entry (unless the template says MaybeUndef)
        free_def = [n for n in free if defined(n)[0]]
        if len(need_def) == len(orphans):
            free = free_def
        if len(free) < len(orphans) or len(free) > 6:
            return
        good = []
        for perm in itertools.permutations(free, len(orphans)):
            ok = True
            for o, c in zip(orphans, perm):
                want = tmpl.get(o)
                isdef, have = defined(c)
                if isinstance(want, MaybeUndef) or want is None:
                    continue
                if isinstance(want, Custom):
                    continue
                if not isdef:
                    ok = False
                    break
                try:
                    g = to_z3(eq_goal(have, want))
                    if ip.feasible(z3.Not(g)):
                        ok = False
                        break
                except Exception:
                    ok = False
                    break
            if ok:
                good.append(dict(zip(orphans, perm)))
        if len(good) == 1:
            self.rename = good[0]
            ip.flags.add('INVARIANT_NAMES_REMAPPED')

    def run_for(self, ip, st, frame, seq):
        n = seq.length
        ip.ghost.setdefault('loop_len', {})[self.name] = n
        assigned = _assigned_names(st.body) | _target_names(st.target)
        self._body = st.body
        self._infer_renames(ip, frame, assigned, _target_names(st.target))
        self._check(ip, frame, z3.IntVal(0), 'init')
        if ip.decide(fresh_bool(self.name + '-exit'), 'loop-exit'):
            self._havoc(ip, frame, n, assigned)
            self._drop_guard(ip)
            if ip.decide(n > 0, 'loop-nonempty'):
                ip.assign(st.target, seq.fn(n - 1), frame)
            ip.exec_block(st.orelse, frame)
            return
        k = fresh_int(self.name + '_k')
        ip.add_pc(z3.And(k >= 0, k < n))
        ip.ghost.setdefault('loop_k', {})[self.name] = k
        self._havoc(ip, frame, k, assigned)
        ip.assign(st.target, seq.fn(k), frame)
        try:
            ip.exec_block(st.body, frame)
        except ContinueSignal:
            pass
        except BreakSignal:
            self._drop_guard(ip)
            return
        except BaseException:
            self._drop_guard(ip)
            raise
        self._end_body(ip, frame)
        self._check(ip, frame, k + 1, 'preserve')
        raise PathEnd()

    def _drop_guard(self, ip):
        if ip.loop_guards and ip.loop_guards[-1] is getattr(self, '_guard', None):
            ip.loop_guards.pop()

    def _end_body(self, ip, frame):
        g = ip.loop_guards.pop()
        described = set()
        for path in g.paths:
            parts = path.split('.')
            if len(parts) > 1:
                try:
                    o = ip.lookup_name(parts[0], frame)
                    for p_ in parts[1:-1]:
                        o = o.fields[p_]
                    described.add((id(o), parts[-1]))
                except Exception:
                    pass
        for obj, attr, old, new in g.field_writes:
            if (id(obj), attr) in described:
                continue
            if old is None and new is None:
                continue
            try:
                same = veq(old, new)
            except Unsupported:
                same = z3.BoolVal(old is new)
            ip.prove('%s/frame/%s.%s-unchanged' % (self.name, obj.cls_name(), attr), same)

    def run_while(self, ip, st, frame):
        assigned = _assigned_names(st.body)
        self._body = st.body
        self._infer_renames(ip, frame, assigned)
        self._check(ip, frame, z3.IntVal(0), 'init')
        k = fresh_int(self.name + '_k')
        ip.add_pc(k >= 0)
        ip.ghost.setdefault('loop_k', {})[self.name] = k
        self._havoc(ip, frame, k, assigned)
        try:
            c = ip.eval(st.test, frame)
            taken = ip.branch(c, 'while-cond')
        except BaseException:
            self._drop_guard(ip)
            raise
        if not taken:
            self._drop_guard(ip)
            ip.exec_block(st.orelse, frame)
            return
        try:
            ip.exec_block(st.body, frame)
        except ContinueSignal:
            pass
        except BreakSignal:
            self._drop_guard(ip)
            return
        except BaseException:
            self._drop_guard(ip)
            raise
        self._end_body(ip, frame)
        self._check(ip, frame, k + 1, 'preserve')
        raise PathEnd()


def _reachable_containers(ip, frame):
    """ids of all mutable containers / objects reachable from the frame chain."""
    seen = {}
    stack = []
    f = frame
    while f is not None:
        stack.extend(f.vars.values())
        f = f.parent
    while stack:
        v = stack.pop()
        if isinstance(v, (list, dict, Seq, SymMap, Obj)):
            if id(v) in seen:
                continue
            seen[id(v)] = v
            if isinstance(v, list):
                stack.extend(v)
            elif isinstance(v, dict):
                stack.extend(v.values())
            elif isinstance(v, Obj):
                stack.extend(v.fields.values())
        elif isinstance(v, tuple):
            stack.extend(v)
        elif isinstance(v, (Closure,)):
            pass
    return seen


class LoopGuard:
    """soundness guard for the template form of invariants: everything the body mutates
    must be described by the template (installed by havoc) or be created inside the body."""

    def __init__(self, ip, frame, tmpl_paths, name):
        self.pre = _reachable_containers(ip, frame)
        self.installed = set()
        self.paths = tmpl_paths
        self.name = name
        self.field_writes = []

    def note_installed(self, v):
        if isinstance(v, (list, dict, Seq, SymMap)):
            self.installed.add(id(v))

    def mutated(self, container):
        if id(container) in self.pre and id(container) not in self.installed:
            raise Unsupported('loop %s mutates a container that its invariant does not describe' % self.name)

    def field_written(self, obj, attr, old, new):
        if id(obj) in self.pre:
            self.field_writes.append((obj, attr, old, new))


def _clone(v):
    if hasattr(v, 'pv_clone'):
        return v.pv_clone()
    if isinstance(v, Seq):
        return v.copy()
    if isinstance(v, SymMap):
        return v.copy()
    if isinstance(v, list):
        return list(v)
    return v


def eq_goal(have, want):
    if callable(want) and not isinstance(want, (Seq, Obj)) and getattr(want, '_goal', False):
        return to_z3(want(have))
    return veq(have, want)


def goal(fn):
    """mark a python predicate value->Bool to be used instead of equality in a template."""
    fn._goal = True
    return fn


def _assigned_names(stmts):
    names = set()
    for st in stmts:
        for n in ast.walk(st):
            if isinstance(n, ast.Name) and isinstance(n.ctx, ast.Store):
                names.add(n.id)
    return names


def _mutated_names(stmts):
    """local names whose object the statements mutate in place: x.append(..) / x.extend / x.insert / x[...] = .. / x.attr = .."""
    names = set()
    for st in stmts:
        for n in ast.walk(st):
            if isinstance(n, ast.Call) and isinstance(n.func, ast.Attribute) and isinstance(n.func.value, ast.Name) and \
                    n.func.attr in ('append', 'extend', 'insert', 'pop', 'update', 'add', 'remove', 'clear', 'sort', 'reverse'):
                names.add(n.func.value.id)
            if isinstance(n, (ast.Subscript, ast.Attribute)) and isinstance(n.ctx, ast.Store) and isinstance(n.value, ast.Name):
                names.add(n.value.id)
    return names


def _target_names(t):
    return {n.id for n in ast.walk(t) if isinstance(n, ast.Name)}


# abstract records used by the contracts (Obj('<name>', ...)) and the real classes whose methods they stand for: a contract written
# for `<name>.<method>` sees the call in positional AND keyword form, whatever style the code under contract uses (see
# Interp.positional_form), by reading the parameter names of the real method
ABSTRACT_CLASSES = {
    'NA': ['backends.node_array.NodeArray'],
    'TMps': ['backends.pt_tebd_backend.PtTebdBackend'],
    'BathM': ['bath.Bath'],
    'DynM': ['dynamics.Dynamics'], 'DynRec': ['dynamics.Dynamics'], 'MFDyn': ['dynamics.MeanFieldDynamics'],
    'AMps': ['mps_mpo.AugmentedMPS'], 'TebdProp': ['mps_mpo.TebdPropagator'],
    'MFS': ['system.MeanFieldSystem'], 'Control': ['control.Control'], 'ChainCtl': ['control.ChainControl'],
    'ParamsM': ['tempo.TempoParameters'], 'Prog': ['util.ProgressBar'], 'Progress': ['util.ProgressBar'],
    'BTB': ['backends.tempo_backend.BaseTempoBackend'], 'TempoBackend': ['backends.tempo_backend.TempoBackend'],
    'MFBackend': ['backends.tempo_backend.MeanFieldTempoBackend'], 'MFB': ['backends.tempo_backend.MeanFieldTempoBackend'],
    'TIBackend': ['backends.tempo_backend.TIBaseBackend'], 'PtBackend': ['backends.pt_tempo_backend.PtTempoBackend'],
    'Corr': ['bath_correlations.CustomSD', 'bath_correlations.BaseCorrelations'], 'CorrM': ['bath_correlations.CustomSD', 'bath_correlations.BaseCorrelations'],
}
for _n in ('PTm', 'PT', 'PTi', 'PTM', 'PTObj', 'PTrec', 'PTsite'):
    ABSTRACT_CLASSES[_n] = ['process_tensor.SimpleProcessTensor', 'process_tensor.FileProcessTensor', 'process_tensor.BaseProcessTensor']
for _n in ('SysM', 'Sys', 'System', 'SystemF', 'PSys', 'PSystem', 'TDS'):
    ABSTRACT_CLASSES[_n] = ['system.System', 'system.TimeDependentSystem', 'system.TimeDependentSystemWithField', 'system.ParameterizedSystem',
                            'system.BaseSystem']


class ModelTable(dict):
    """callee contracts by qualified name; `patterns` = [(compiled regex, model)] answer for names that have no exact entry (a helper
    that was moved or given a leading underscore keeps its contract)"""

    def __init__(self, *a, **k):
        super().__init__(*a, **k)
        self.patterns = []

    def get(self, key, default=None):
        if dict.__contains__(self, key):
            return dict.__getitem__(self, key)
        if isinstance(key, str):
            for rx, m in self.patterns:
                if rx.search(key):
                    return m
        return default

    def copy(self):
        t = ModelTable(self)
        t.patterns = list(self.patterns)
        return t


class Registry:
    def __init__(self):
        self.models = ModelTable()
        self.model_properties = set()
        self.model_bases = {}
        self.lib_models = {}
        self.inline_now = set()
        self.invariants = {}
        self.matmul = None
        self.stmt_hook = None
        self.call_hook = None
        self.opaque_attr = None
        self.np_array_opaque = None
        self.opaque_getitem = None
        self.overrides = {}

    def global_override(self, module_short, name):
        return self.overrides.get((module_short, name))

    def loop_invariant(self, frame, st):
        if frame.func is None:
            return None
        loops = [n for n in ast.walk(frame.func) if isinstance(n, (ast.For, ast.While))]
        loops.sort(key=lambda n: (n.lineno, n.col_offset))
        try:
            ordinal = loops.index(st)
        except ValueError:
            return None
        # keys (qualname, 'over:<text>') select the loop by (a fragment of) what it iterates over / tests, whatever its position among
        # the loops of the function; (qualname, ordinal) keys are the fallback
        try:
            head = ast.unparse(st.iter if isinstance(st, ast.For) else st.test).replace(' ', '')
        except Exception:
            head = ''
        for (q, sel), inv in self.invariants.items():
            if q == frame.qualname and isinstance(sel, str) and sel.startswith('over:') and sel[5:].replace(' ', '') in head:
                return inv
        return self.invariants.get((frame.qualname, ordinal))

    def copy(self):
        r = Registry()
        r.__dict__.update({k: (v.copy() if isinstance(v, (dict, set)) else v) for k, v in self.__dict__.items()})
        return r


class Target:
    """one function under contract + one scenario (case split of its inputs)."""

    def __init__(self, name, qualname, scenario, post, registry, prop, nested=None,
                 replay=None, clause=None, max_paths=400, describe_extra=None, invoke=None):
        self.name, self.qualname, self.scenario, self.post = name, qualname, scenario, post
        self.registry, self.prop, self.nested, self.replay = registry, prop, nested, replay
        self.clause = clause
        self.max_paths = max_paths
        self.invoke = invoke


class Outcome:
    def __init__(self, kind, value=None):
        self.kind, self.value = kind, value     # 'return' | 'raise'

    @property
    def returned(self):
        return self.kind == 'return'

    def raised(self, typ=None):
        from .interp import exc_isinstance
        return self.kind == 'raise' and (typ is None or exc_isinstance(self.value.typ, typ))

    def __repr__(self):
        return 'Outcome(%s, %r)' % (self.kind, self.value)


QUICK_TIMEOUT_MS = 30000      # wall-clock per obligation; obligations normally take milliseconds, the slowest ~5 s on an idle machine


def run_target(target, repo=None, timeout_ms=QUICK_TIMEOUT_MS, tier='quick'):
    """explore all paths of one target, discharge its obligations.  Returns a JSON-able dict."""
    t0 = time.time()
    repo = repo or Repo()
    res = {'target': target.name, 'function': target.qualname, 'property': target.prop,
           'paths': 0, 'obligations': [], 'undecided': [], 'errors': [], 'flags': set(),
           'lib_pure': set(), 'lib_used': set(), 'dead_paths': 0, 'clause': target.clause}
    fref = repo.resolve(target.qualname)
    if fref is None:
        res['undecided'].append('contract target missing: %s' % target.qualname)
        return _finish(res, t0)
    res['function_info'] = describe(fref) if isinstance(fref, FuncRef) else {'name': target.qualname}
    reg = target.registry.copy()
    reg.inline_now = set(reg.inline_now) | {target.qualname}
    work = [[]]
    seen = 0
    # budget in CPU seconds of this worker (not wall-clock): the verdict does not depend on how busy the machine is
    budget_s = getattr(target, 'time_budget_s', None) or (900 if tier == 'quick' else 3600)
    cpu0 = time.process_time()
    while work:
        prefix = work.pop()
        seen += 1
        if time.process_time() - cpu0 > budget_s:
            res['undecided'].append('time budget of the target exceeded (%ds CPU)' % budget_s)
            break
        if seen > target.max_paths:
            res['undecided'].append('path budget exceeded (%d)' % target.max_paths)
            break
        Vv.reset_fresh()
        ip = Interp(repo, reg, prefix, solver_timeout_ms=timeout_ms)
        ip.target = target
        ip.deadline = cpu0 + budget_s          # (compared with time.process_time() in the interpreter)
        ctx = {}
        try:
            ctx = target.scenario(ip, repo)
            ip.target_kwargs = ctx.get('kwargs', {})
            if not ip.feasible():
                res['errors'].append('scenario precondition is unsatisfiable')
                continue
            outcome = None
            try:
                if target.invoke is not None:
                    val = target.invoke(ip, repo, fref, ctx)
                else:
                    val = ip.call(fref, ctx.get('args', []), ctx.get('kwargs', {}))
                outcome = Outcome('return', val)
            except PyRaise as pr:
                outcome = Outcome('raise', pr.exc)
            target.post(ip, ctx, outcome)
            res['paths'] += 1
        except PathEnd:
            res['paths'] += 1
            if getattr(target, 'path_end', None) is not None:
                # a path that stops inside the function (end of an invariant-checked loop body)
                target.path_end(ip, ctx)
        except Infeasible:
            res['dead_paths'] += 1
        except Unsupported as u:
            res['undecided'].append('unsupported construct: %s' % u)
        except RecursionError:
            res['undecided'].append('recursion limit in interpreter')
        if getattr(target, 'keep', None) is not None:
            ip.obligations[:] = [ob for ob in ip.obligations if target.keep(ob['name'])]
        work.extend(ip.new_forks)
        res['flags'] |= ip.flags
        res['lib_pure'] |= ip.lib_pure
        res['lib_used'] |= ip.lib_used
        for ob in ip.obligations:
            d = discharge(ob, timeout_ms, target, ctx)
            prem = getattr(target, 'premise', None)
            if prem is not None and d.get('result') == 'refuted' and prem(d['name']):
                # an obligation that is a PREMISE of this property's argument (a contract owned by another property): when it
                # fails, this property is not decided by the argument any more -- undecided here, a violation where it is owned
                d['result'] = 'unknown'
                d.setdefault('info', {})
                d['premise_refuted'] = True
                msg = 'premise `%s` (owned by %s) does not hold for the code: this property is not decided by its contract' % (d['name'], getattr(target, 'premise_owner', 'another property'))
                if msg not in res['undecided']:
                    res['undecided'].append(msg)
            res['obligations'].append(d)
    return _finish(res, t0)


def _finish(res, t0):
    res['flags'] = sorted(res['flags'])
    res['lib_pure'] = sorted(res['lib_pure'])
    res['lib_used'] = sorted(res['lib_used'])
    res['seconds'] = round(time.time() - t0, 3)
    return res


def discharge(ob, timeout_ms, target, ctx):
    t0 = time.time()
    s = z3.Solver()
    s.set('timeout', timeout_ms)
    for c in ob['pc']:
        s.add(c)
    out = {'name': ob['name'], 'backend': 'z3', 'flags': sorted(ob['flags']), 'info': ob['info']}
    # vacuity guard: the path condition itself must be satisfiable
    s.set('timeout', 1500)
    r0 = s.check()
    out['pc_sat'] = str(r0)
    s.add(z3.Not(ob['goal']))
    # nonlinear obligations: first the EUF abstraction (its `unsat` is a proof), then a short z3
    # attempt, explicit model search, cvc5 on the dumped SMT-LIB, z3 with the full budget
    r = z3.unknown
    ra = _euf_abstraction(s, timeout_ms)
    if ra is not None:
        r, how = ra
        out['backend'] = how
        if r == z3.sat:
            out['_model_obj'] = _euf_abstraction.last_model
    if r == z3.unknown:
        s.set('timeout', max(1000, int(timeout_ms * 0.3)))
        r = s.check()
    if r == z3.unknown or r == 'unknown':
        for variant in range(3):
            g = _ground_search(list(s.assertions()), variant=variant)
            if g is not None:
                r = 'sat'
                out['backend'] = 'explicit model search (every assertion evaluates to True under the assignment)'
                out['_explicit'] = g
                break
    if r == z3.unknown or r == 'unknown':
        # counter-model SEARCH under simplifying extra constraints (e.g. dt = 1): a model found
        # this way is still a genuine counterexample of the original obligation; nothing is
        # ever reported as proved on the strength of these constraints.
        for hint in _search_hints(s):
            sh = z3.Solver()            # a fresh solver: one that timed out may stay 'canceled'
            sh.set('timeout', max(2000, timeout_ms // 2))
            for a in s.assertions():
                sh.add(a)
            if isinstance(hint, list):
                # greedy pinning: keep each equation unless it contradicts what is already fixed
                sh.set('timeout', 700)
                kept = []
                for eqn in hint:
                    sh.push()
                    sh.add(eqn)
                    if sh.check() == z3.unsat:
                        sh.pop()
                    else:
                        kept.append(eqn)
                hint = z3.And(kept) if kept else z3.BoolVal(True)
                sh.set('timeout', max(2000, timeout_ms // 2))
            else:
                sh.add(hint)
            rr = sh.check()
            if rr == z3.sat:
                r = z3.sat
                out['backend'] = 'z3 (counter-model search with %s)' % str(hint).replace('\n', ' ')[:160]
                out['_model_obj'] = sh.model()
                break
    if r == z3.unknown:
        r2 = _cvc5(s, timeout_ms)
        if r2 is not None:
            out['backend'] = 'cvc5'
            r = r2
        else:
            s.set('timeout', timeout_ms)
            r = s.check()
    if r == z3.unknown:
        # z3 may answer unknown ("incomplete (theory array)") although it holds a genuine
        # counter-model; validate the candidate model against every assertion.
        try:
            m = s.model()
            if all(z3.is_true(m.eval(a, model_completion=True)) for a in s.assertions()):
                r = z3.sat
                out['backend'] = 'z3 (candidate model validated)'
        except Exception:
            pass
    if r == z3.unknown:
        r3 = _z3_cli(s, timeout_ms)
        if r3 is not None:
            out['backend'] = 'z3-4.8.12-cli'
            r = r3
    if os.environ.get('PYVC_TIER') == 'thorough' and (r == z3.unsat or r == 'unsat') and 'cvc5' not in out['backend']:
        # thorough tier: an independent solver re-checks every proof found by z3
        rc = _cvc5(s, 20000)
        out['cross_check'] = {'solver': 'cvc5 1.0.3', 'result': rc or 'unknown'}
        if rc == 'sat':
            r = 'disagree'
    if r == 'disagree':
        out['result'] = 'unknown'
        out['reason'] = 'solvers disagree: %s says unsat, cvc5 says sat' % out['backend']
    elif r == z3.unsat or r == 'unsat':
        out['result'] = 'discharged'
    elif r == z3.sat:
        out['result'] = 'refuted'
        m = out.pop('_model_obj', None) or s.model()
        out['model'] = _model_inputs(m, ctx)
        out['model_full'] = {str(d): str(m[d]) for d in m.decls()[:40]}
    elif r == 'sat':
        out['result'] = 'refuted'
        g = out.pop('_explicit', None)
        out['model'] = None
        if g is not None:
            out['model_full'] = dict(list(g.items())[:60])
            out['model'] = {k: g.get(str(v)) if is_z3(v) else (v if isinstance(v, (str, int, bool)) or v is None else str(v))
                            for k, v in (ctx.get('inputs') or {}).items()}
    else:
        out['result'] = 'unknown'
        out['reason'] = s.reason_unknown() if r == z3.unknown else str(r)
    out['seconds'] = round(time.time() - t0, 3)
    return out


def _abstract_nl(e, cache):
    """replace products of two non-numeral reals, divisions by non-numerals and powers by
    applications of uninterpreted functions (products with sorted arguments)"""
    k = e.get_id()
    if k in cache:
        return cache[k]
    if z3.is_quantifier(e) or not z3.is_app(e):
        cache[k] = e
        return e
    ch = [_abstract_nl(c, cache) for c in e.children()]
    kind = e.decl().kind()
    R = z3.RealSort()
    res = None
    if kind == z3.Z3_OP_MUL and (z3.is_real(e) or z3.is_int(e)):
        nums = [c for c in ch if z3.is_rational_value(c) or z3.is_int_value(c)]
        rest = [c for c in ch if not (z3.is_rational_value(c) or z3.is_int_value(c))]
        if len(rest) >= 2:
            rest = sorted(rest, key=lambda c: c.get_id())
            srt = e.sort()
            f = z3.Function('nl_mul_%s' % srt, srt, srt, srt)
            acc = rest[0]
            for c in rest[1:]:
                acc = f(acc, c)
            for c in nums:
                acc = c * acc
            res = acc
    elif kind in (z3.Z3_OP_DIV, z3.Z3_OP_IDIV) and not (z3.is_rational_value(ch[1]) or z3.is_int_value(ch[1])):
        srt = e.sort()
        res = z3.Function('nl_div_%s' % srt, srt, srt, srt)(ch[0], ch[1])
    elif kind == z3.Z3_OP_POWER:
        srt = e.sort()
        res = z3.Function('nl_pow_%s' % srt, ch[0].sort(), ch[1].sort(), srt)(ch[0], ch[1])
    if res is None:
        res = e.decl()(*ch) if ch else e
    cache[k] = res
    return res


def _euf_abstraction(solver, timeout_ms):
    """nonlinear real arithmetic abstracted to uninterpreted functions (EUF + linear arithmetic):
    `unsat` of the abstraction is a proof of the original (every real model is a model of the
    abstraction); a `sat` model is only used when it VALIDATES against the original assertions."""
    try:
        cache = {}
        orig = list(solver.assertions())
        abst = [_abstract_nl(a, cache) for a in orig]
        if all(a.get_id() == b.get_id() for a, b in zip(orig, abst)):
            return None
        s2 = z3.Solver()
        s2.set('timeout', max(2000, timeout_ms // 2))
        for a in abst:
            s2.add(a)
        r = s2.check()
        if r == z3.unsat:
            return z3.unsat, 'z3 (nonlinear terms abstracted to uninterpreted functions: unsat)'
        if r == z3.sat:
            m = s2.model()
            if all(z3.is_true(m.eval(a, model_completion=True)) for a in orig):
                _euf_abstraction.last_model = m
                return z3.sat, 'z3 (counter-model found in the EUF abstraction, validated against the original obligation)'
    except Exception:
        pass
    return None


_euf_abstraction.last_model = None


def _ground_search(assertions, budget_s=20.0, variant=0):
    """explicit counter-model search for quantifier-free formulas over reals + uninterpreted
    functions: real constants and then (innermost first) uninterpreted applications with numeral
    arguments are replaced by concrete rationals; a choice is withdrawn when an assertion
    simplifies to False.  Success = every assertion simplifies to True, i.e. the assignment IS a
    model (free functions may be interpreted at will), checked by evaluation, not by a solver."""
    t0 = time.time()
    A = [z3.simplify(a) for a in assertions]
    for a in A:
        st, seen = [a], set()
        while st:
            e = st.pop()
            if e.get_id() in seen:
                continue
            seen.add(e.get_id())
            if z3.is_quantifier(e) or (z3.is_app(e) and e.decl().kind() in (z3.Z3_OP_SELECT, z3.Z3_OP_STORE)):
                return None
            st.extend(e.children())
    assign = {}
    counter = [variant * 5]

    def is_num(e):
        return z3.is_rational_value(e) or z3.is_int_value(e) or z3.is_true(e) or z3.is_false(e) or z3.is_algebraic_value(e)

    def candidates(e):
        counter[0] += 1
        k = counter[0]
        if z3.is_bool(e):
            return [z3.BoolVal(True), z3.BoolVal(False)]
        if z3.is_int(e):
            return [z3.IntVal(v) for v in (k % 5 + 1, 0, 1, 2, -1, k + 3)]
        if z3.is_real(e):
            base = z3.RealVal(2 * k + 3) / 7
            return [z3.simplify(v) for v in (base, z3.RealVal(7) / (2 * k + 3), -base, z3.RealVal(0), z3.RealVal(1), base + 40)]
        return None

    def pick(A):
        """next term to fix: a real/int/bool constant, else an uninterpreted application whose arguments are all numerals"""
        best = None
        seen = set()
        st = list(A)
        while st:
            e = st.pop()
            if e.get_id() in seen:
                continue
            seen.add(e.get_id())
            if z3.is_app(e) and e.decl().kind() == z3.Z3_OP_UNINTERPRETED and (z3.is_real(e) or z3.is_int(e) or z3.is_bool(e)):
                if e.num_args() == 0:
                    return e
                if best is None and all(is_num(c) for c in e.children()):
                    best = e
            st.extend(e.children())
        return best

    while True:
        if time.time() - t0 > budget_s:
            return None
        if any(z3.is_false(a) for a in A):
            return None
        if all(z3.is_true(a) for a in A):
            return assign
        e = pick(A)
        if e is None:
            # nothing numeric left to fix: the residual (terms over opaque sorts) goes to the solver
            sr = z3.Solver()
            sr.set('timeout', 3000)
            for a in A:
                sr.add(a)
            if sr.check() == z3.sat:
                assign['<residual over opaque sorts>'] = 'sat (z3)'
                return assign
            return None
        cands = candidates(e)
        if cands is None:
            return None
        done = False
        for v in cands:
            B = [z3.simplify(z3.substitute(a, (e, v))) for a in A]
            if not any(z3.is_false(b) for b in B):
                A, done = B, True
                assign[str(e)] = str(v)
                break
        if not done:
            return None


def _model_inputs(m, ctx):
    out = {}
    for k, v in (ctx.get('inputs') or {}).items():
        try:
            out[k] = _val(m, v)
        except Exception as e:          # pragma: no cover
            out[k] = '<%s>' % e
    return out


def _val(m, v):
    if isinstance(v, (list, tuple)):
        return [_val(m, x) for x in v]
    if isinstance(v, Seq):
        n = m.eval(v.length, model_completion=True)
        nn = n.as_long() if z3.is_int_value(n) else 0
        return [_val(m, v.fn(z3.IntVal(k))) for k in range(min(nn, 12))]
    if v is None or isinstance(v, (str, int, bool)):
        return v
    if is_z3(v):
        e = m.eval(v, model_completion=True)
        if z3.is_int_value(e):
            return e.as_long()
        if z3.is_rational_value(e):
            return {'num': e.numerator_as_long(), 'den': e.denominator_as_long()}
        if z3.is_true(e):
            return True
        if z3.is_false(e):
            return False
        return str(e)
    return str(v)


def _search_hints(solver):
    """simplifying constraints tried when a query stays `unknown`: fix time-step-like reals"""
    names = {}
    for a in solver.assertions():
        stack = [a]
        seen = set()
        while stack:
            e = stack.pop()
            if e.get_id() in seen:
                continue
            seen.add(e.get_id())
            if z3.is_const(e) and e.decl().kind() == z3.Z3_OP_UNINTERPRETED and z3.is_real(e):
                names[str(e)] = e
            stack.extend(e.children())
    dts = [v for k, v in names.items() if k.startswith('dt') or k in ('delta', 'D')]
    hints = []
    if dts:
        hints.append(z3.And([v == 1 for v in dts]))
        hints.append(z3.And([v == z3.RealVal('1/4') for v in dts]))
    if names and len(names) <= 24:
        # ground instances: every real constant pinned to a small number (changed copies to another one)
        ks = sorted(names)
        second = lambda k: k.endswith('_changed') or k.endswith('_first')
        hints.append([names[k] == (2 if second(k) else 1) for k in ks])
        hints.append([names[k] == i + 1 for i, k in enumerate(ks)])
        hints.append([names[k] == z3.RealVal(i + 2) / 2 for i, k in enumerate(reversed(ks))])
    return hints


def _z3_cli(solver, timeout_ms):
    """independent older z3 (4.8.12 CLI) on the dumped SMT-LIB"""
    try:
        with tempfile.NamedTemporaryFile('w', suffix='.smt2', delete=False) as f:
            f.write(solver.to_smt2())
            path = f.name
        try:
            p = subprocess.run(['/usr/bin/z3', '-T:%d' % max(1, timeout_ms // 1000), path],
                               capture_output=True, text=True, timeout=timeout_ms / 1000 + 5)
            out = p.stdout.strip().split('\n')[0] if p.stdout else ''
        finally:
            os.unlink(path)
        if out in ('sat', 'unsat'):
            return out
    except Exception:
        pass
    return None


def _cvc5(solver, timeout_ms):
    try:
        smt = '(set-logic ALL)\n' + solver.to_smt2()
        with tempfile.NamedTemporaryFile('w', suffix='.smt2', delete=False, dir=os.environ.get('PYVC_TMP', None)) as f:
            f.write(smt)
            path = f.name
        try:
            p = subprocess.run(['/usr/bin/cvc5', '--tlimit=%d' % timeout_ms, path],
                               capture_output=True, text=True, timeout=timeout_ms / 1000 + 5)
            out = p.stdout.strip().split('\n')[0] if p.stdout else ''
        finally:
            os.unlink(path)
        if out == 'unsat':
            return 'unsat'
        if out == 'sat':
            return 'sat'
    except Exception:
        pass
    return None
