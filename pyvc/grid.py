"""grid — dense arrays with ELEMENT stores (the scatter loops of the degeneracy-reduced tensors, C06).

A GridArr of rank r is a function from r integer indices to element values (z3 terms of the value sort V), kept as a python closure
plus a list of later element stores; chained indexing `a[i][j][k]` goes through GridView objects (numpy views: a store through a
view writes the base array).  Only full-index element reads and writes are modelled; anything else is Unsupported (undecided).
Equality of two grids (goal position) is element equality at fresh indices, so every obligation stays quantifier free.
"""
import z3
from .values import Unsupported, V, fresh_int, to_int, is_z3, ite

ZERO = z3.Const('zero_element', V)


def _is_index(i):
    return isinstance(i, int) and not isinstance(i, bool) or (is_z3(i) and z3.is_int(i))


def _is_add(t):
    return z3.is_app(t) and t.num_args() == 2 and t.decl().name().split('/')[0] == 'add' and t.sort() == V


def zero_fold(t, depth=0):
    """ZERO is the additive identity of element addition: add(ZERO, x) = add(x, ZERO) = x, pushed through if-then-else (so that
    `arr[i] += x` on an element that is still zero is the same store as `arr[i] = x`)"""
    if not is_z3(t) or depth > 40:
        return t
    if z3.is_app(t) and t.decl().kind() == z3.Z3_OP_ITE and t.sort() == V:
        return z3.If(t.arg(0), zero_fold(t.arg(1), depth + 1), zero_fold(t.arg(2), depth + 1))
    if _is_add(t):
        x, y = zero_fold(t.arg(0), depth + 1), zero_fold(t.arg(1), depth + 1)
        if z3.eq(x, ZERO):
            return y
        if z3.eq(y, ZERO):
            return x
        for u, w, left in ((x, y, True), (y, x, False)):
            if z3.is_app(u) and u.decl().kind() == z3.Z3_OP_ITE and (z3.eq(u.arg(1), ZERO) or z3.eq(u.arg(2), ZERO)):
                mk = (lambda e: t.decl()(e, w)) if left else (lambda e: t.decl()(w, e))
                return z3.If(u.arg(0), zero_fold(mk(u.arg(1)), depth + 1), zero_fold(mk(u.arg(2)), depth + 1))
        return t.decl()(x, y)
    return t


class GridArr:
    pv_types = ('ndarray',)

    def __init__(self, rank, fn, shape=None):
        self.rank, self.fn, self.stores, self.shape = rank, fn, [], shape

    def get(self, idx):
        idx = tuple(to_int(i) for i in idx)
        r = self.fn(idx)
        for key, val in self.stores:
            r = ite(z3.And([a == b for a, b in zip(idx, key)]), val, r)
        return r

    def set(self, idx, val):
        self.stores.append((tuple(to_int(i) for i in idx), zero_fold(val)))

    def pv_clone(self):
        g = GridArr(self.rank, self.fn, self.shape)
        g.stores = list(self.stores)
        if hasattr(self, 'dtype'):
            g.dtype = self.dtype
        return g

    def _norm(self, idx):
        idx = idx if isinstance(idx, tuple) else (idx,)
        if not all(_is_index(i) for i in idx):
            raise Unsupported('grid: index %r (only integer element indices are modelled)' % (idx,))
        if len(idx) > self.rank:
            raise Unsupported('grid: too many indices')
        return idx

    def pv_getitem(self, ip, idx):
        idx = self._norm(idx)
        return self.get(idx) if len(idx) == self.rank else GridView(self, idx)

    def pv_setitem(self, ip, idx, v):
        idx = self._norm(idx)
        if len(idx) != self.rank:
            raise Unsupported('grid: store into a sub-array')
        if not is_z3(v):
            raise Unsupported('grid: stored value %r' % (v,))
        self.set(idx, v)

    def pv_getattr(self, ip, attr):
        if attr == 'shape' and self.shape is not None:
            return tuple(self.shape)
        if attr == 'dtype' and hasattr(self, 'dtype'):
            return self.dtype
        raise Unsupported('grid: attribute %s' % attr)

    def pv_veq(self, other):
        if not isinstance(other, GridArr) or other.rank != self.rank:
            return z3.BoolVal(False)
        idx = tuple(fresh_int('gi') for _ in range(self.rank))
        return self.get(idx) == other.get(idx)

    def __repr__(self):
        return '<grid rank %d, %d store(s)>' % (self.rank, len(self.stores))


class GridView:
    def __init__(self, base, prefix):
        self.base, self.prefix = base, tuple(prefix)

    def pv_getitem(self, ip, idx):
        return self.base.pv_getitem(ip, self.prefix + self.base._norm(idx))

    def pv_setitem(self, ip, idx, v):
        return self.base.pv_setitem(ip, self.prefix + self.base._norm(idx), v)

    def __repr__(self):
        return '<view %r of %r>' % (self.prefix, self.base)


def zeros(shape):
    shape = tuple(shape) if isinstance(shape, (tuple, list)) else (shape,)
    return GridArr(len(shape), lambda idx: ZERO, shape)
