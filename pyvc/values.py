"""Value domain of the pyvc symbolic interpreter.

Concrete Python values (None, bool, int, str, tuple, list, dict) are used as they are;
symbolic scalars are z3 expressions (Int, Real, Bool, or the opaque sort V).  Python
floats are mapped to z3 Reals at once (assumption flag REAL_FLOAT) so that "float-ness"
is a sort and `isinstance(x, float)` is decidable from the sort.

Sequences with symbolic length are *lambda-represented*: a length and a Python function
from a z3 index to a value.  No quantifiers are ever generated for them; equality in goal
position is skolemised with a fresh index.
"""
import itertools
from fractions import Fraction
import z3

V = z3.DeclareSort('V')            # opaque values (tensors, objects we do not look into)
NONE = z3.Const('None_V', V)       # the image of Python's None inside V


class Unsupported(Exception):
    """Construct outside the accepted subset -> check is undecided (exit 2)."""


class Infeasible(Exception):
    """Current path condition is unsatisfiable."""


class PathEnd(Exception):
    """Engine-terminated path (e.g. after an inductive step was checked)."""


_counter = itertools.count()


def reset_fresh():
    global _counter
    _counter = itertools.count()


def fresh(prefix, sort):
    n = next(_counter)
    return z3.Const('%s!%d' % (prefix, n), sort)


def fresh_int(prefix='i'):
    return fresh(prefix, z3.IntSort())


def fresh_real(prefix='r'):
    return fresh(prefix, z3.RealSort())


def fresh_bool(prefix='b'):
    return fresh(prefix, z3.BoolSort())


def fresh_v(prefix='v'):
    return fresh(prefix, V)


# ---------------------------------------------------------------------------------
# classification helpers

def is_z3(x):
    return isinstance(x, z3.ExprRef)


def is_int(x):
    return (isinstance(x, int) and not isinstance(x, bool)) or (is_z3(x) and z3.is_int(x))


def is_real(x):
    return isinstance(x, (float, Fraction)) or (is_z3(x) and z3.is_real(x))


def is_bool(x):
    return isinstance(x, bool) or (is_z3(x) and z3.is_bool(x))


def is_v(x):
    return is_z3(x) and x.sort() == V


def is_num(x):
    return is_int(x) or is_real(x)


def real_const(x):
    """exact rational value of a Python float literal (decimal reading)."""
    if isinstance(x, Fraction):
        fr = x
    else:
        fr = Fraction(repr(float(x))) if x == x and abs(x) != float('inf') else None
    if fr is None:
        raise Unsupported('non-finite float constant')
    return z3.RealVal(str(fr.numerator)) / z3.RealVal(str(fr.denominator)) \
        if fr.denominator != 1 else z3.RealVal(str(fr.numerator))


def to_z3(x):
    """coerce a scalar to a z3 expression."""
    if is_z3(x):
        return x
    if isinstance(x, bool):
        return z3.BoolVal(x)
    if isinstance(x, int):
        return z3.IntVal(x)
    if isinstance(x, (float, Fraction)):
        return real_const(x)
    if x is None:
        return NONE
    raise Unsupported('cannot coerce %r to z3' % (x,))


def to_real(x):
    x = to_z3(x)
    if z3.is_int(x):
        return z3.ToReal(x)
    if z3.is_real(x):
        return x
    if z3.is_bool(x):
        return z3.If(x, z3.RealVal(1), z3.RealVal(0))
    raise Unsupported('not numeric: %s' % x)


def to_int(x):
    x = to_z3(x)
    if z3.is_int(x):
        return x
    if z3.is_bool(x):
        return z3.If(x, z3.IntVal(1), z3.IntVal(0))
    raise Unsupported('not an int: %s' % x)


def concrete_int(x):
    """python int if x is a concrete integer (python or z3 numeral) else None."""
    if isinstance(x, bool):
        return int(x)
    if isinstance(x, int):
        return x
    if is_z3(x) and z3.is_int_value(x):
        return x.as_long()
    if is_z3(x):
        s = z3.simplify(x)
        if z3.is_int_value(s):
            return s.as_long()
    return None


def concrete_bool(x):
    if isinstance(x, bool):
        return x
    if is_z3(x):
        s = z3.simplify(x)
        if z3.is_true(s):
            return True
        if z3.is_false(s):
            return False
    return None


# ---------------------------------------------------------------------------------
# structured values

class Cx:
    """complex number as a pair of reals."""

    def __init__(self, re, im):
        self.re = to_real(re)
        self.im = to_real(im)

    def __repr__(self):
        return 'Cx(%s, %s)' % (z3.simplify(self.re), z3.simplify(self.im))


class Seq:
    """list / 1-d ndarray / tuple with (possibly) symbolic length.
    kind: 'list' | 'ndarray' | 'tuple' (only used for isinstance and mutability)."""

    def __init__(self, length, fn, kind='list'):
        self.length = length if is_z3(length) else z3.IntVal(length)
        self.fn = fn
        self.kind = kind

    def at(self, i):
        return self.fn(to_int(i))

    def copy(self, kind=None):
        return Seq(self.length, self.fn, kind or self.kind)

    def __repr__(self):
        i = z3.Int('_i')
        try:
            body = self.fn(i)
        except Exception as e:   # pragma: no cover
            body = '<%s>' % e
        return 'Seq[%s](len=%s, _i -> %s)' % (self.kind, z3.simplify(self.length), body)

    @staticmethod
    def from_list(items, kind='list'):
        items = list(items)

        def fn(i, items=items):
            if not items:
                raise Unsupported('index into empty sequence')
            res = items[-1]
            for k in range(len(items) - 2, -1, -1):
                res = ite(i == k, items[k], res)
            return res
        return Seq(len(items), fn, kind)


class SymMap:
    """dict with symbolic keys; lambda represented (base functions + a list of later stores)."""

    def __init__(self, has=None, get=None):
        self._has0 = has or (lambda k: z3.BoolVal(False))
        self._get0 = get
        self.entries = []

    def has(self, k):
        r = self._has0(k)
        for key, _ in self.entries:
            r = z3.Or(keq(k, key), r)
        return r

    def get(self, k):
        """value stored under k (meaningful where has(k) holds)"""
        res = self._get0(k) if self._get0 is not None else None
        for key, val in self.entries:
            res = val if res is None else ite(keq(k, key), val, res)
        return res

    def set(self, key, val):
        self.entries.append((key, val))

    def copy(self):
        m = SymMap(self._has0, self._get0)
        m.entries = list(self.entries)
        return m


class SDict(dict):
    """dict created by interpreted code: concrete keys live in the dict itself, entries stored
    under a symbolic key in `sym` (a SymMap)."""
    sym = None


def is_symbolic_key(k):
    return is_z3(k) or (isinstance(k, tuple) and any(is_symbolic_key(x) for x in k))


def keq(a, b):
    if isinstance(a, tuple) or isinstance(b, tuple):
        if not (isinstance(a, tuple) and isinstance(b, tuple)) or len(a) != len(b):
            return z3.BoolVal(False)
        return z3.And([keq(x, y) for x, y in zip(a, b)] + [z3.BoolVal(True)])
    if isinstance(a, str) or isinstance(b, str):
        return z3.BoolVal(isinstance(a, str) and isinstance(b, str) and a == b)
    a, b = to_z3(a), to_z3(b)
    if a.sort() != b.sort():
        if is_num(a) and is_num(b):
            return to_real(a) == to_real(b)
        return z3.BoolVal(False)
    return a == b


class SliceVal:
    def __init__(self, start, stop, step):
        self.start, self.stop, self.step = start, stop, step

    def __repr__(self):
        return 'slice(%s,%s,%s)' % (self.start, self.stop, self.step)


class RangeVal:
    def __init__(self, start, stop, step=1):
        self.start, self.stop, self.step = start, stop, step

    def as_seq(self):
        st = concrete_int(self.step)
        if st is None or st == 0:
            raise Unsupported('range with symbolic step')
        a, b = to_int(self.start), to_int(self.stop)
        if st > 0:
            n = z3.If(b > a, (b - a + (st - 1)) / st, 0)
        else:
            n = z3.If(a > b, (a - b + (-st - 1)) / (-st), 0)
        return Seq(z3.simplify(n), lambda i: a + i * st, 'range')


class Obj:
    """instance of a repo class (or of a modelled class); fields are a dict."""
    _ids = itertools.count()

    def __init__(self, cls, fields=None, tag=None):
        self.cls = cls            # ClassRef or a plain string for modelled classes
        self.fields = fields if fields is not None else {}
        self.tag = tag

    def cls_name(self):
        return self.cls if isinstance(self.cls, str) else self.cls.name

    def __repr__(self):
        return '<Obj %s %s>' % (self.cls_name(), self.tag or '')


class ExcVal:
    def __init__(self, typ, args=(), cause=None):
        self.typ = typ        # string name of exception class
        self.args = args
        self.cause = cause

    def __repr__(self):
        return 'ExcVal(%s)' % self.typ


class PyRaise(Exception):
    """a Python exception propagating inside the interpreted program."""

    def __init__(self, exc):
        Exception.__init__(self, exc.typ)
        self.exc = exc


class NpScalar:
    """a numpy scalar (e.g. what h5py returns for an attribute): behaves like its value in
    arithmetic / truth tests / ==, but is never *identical* to True/False/None."""

    def __init__(self, val):
        self.val = val

    def __repr__(self):
        return 'NpScalar(%s)' % (self.val,)


class Opaque:
    """marker for values the interpreter refuses to look into (poison)."""

    def __init__(self, why):
        self.why = why

    def __repr__(self):
        return '<Opaque %s>' % self.why


# ---------------------------------------------------------------------------------
# if-then-else and equality over values

def ite(c, a, b):
    cb = concrete_bool(c)
    if cb is True:
        return a
    if cb is False:
        return b
    if a is b:
        return a
    if isinstance(a, (tuple, list)) and isinstance(b, (tuple, list)) and len(a) == len(b) \
            and type(a) is type(b):
        return type(a)(ite(c, x, y) for x, y in zip(a, b))
    if isinstance(a, Cx) or isinstance(b, Cx):
        a, b = to_cx(a), to_cx(b)
        return Cx(z3.If(c, a.re, b.re), z3.If(c, a.im, b.im))
    if isinstance(a, Seq) and isinstance(b, Seq):
        return Seq(z3.If(c, a.length, b.length), lambda i: ite(c, a.fn(i), b.fn(i)), a.kind)
    if isinstance(a, (Obj, SymMap, dict, str)) or isinstance(b, (Obj, SymMap, dict, str)):
        if isinstance(a, str) and isinstance(b, str) and a == b:
            return a
        raise Unsupported('ite over heap/structured values (%r / %r)' % (a, b))
    try:
        za, zb = to_z3(a), to_z3(b)
    except Unsupported:
        raise Unsupported('ite over %r / %r' % (a, b))
    if za.sort() != zb.sort():
        if is_num(za) and is_num(zb):
            za, zb = to_real(za), to_real(zb)
        else:
            raise Unsupported('ite over different sorts %s / %s' % (za.sort(), zb.sort()))
    return z3.If(c, za, zb)


def to_cx(x):
    if isinstance(x, Cx):
        return x
    return Cx(to_real(x), z3.RealVal(0))


def veq(a, b):
    """structural equality as a z3 Bool.  ONLY for goal (positive) positions when
    sequences are involved: element-wise equality is skolemised with a fresh index."""
    if a is b:
        return z3.BoolVal(True)
    if a is None and b is None:
        return z3.BoolVal(True)
    if hasattr(a, 'pv_veq'):
        return a.pv_veq(b)
    if hasattr(b, 'pv_veq'):
        return b.pv_veq(a)
    if isinstance(a, str) or isinstance(b, str):
        return z3.BoolVal(isinstance(a, str) and isinstance(b, str) and a == b)
    if isinstance(a, (tuple, list)) and isinstance(b, (tuple, list)):
        if len(a) != len(b):
            return z3.BoolVal(False)
        return z3.And([veq(x, y) for x, y in zip(a, b)] + [z3.BoolVal(True)])
    if isinstance(a, (tuple, list)) and isinstance(b, Seq):
        a = Seq.from_list(a)
    if isinstance(b, (tuple, list)) and isinstance(a, Seq):
        b = Seq.from_list(b)
    if isinstance(a, Seq) and isinstance(b, Seq):
        i = fresh_int('sk')
        n = concrete_int(a.length)
        m = concrete_int(b.length)
        if n == 0 and m == 0:
            return z3.BoolVal(True)
        if n == 0 or m == 0:
            return a.length == b.length
        return z3.And(a.length == b.length,
                      z3.Implies(z3.And(0 <= i, i < a.length), veq(a.fn(i), b.fn(i))))
    if isinstance(a, Cx) or isinstance(b, Cx):
        a, b = to_cx(a), to_cx(b)
        return z3.And(a.re == b.re, a.im == b.im)
    if isinstance(a, SymMap) and isinstance(b, SymMap):
        raise Unsupported('veq over SymMap needs a key sort; use map_eq')
    if isinstance(a, Obj) or isinstance(b, Obj):
        return z3.BoolVal(a is b)
    if a is None or b is None:
        other = b if a is None else a
        if is_v(other):
            return other == NONE
        return z3.BoolVal(False)
    za, zb = to_z3(a), to_z3(b)
    if za.sort() != zb.sort():
        if is_num(za) and is_num(zb):
            return to_real(za) == to_real(zb)
        return z3.BoolVal(False)
    return za == zb


def map_eq(a, b, key):
    """goal-position equality of two SymMaps at a fresh key of the given sort."""
    return z3.And(a.has(key) == b.has(key), z3.Implies(a.has(key), veq(a.get(key), b.get(key))))


# ---------------------------------------------------------------------------------
# uninterpreted functions

_uf_cache = {}


def uf(name, *args, sort=None):
    """application of an uninterpreted function named `name`; signature from the args."""
    sort = sort if sort is not None else V
    zargs = [flat for a in args for flat in _flatten(a)]
    key = (name, tuple(str(a.sort()) for a in zargs), str(sort))
    f = _uf_cache.get(key)
    if f is None:
        if zargs:
            f = z3.Function(name + '/' + str(len(_uf_cache)) if any(
                k[0] == name for k in _uf_cache) else name,
                *([a.sort() for a in zargs] + [sort]))
        else:
            f = None
        _uf_cache[key] = f
    if f is None:
        return z3.Const(name, sort)
    return f(*zargs)


def _flatten(a):
    if isinstance(a, Cx):
        return [a.re, a.im]
    if isinstance(a, (tuple, list)):
        out = []
        for x in a:
            out.extend(_flatten(x))
        return out
    if isinstance(a, Seq):
        n = concrete_int(a.length)
        if n is None:
            # the sequence as a mathematical object: (length, index function) — the index
            # function becomes a z3 lambda (array) term; equal bodies give equal arguments
            j = z3.Int('_lam')
            parts = _flatten(a.fn(j))
            return [a.length] + [z3.Lambda([j], p) for p in parts]
        out = []
        for k in range(n):
            out.extend(_flatten(a.fn(z3.IntVal(k))))
        return out
    if isinstance(a, str):
        return [z3.StringVal(a)]
    return [to_z3(a)]


def round_half_even(x):
    """np.round / round(): round half to even, on reals; returns Int."""
    x = to_real(x)
    f = z3.ToInt(x)
    frac = x - z3.ToReal(f)
    half = z3.RealVal(1) / 2
    return z3.If(frac < half, f, z3.If(frac > half, f + 1, z3.If(f % 2 == 0, f, f + 1)))


def trunc(x):
    """int(): truncation toward zero on reals; returns Int."""
    x = to_real(x)
    f = z3.ToInt(x)
    return z3.If(z3.Or(x >= 0, z3.ToReal(f) == x), f, f + 1)
