"""earr — element-wise arrays over sympy (the kernel identities of bath_dynamics, C07).

A numpy array is represented by ONE generic element: a sympy expression in the absolute index symbols
i (axis 0) and j (axis 1), together with the index ranges it covers (origin and extent per axis, sympy
expressions).  Arrays assembled by region assignment (zeros + `x[rows, cols] = y`) are lists of such pieces.
Operations that treat the diagonal specially (np.triu, np.diag) are resolved by a CASE fixed for the whole run
(ip.ghost['earr_case']):   'off'  j > i      'diag'  j == i      'low'  j < i
so that one run of the real function yields the generic element of the result for that case.

Scalars are sympy expressions (SymV).  Comparisons are decided by sympy under the assumptions of the symbols; a
difference of GENERIC symbols (declared by the contract) that does not simplify to zero is taken as non-zero
(the coincidence is a configuration of its own).  Everything else raises Unsupported (undecided, never a verdict).
"""
import z3
import sympy as sp
from .values import Unsupported, Cx, SliceVal, NONE

I_ = sp.Symbol('i', integer=True, nonnegative=True)
J_ = sp.Symbol('j', integer=True, nonnegative=True)


def _num(x):
    if isinstance(x, bool):
        return sp.Integer(int(x))
    if isinstance(x, int):
        return sp.Integer(x)
    if isinstance(x, float):
        return sp.nsimplify(x)
    if isinstance(x, complex):
        return sp.nsimplify(x.real) + sp.I * sp.nsimplify(x.imag)
    if z3.is_expr(x):
        x = z3.simplify(x)
        if z3.is_int_value(x):
            return sp.Integer(x.as_long())
        if z3.is_rational_value(x):
            return sp.Rational(x.numerator_as_long(), x.denominator_as_long())
    return None


def to_sym(x):
    if isinstance(x, SymV):
        return x.e
    if isinstance(x, sp.Expr):
        return x
    if isinstance(x, Cx):
        r, i = _num(x.re), _num(x.im)
        if r is not None and i is not None:
            return r + sp.I * i
    n = _num(x)
    if n is not None:
        return n
    raise Unsupported('earr: cannot read %r as a scalar' % (x,))


def decide_zero(ip, e):
    """True / False for `e == 0`"""
    e = sp.simplify(e)
    if e.is_zero is True or e == 0:
        return True
    if e.is_zero is False:
        return False
    gen = ip.ghost.get('earr_generic') or set()
    if e.free_symbols and e.free_symbols <= gen:
        ip.flags.add('GENERIC_SYMBOLS')
        return False
    raise Unsupported('earr: cannot decide %s == 0' % e)


_OPS = {'add': lambda a, b: a + b, 'sub': lambda a, b: a - b, 'mul': lambda a, b: a * b, 'div': lambda a, b: a / b,
        'pow': lambda a, b: a ** b}


class SymV:
    """scalar"""
    pv_types = ('float', 'complex', 'number')

    def __init__(self, e):
        self.e = sp.sympify(e)

    def __repr__(self):
        return 'SymV(%s)' % self.e

    def pv_binop(self, ip, op, other, reflected=False):
        if isinstance(other, EArr):
            return other.pv_binop(ip, op, self, reflected=not reflected)
        if op not in _OPS:
            raise Unsupported('earr: scalar operator %s' % op)
        o = to_sym(other)
        return SymV(_OPS[op](o, self.e) if reflected else _OPS[op](self.e, o))

    def pv_compare(self, ip, opname, other):
        d = self.e - to_sym(other)
        if opname == 'Eq':
            return decide_zero(ip, d)
        if opname == 'NotEq':
            return not decide_zero(ip, d)
        d = sp.simplify(d)
        table = {'Gt': d.is_positive, 'GtE': d.is_nonnegative, 'Lt': d.is_negative, 'LtE': d.is_nonpositive}
        r = table.get(opname)
        if r is None:
            raise Unsupported('earr: cannot decide %s %s 0' % (d, opname))
        return bool(r)

    def pv_truth(self, ip):
        return not decide_zero(ip, self.e)

    def pv_int(self, ip):
        if sp.simplify(self.e).is_integer:
            return SymV(sp.simplify(self.e))
        raise Unsupported('earr: int() of %s' % self.e)

    def pv_getattr(self, ip, attr):
        if attr == 'real':
            return SymV(sp.re(self.e))
        if attr == 'imag':
            return SymV(sp.im(self.e))
        raise Unsupported('earr: scalar attribute %s' % attr)


def _same(a, b):
    return sp.simplify(a - b) == 0


class EArr:
    """pieces: list of (rows, cols, expr); rows/cols = (lo, hi) in ABSOLUTE indices (cols None for vectors); later pieces
    override earlier ones.  origin = (r0, c0): element [p, q] of the array is the generic element at i = r0 + p, j = c0 + q."""
    pv_types = ('ndarray',)

    def __init__(self, rank, rows, cols, expr, pieces=None):
        self.rank, self.rows, self.cols = rank, rows, cols
        self.pieces = pieces if pieces is not None else [(rows, cols, sp.sympify(expr))]

    def __repr__(self):
        return 'EArr(rank=%d, rows=%s, cols=%s, %d piece(s))' % (self.rank, self.rows, self.cols, len(self.pieces))

    @property
    def single(self):
        if len(self.pieces) != 1:
            raise Unsupported('earr: element-wise operation on an array assembled from regions')
        return self.pieces[0][2]

    def like(self, expr):
        return EArr(self.rank, self.rows, self.cols, expr)

    def same_extent(self, o):
        if self.rank != o.rank:
            return False
        ok = _same(self.rows[0], o.rows[0]) and _same(self.rows[1], o.rows[1])
        if self.rank == 2:
            ok = ok and _same(self.cols[0], o.cols[0]) and _same(self.cols[1], o.cols[1])
        return ok

    def pv_binop(self, ip, op, other, reflected=False):
        if op not in _OPS:
            raise Unsupported('earr: array operator %s' % op)
        f = _OPS[op]
        if isinstance(other, EArr):
            if not self.same_extent(other):
                raise Unsupported('earr: operands cover different index ranges (broadcasting is not modelled)')
            if len(self.pieces) > 1 and len(other.pieces) == 1:
                # an array assembled from regions (op) one generic element: region by region
                o = other.single
                return EArr(self.rank, self.rows, self.cols, None, pieces=[(r, c, (f(o, e) if reflected else f(e, o))) for r, c, e in self.pieces])
            if len(other.pieces) > 1 and len(self.pieces) == 1:
                o = self.single
                return EArr(self.rank, self.rows, self.cols, None, pieces=[(r, c, (f(e, o) if reflected else f(o, e))) for r, c, e in other.pieces])
            if len(self.pieces) > 1 and len(other.pieces) > 1:
                # both assembled from regions: the regions of either, each with the latest piece of both that covers it
                regions = []
                for r, c, _ in self.pieces + other.pieces:
                    if not any(_same(r[0], r2[0]) and _same(r[1], r2[1]) and _same(c[0], c2[0]) and _same(c[1], c2[1]) for r2, c2 in regions):
                        regions.append((r, c))
                regions.sort(key=lambda rc: 0 if (_same(rc[0][0], self.rows[0]) and _same(rc[0][1], self.rows[1]) and _same(rc[1][0], self.cols[0])
                                                  and _same(rc[1][1], self.cols[1])) else 1)
                out = []
                for r, c in regions:
                    e1, e2 = self.lookup(r, c), other.lookup(r, c)
                    out.append((r, c, (f(e2, e1) if reflected else f(e1, e2))))
                return EArr(self.rank, self.rows, self.cols, None, pieces=out)
            a, b = self.single, other.single
        else:
            a, b = None, to_sym(other)
        if a is None:
            return EArr(self.rank, self.rows, self.cols, None,
                        pieces=[(r, c, (f(b, e) if reflected else f(e, b))) for r, c, e in self.pieces])
        return self.like(f(b, a) if reflected else f(a, b))

    def lookup(self, rows, cols):
        """expression of the latest piece that covers the region (regions are nested or disjoint, else Unsupported)"""
        for r, c, e in reversed(self.pieces):
            inside = all(sp.simplify(x).is_nonnegative for x in (rows[0] - r[0], r[1] - rows[1], cols[0] - c[0], c[1] - cols[1]))
            if inside:
                return e
            disjoint = any(sp.simplify(x).is_nonnegative for x in (r[0] - rows[1], rows[0] - r[1], c[0] - cols[1], cols[0] - c[1]))
            within = all(sp.simplify(x).is_nonnegative for x in (r[0] - rows[0], rows[1] - r[1], c[0] - cols[0], cols[1] - c[1]))
            if within:
                continue            # a later, smaller piece: it is listed as a region of its own
            if not disjoint:
                raise Unsupported('earr: partly overlapping regions')
        raise Unsupported('earr: region outside the array')

    def pv_iop(self, ip, op, other):
        r = self.pv_binop(ip, op, other)
        self.pieces = r.pieces

    def size(self):
        n = self.rows[1] - self.rows[0]
        if self.rank == 2:
            n = n * (self.cols[1] - self.cols[0])
        return sp.simplify(n)

    def pv_getattr(self, ip, attr):
        if attr == 'size':
            return SymV(self.size())
        if attr == 'shape':
            return tuple([SymV(self.rows[1] - self.rows[0])] + ([SymV(self.cols[1] - self.cols[0])] if self.rank == 2 else []))
        if attr == 'real':
            return EArr(self.rank, self.rows, self.cols, None, pieces=[(r, c, sp.re(e)) for r, c, e in self.pieces])
        if attr == 'imag':
            return EArr(self.rank, self.rows, self.cols, None, pieces=[(r, c, sp.im(e)) for r, c, e in self.pieces])
        raise Unsupported('earr: array attribute %s' % attr)

    # ---- region access
    def _range(self, sl, ext):
        if not isinstance(sl, SliceVal):
            raise Unsupported('earr: index %r (only slices are modelled)' % (sl,))
        def absent(v):
            return v is None or v is NONE
        if not (absent(sl.step) or (isinstance(sl.step, int) and sl.step == 1)):
            raise Unsupported('earr: slice step')
        if not _same(ext[0], 0):
            raise Unsupported('earr: slicing an array that is itself a sub-block')
        lo = ext[0] if absent(sl.start) else to_sym(sl.start)
        hi = ext[1] if absent(sl.stop) else to_sym(sl.stop)
        for b in (lo, hi):
            d0, d1 = sp.simplify(b - ext[0]), sp.simplify(ext[1] - b)
            if not (d0.is_nonnegative and d1.is_nonnegative):
                raise Unsupported('earr: slice bound %s not known to lie inside %s' % (b, ext))
        return (sp.simplify(lo), sp.simplify(hi))

    def _region(self, idx):
        if self.rank == 2:
            if not (isinstance(idx, tuple) and len(idx) == 2):
                raise Unsupported('earr: index %r' % (idx,))
            return self._range(idx[0], self.rows), self._range(idx[1], self.cols)
        return self._range(idx, self.rows), None

    def pv_getitem(self, ip, idx):
        rows, cols = self._region(idx)
        return EArr(self.rank, rows, cols, self.single)

    def pv_setitem(self, ip, idx, v):
        rows, cols = self._region(idx)
        n = rows[1] - rows[0]
        if cols is not None:
            n = n * (cols[1] - cols[0])
        if decide_zero(ip, n):
            return                                   # empty region: nothing is written
        if isinstance(v, EArr):
            tgt = EArr(self.rank, rows, cols, 0)
            if not tgt.same_extent(v):
                raise Unsupported('earr: assigned block does not cover the region')
            e = v.single
        else:
            e = to_sym(v)
        self.pieces.append((rows, cols, e))


def case_of(ip):
    c = ip.ghost.get('earr_case')
    if c not in ('off', 'diag', 'low'):
        raise Unsupported('earr: no diagonal case fixed for this run')
    return c


def triu(ip, x, k):
    if not isinstance(x, EArr) or x.rank != 2:
        raise Unsupported('earr: triu of %r' % (x,))
    if not _same(x.rows[0], x.cols[0]):
        raise Unsupported('earr: triu of a block that is not aligned with the diagonal')
    k = to_sym(k)
    if not k.is_Integer:
        raise Unsupported('earr: triu with symbolic k')
    c = case_of(ip)
    keep = {'off': (True if k <= 1 else None), 'diag': k <= 0, 'low': (False if k >= 0 else None)}[c]
    if keep is None:
        raise Unsupported('earr: triu(k=%s) in case %s' % (k, c))
    return EArr(2, x.rows, x.cols, None, pieces=[(r, cc, (e if keep else sp.Integer(0))) for r, cc, e in x.pieces])


def diag(ip, x):
    c = case_of(ip)
    if isinstance(x, EArr) and x.rank == 2:
        if not (_same(x.rows[0], x.cols[0]) and _same(x.rows[1], x.cols[1])):
            raise Unsupported('earr: diag of a block that is not aligned with the diagonal')
        return EArr(1, x.rows, None, x.single.subs(J_, I_))
    if isinstance(x, EArr) and x.rank == 1:
        return EArr(2, x.rows, x.rows, x.single if c == 'diag' else sp.Integer(0))
    raise Unsupported('earr: diag of %r' % (x,))


def contains(vals):
    for v in vals:
        if isinstance(v, (SymV, EArr)):
            return True
        if isinstance(v, (list, tuple)) and contains(v):
            return True
    return False


def intercept(ip, dotted, args, kw):
    vals = list(args) + list(kw.values())
    if not contains(vals):
        return NotImplemented
    x = args[0] if args else None
    if dotted in ('numpy.zeros', 'numpy.ones'):
        shp = x if isinstance(x, (tuple, list)) else (x,)
        ext = [(sp.Integer(0), to_sym(n)) for n in shp]
        fill = sp.Integer(0 if dotted.endswith('zeros') else 1)
        if len(ext) == 1:
            return EArr(1, ext[0], None, fill)
        if len(ext) == 2:
            return EArr(2, ext[0], ext[1], fill)
        raise Unsupported('earr: rank %d' % len(ext))
    if dotted == 'numpy.arange' and len(args) == 1:
        return EArr(1, (sp.Integer(0), to_sym(x)), None, I_)
    if dotted == 'numpy.meshgrid':
        if len(args) != 2 or not all(isinstance(a, EArr) and a.rank == 1 for a in args):
            raise Unsupported('earr: meshgrid arguments')
        u, v = args
        if kw.get('indexing', 'xy') == 'ij':
            return [EArr(2, u.rows, v.rows, u.single), EArr(2, u.rows, v.rows, v.single.subs(I_, J_))]
        return [EArr(2, v.rows, u.rows, u.single.subs(I_, J_)), EArr(2, v.rows, u.rows, v.single)]
    if dotted == 'numpy.exp':
        if isinstance(x, EArr):
            return EArr(x.rank, x.rows, x.cols, None, pieces=[(r, c, sp.exp(e)) for r, c, e in x.pieces])
        return SymV(sp.exp(to_sym(x)))
    if dotted in ('numpy.round', 'numpy.around', 'numpy.rint'):
        e = sp.simplify(to_sym(x))
        if e.is_integer:
            return SymV(e)
        raise Unsupported('earr: round of %s' % e)
    if dotted == 'numpy.triu':
        return triu(ip, x, kw.get('k', args[1] if len(args) > 1 else 0))
    if dotted == 'numpy.diag':
        return diag(ip, x)
    if dotted == 'numpy.nan_to_num':
        return x                     # (the entries that are read are numbers: requires clause of the contract)
    if dotted == 'numpy.sum' and isinstance(x, EArr):
        tag = len(ip.ghost.setdefault('earr_sums', []))
        ax = kw.get('axis', args[1] if len(args) > 1 else None)
        ip.ghost['earr_sums'].append((x, ax))
        return SymV(sp.Function('SUM' if ax is None else 'SUM_axis%s' % ax)(sp.Integer(tag)))
    if dotted == 'numpy.cumsum' and isinstance(x, SymV):
        return SymV(sp.Function('CUMSUM')(x.e))
    if dotted == 'numpy.append' and len(args) == 2 and isinstance(args[1], SymV):
        head = args[0]
        if isinstance(head, (list, tuple)) and len(head) == 1:
            return SymV(sp.Function('PREPEND')(to_sym(head[0]), args[1].e))
        raise Unsupported('earr: numpy.append')
    if dotted == 'numpy.arange':
        return SymV(sp.Function('ARANGE')(*[to_sym(a) for a in args]))
    if dotted in ('numpy.real', 'numpy.imag'):
        return (x if isinstance(x, (SymV, EArr)) else SymV(to_sym(x))).pv_getattr(ip, dotted.split('.')[1])
    raise Unsupported('earr: library call %s on element-wise values' % dotted)


def install(R):
    R.lib_intercept = intercept
    return R
