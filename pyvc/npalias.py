"""npalias — ownership / aliasing model of numpy arrays (third value domain of pyvc).

An abstract array `NArr` carries no element values; it carries what C20 is about:
    buf       the data buffer it reads and writes (identity; owner = 'caller:<name>' | 'lib')
    owner     set when the PYTHON OBJECT itself is the caller's (metadata writes are visible)
    shape     tuple of dimensions (python ints / z3 Ints) or None when unknown
    layout    'C' | 'F' | 'CF' (both: rank <= 1) | 'S' (not contiguous)
    writable  the WRITEABLE flag
Every numpy operation the code uses is classified (ASSUMED numpy contract, conformance-checked
by replay/c20.py:numpy_contract):
    fresh     result owns a new buffer                      (np.array, .copy(), arithmetic, dot, ...)
    view      result is a new object on the SAME buffer     (.reshape on contiguous data, .T, basic slices, .real, ...)
    same      result IS the argument                        (np.asarray of an ndarray of the right dtype, ...)
    write     writes into the buffer of an argument         (x[...] = v, x += v, .sort(), .fill(), out=, np.copyto ...)
    meta      changes shape/flags of the OBJECT             (x.shape = s, x.setflags(...), x.resize(...))
    layout    result depends on the memory layout           (order='A'/'K' flattening, .flags, .strides, .view(dtype), ...)
Anything not classified raises Unsupported (the target is then undecided, never "proved").
Events are appended to ip.ghost['np_events']; obligations are predicates over that log.
"""
import itertools
import z3

from .values import Unsupported, PyRaise, ExcVal, concrete_int, SliceVal, Seq, is_z3, Obj

_ids = itertools.count(1)


class Buf:
    def __init__(self, owner):
        self.id = next(_ids)
        self.owner = owner

    def __repr__(self):
        return 'buf%d<%s>' % (self.id, self.owner)


def events(ip):
    return ip.ghost.setdefault('np_events', [])


def log(ip, kind, arr, what):
    events(ip).append({'kind': kind, 'buffer': repr(arr.buf) if arr is not None else None,
                       'buffer_owner': arr.buf.owner if arr is not None else None,
                       'object_owner': arr.owner if arr is not None else None, 'what': what,
                       'line': getattr(ip, 'current_line', None)})


class NArr:
    pv_types = {'ndarray', 'numpy.ndarray'}

    def __init__(self, buf, shape, layout, writable=True, owner=None, dtype_same=True):
        self.oid = next(_ids)
        self.buf, self.shape, self.layout, self.writable, self.owner = buf, (tuple(shape) if shape is not None else None), layout, writable, owner
        self.dtype_same = dtype_same

    def __repr__(self):
        return 'NArr#%d(%r, shape=%s, %s%s%s)' % (self.oid, self.buf, self.shape, self.layout, '' if self.writable else ', read-only',
                                                 ', object of ' + self.owner if self.owner else '')

    # ---- constructors of derived arrays
    @property
    def rank(self):
        return None if self.shape is None else len(self.shape)

    def fresh(self, shape='same', layout='C'):
        shp = self.shape if shape == 'same' else shape
        if shp is not None and len(shp) <= 1:
            layout = 'CF'
        return NArr(Buf('lib'), shp, layout)

    def view(self, shape='same', layout=None):
        shp = self.shape if shape == 'same' else shape
        lay = layout or self.layout
        if shp is not None and len(shp) <= 1 and lay in ('C', 'F'):
            lay = 'CF'
        return NArr(self.buf, shp, lay, writable=self.writable)

    def contiguous_c(self):
        return self.layout in ('C', 'CF') or (self.rank is not None and self.rank <= 1 and self.layout != 'S')

    # ---- writes
    def write(self, ip, what):
        if not self.writable:
            log(ip, 'readonly-raise', self, what)
            raise PyRaise(ExcVal('ValueError', ('assignment destination is read-only',)))
        log(ip, 'write', self, what)

    # ---- protocol
    def pv_getattr(self, ip, attr):
        from .interp import Builtin
        B = lambda name, f: Builtin('ndarray.' + name, f)
        if attr == 'shape':
            if self.shape is None:
                raise Unsupported('shape of an array of unknown shape')
            return tuple(self.shape)
        if attr == 'ndim':
            if self.shape is None:
                raise Unsupported('ndim of an array of unknown shape')
            return len(self.shape)
        if attr == 'size':
            if self.shape is None:
                raise Unsupported('size of an array of unknown shape')
            n = 1
            for d in self.shape:
                n = n * d
            return n
        if attr == 'dtype':
            return Obj('dtype', {'same': self.dtype_same})
        if attr == 'T':
            return self.view(shape=tuple(reversed(self.shape)) if self.shape is not None else None,
                             layout={'C': 'F', 'F': 'C'}.get(self.layout, self.layout))
        if attr in ('real', 'imag'):
            return self.view(layout='S' if self.layout != 'CF' else 'S')
        if attr in ('flags', 'strides', 'data', 'base', 'ctypes', '__array_interface__'):
            log(ip, 'layout-read', self, '.' + attr)
            raise Unsupported('array attribute .%s (memory layout is read)' % attr)
        if attr == 'reshape':
            return B('reshape', lambda ip_, a, k: reshape(ip_, self, a[0] if len(a) == 1 and not _is_dim(a[0]) else tuple(a), k.get('order', 'C')))
        if attr == 'ravel':
            return B('ravel', lambda ip_, a, k: reshape(ip_, self, (-1,), k.get('order', a[0] if a else 'C')))
        if attr == 'flatten':
            def flatten(ip_, a, k):
                order = k.get('order', a[0] if a else 'C')
                if order in ('A', 'K'):
                    log(ip_, 'layout-read', self, 'flatten(order=%r)' % order)
                return self.fresh(shape=(self.pv_getattr(ip_, 'size'),) if self.shape is not None else None)
            return B('flatten', flatten)
        if attr == 'copy':
            def cp(ip_, a, k):
                order = k.get('order', a[0] if a else 'C')
                return copy_of(ip_, self, order)
            return B('copy', cp)
        if attr in ('astype',):
            return B(attr, lambda ip_, a, k: alias_or_copy(ip_, self, k.get('copy', True) is False and self.dtype_same, 'K'))
        if attr in ('conj', 'conjugate', 'round', 'clip', 'cumsum', 'cumprod', 'repeat', 'take', 'compress', 'nonzero', 'argsort', 'tolist'):
            return B(attr, lambda ip_, a, k: out_or_fresh(ip_, self, k, shape='same' if attr in ('conj', 'conjugate', 'round', 'clip') else None))
        if attr in ('transpose', 'swapaxes', 'squeeze', 'diagonal'):
            def tr(ip_, a, k):
                shp = None
                if attr == 'transpose' and self.shape is not None:
                    perm = list(a[0]) if a and isinstance(a[0], (list, tuple)) else (list(a) if a else list(reversed(range(len(self.shape)))))
                    shp = tuple(self.shape[concrete_int(p)] for p in perm)
                    if perm == list(reversed(range(len(self.shape)))):
                        return self.view(shape=shp, layout={'C': 'F', 'F': 'C'}.get(self.layout, self.layout))
                v = self.view(shape=shp, layout='S')
                if attr == 'diagonal':
                    v.writable = False
                    if self.shape is not None and len(self.shape) == 2:
                        v.shape = (self.shape[0],)
                return v
            return B(attr, tr)
        if attr in ('dot', 'trace', 'sum', 'prod', 'mean', 'max', 'min', 'all', 'any', 'std', 'var', 'argmax', 'argmin', 'item', 'tobytes', '__abs__'):
            def red(ip_, a, k):
                if attr == 'tobytes' and k.get('order', 'C') in ('A', 'K'):
                    log(ip_, 'layout-read', self, 'tobytes(order=A)')
                return out_or_fresh(ip_, self, k, shape=None)
            return B(attr, red)
        if attr in ('fill', 'sort', 'partition', 'itemset', 'put', 'byteswap'):
            def wr(ip_, a, k):
                if attr == 'byteswap' and not (k.get('inplace') or (a and a[0] is True)):
                    return self.fresh()
                self.write(ip_, '.%s()' % attr)
                return None if attr != 'byteswap' else self
            return B(attr, wr)
        if attr == 'resize':
            def rs(ip_, a, k):
                log(ip_, 'meta', self, '.resize()')
                self.write(ip_, '.resize()')
            return B(attr, rs)
        if attr == 'setflags':
            def sf(ip_, a, k):
                log(ip_, 'meta', self, '.setflags(%s)' % ', '.join('%s=%r' % kv for kv in sorted(k.items())))
                if 'write' in k:
                    self.writable = bool(k['write'])
            return B(attr, sf)
        if attr == 'view':
            def vw(ip_, a, k):
                if a or k:
                    log(ip_, 'layout-read', self, '.view(dtype)')
                return self.view()
            return B(attr, vw)
        raise Unsupported('ndarray attribute %s' % attr)

    def pv_setattr(self, ip, attr, val):
        if attr == 'shape':
            return set_shape(ip, self, val)
        if attr in ('dtype', 'strides', 'flags'):
            log(ip, 'meta', self, '.%s = ...' % attr)
            log(ip, 'layout-read', self, '.%s = ...' % attr)
            return
        raise Unsupported('ndarray attribute assignment %s' % attr)

    def pv_getitem(self, ip, idx):
        items = idx if isinstance(idx, tuple) else (idx,)
        basic = all(isinstance(i, SliceVal) or i is None or i is Ellipsis or _is_dim(i) for i in items)
        if not basic:
            return self.fresh(shape=None)          # advanced indexing copies
        n_int = sum(1 for i in items if _is_dim(i))
        if self.shape is not None and n_int == len(self.shape) and not any(isinstance(i, SliceVal) or i is Ellipsis for i in items):
            from .values import fresh_v
            return fresh_v('elem')
        return self.view(shape=None, layout='S')

    def pv_setitem(self, ip, idx, val):
        self.write(ip, 'item assignment')

    def pv_binop(self, ip, opname, other, reflected=False):
        shp = self.shape if not isinstance(other, NArr) else (self.shape if other.shape == self.shape else None)
        if opname == 'matmul':
            shp = None
        return NArr(Buf('lib'), shp, 'C' if shp is None or len(shp) > 1 else 'CF')

    def pv_iop(self, ip, opname, other):
        self.write(ip, 'in-place operator %s=' % {'add': '+', 'sub': '-', 'mul': '*', 'div': '/', 'matmul': '@', 'pow': '**', 'mod': '%',
                                                    'floordiv': '//', 'xor': '^'}.get(opname, opname))
        return self

    def pv_unary(self, ip, opname):
        return self.fresh()

    def pv_len(self, ip):
        if self.shape is None or len(self.shape) == 0:
            raise Unsupported('len of an array of unknown shape')
        return self.shape[0]

    def pv_compare(self, ip, opname, other):
        return self.fresh()

    def pv_truth(self, ip):
        from .values import fresh_bool
        return fresh_bool('array_truth')


def _is_dim(x):
    return (isinstance(x, int) and not isinstance(x, bool)) or (is_z3(x) and z3.is_int(x))


def _dims_equal(a, b):
    if isinstance(a, int) and isinstance(b, int):
        return a == b
    try:
        return z3.simplify(z3.IntVal(a) if isinstance(a, int) else a).eq(z3.simplify(z3.IntVal(b) if isinstance(b, int) else b))
    except Exception:
        return False


def _norm_shape(ip, shp):
    if isinstance(shp, Seq):
        n = concrete_int(shp.length)
        if n is None:
            return None
        shp = [shp.fn(z3.IntVal(k)) for k in range(n)]
    if _is_dim(shp):
        shp = (shp,)
    if isinstance(shp, (list, tuple)):
        return tuple(shp)
    return None


def insertion_only(old, new):
    """new == old with extra literal 1s inserted (always stride-compatible)"""
    if old is None or new is None:
        return False
    strip = lambda s: [d for d in s if not (isinstance(d, int) and d == 1)]
    a, b = strip(old), strip(new)
    return len(a) == len(b) and all(_dims_equal(x, y) for x, y in zip(a, b))


def set_shape(ip, arr, val):
    """x.shape = s  (in-place reinterpretation of the OBJECT; raises AttributeError unless the
    new shape is stride-compatible: always for rank <= 1 / C-contiguous data / mere insertion of
    singleton axes; otherwise it depends on the memory layout)"""
    new = _norm_shape(ip, val)
    log(ip, 'meta', arr, '.shape = %s' % (list(new) if new is not None else '<symbolic>'))
    ok = arr.contiguous_c() or (arr.rank is not None and arr.rank <= 1) or insertion_only(arr.shape, new)
    if not ok:
        if ip.may_raise('shape-assignment-on-non-C-contiguous-data'):
            log(ip, 'layout-raise', arr, '.shape = ... on %s data' % {'F': 'Fortran-ordered', 'S': 'non-contiguous'}.get(arr.layout, arr.layout))
            raise PyRaise(ExcVal('AttributeError', ('Incompatible shape for in-place modification. Use `.reshape()` to make a copy with the desired shape.',)))
    arr.shape = new
    if new is not None and len(new) <= 1 and arr.layout in ('C', 'F'):
        arr.layout = 'CF'


def reshape(ip, arr, shp, order='C'):
    if order in ('A', 'K'):
        log(ip, 'layout-read', arr, 'reshape/ravel(order=%r)' % order)
    new = _norm_shape(ip, shp)
    if new is not None and any(isinstance(d, int) and d == -1 for d in new):
        if len(new) == 1 and arr.shape is not None:
            new = (arr.pv_getattr(ip, 'size'),)
        else:
            new = None if len(new) > 1 else new
    if order == 'F':
        return arr.fresh(shape=new, layout='F') if not arr.layout == 'F' else arr.view(shape=new, layout='F')
    if arr.contiguous_c() or insertion_only(arr.shape, new):
        return arr.view(shape=new, layout='C' if arr.contiguous_c() else arr.layout)
    # not C-contiguous: numpy returns a view when the strides allow it and a copy otherwise
    if ip.choose('reshape-of-non-contiguous-data-is-a-view'):
        return arr.view(shape=new, layout='S')
    return arr.fresh(shape=new)


def copy_of(ip, arr, order='C'):
    if order in ('K', 'A'):
        lay = arr.layout if arr.layout in ('C', 'F', 'CF') else ('C' if ip.choose('K-order-copy-of-strided-data-is-C') else 'F')
    else:
        lay = 'F' if order == 'F' else 'C'
    return arr.fresh(layout=lay)


def alias_or_copy(ip, arr, alias, order):
    if alias:
        return arr
    return copy_of(ip, arr, order)


def out_or_fresh(ip, arr, kw, shape='same'):
    out = kw.get('out')
    if isinstance(out, NArr):
        out.write(ip, 'out= argument')
        return out
    if shape is None:
        return NArr(Buf('lib'), None, 'C')
    return arr.fresh(shape=shape)


def contains(x, depth=2):
    if isinstance(x, NArr):
        return True
    if depth and isinstance(x, (list, tuple)):
        return any(contains(y, depth - 1) for y in x)
    if depth and isinstance(x, dict):
        return any(contains(y, depth - 1) for y in x.values())
    return False


def first_arr(args):
    for a in args:
        if isinstance(a, NArr):
            return a
    for a in args:
        if isinstance(a, (list, tuple)):
            r = first_arr(a)
            if r is not None:
                return r
    return None


VIEW_FUNCS = {'numpy.transpose', 'numpy.swapaxes', 'numpy.moveaxis', 'numpy.squeeze', 'numpy.expand_dims', 'numpy.real', 'numpy.imag',
              'numpy.atleast_1d', 'numpy.atleast_2d', 'numpy.atleast_3d', 'numpy.broadcast_to', 'numpy.diagonal', 'numpy.rollaxis'}
WRITE_FIRST = {'numpy.copyto', 'numpy.put', 'numpy.place', 'numpy.putmask', 'numpy.fill_diagonal', 'numpy.random.shuffle', 'numpy.put_along_axis',
               'numpy.ndarray.sort', 'numpy.ndarray.fill'}
BOOL_FUNCS = {'numpy.allclose', 'numpy.array_equal', 'numpy.array_equiv', 'numpy.all', 'numpy.any', 'numpy.isrealobj', 'numpy.iscomplexobj',
              'numpy.may_share_memory', 'numpy.shares_memory', 'numpy.isscalar'}
FRESH_FUNCS = {'numpy.multiply.outer', 'numpy.dot', 'numpy.matmul', 'numpy.einsum', 'numpy.tensordot', 'numpy.kron', 'numpy.outer', 'numpy.inner', 'numpy.vdot', 'numpy.trace',
               'numpy.sum', 'numpy.prod', 'numpy.abs', 'numpy.absolute', 'numpy.exp', 'numpy.sqrt', 'numpy.log', 'numpy.conj', 'numpy.conjugate',
               'numpy.linalg.eig', 'numpy.linalg.eigh', 'numpy.linalg.eigvals', 'numpy.linalg.eigvalsh', 'numpy.linalg.inv', 'numpy.linalg.norm',
               'numpy.linalg.svd', 'numpy.linalg.qr', 'numpy.linalg.det', 'numpy.linalg.matrix_power', 'numpy.linalg.solve',
               'scipy.linalg.expm', 'scipy.linalg.svd', 'scipy.linalg.eig', 'scipy.linalg.eigh', 'scipy.linalg.logm', 'scipy.linalg.sqrtm',
               'numpy.diag', 'numpy.sort', 'numpy.unique', 'numpy.where', 'numpy.concatenate', 'numpy.stack', 'numpy.vstack', 'numpy.hstack',
               'numpy.tile', 'numpy.repeat', 'numpy.isclose', 'numpy.isfinite', 'numpy.isnan', 'numpy.round', 'numpy.around', 'numpy.floor',
               'numpy.maximum', 'numpy.minimum', 'numpy.max', 'numpy.min', 'numpy.amax', 'numpy.amin', 'numpy.argmax', 'numpy.argmin', 'numpy.mean',
               'numpy.add', 'numpy.subtract', 'numpy.multiply', 'numpy.divide', 'numpy.power', 'numpy.negative', 'numpy.angle', 'numpy.sign',
               'numpy.zeros_like', 'numpy.ones_like', 'numpy.empty_like', 'numpy.full_like', 'numpy.flip', 'numpy.roll', 'numpy.triu', 'numpy.tril',
               'numpy.cumsum', 'numpy.diff', 'numpy.linalg.multi_dot', 'numpy.array_split', 'numpy.heaviside', 'numpy.sin', 'numpy.cos',
               'numpy.log10', 'numpy.count_nonzero', 'numpy.nonzero', 'numpy.take', 'numpy.delete', 'numpy.insert', 'numpy.append', 'numpy.flatnonzero'}
SAME_SHAPE = {'numpy.abs', 'numpy.absolute', 'numpy.exp', 'numpy.sqrt', 'numpy.log', 'numpy.conj', 'numpy.conjugate', 'scipy.linalg.expm',
              'numpy.linalg.inv', 'numpy.zeros_like', 'numpy.ones_like', 'numpy.empty_like', 'numpy.full_like', 'numpy.round', 'numpy.around',
              'numpy.negative', 'numpy.sort', 'numpy.sin', 'numpy.cos', 'numpy.isfinite', 'numpy.isnan'}


def intercept(ip, dotted, args, kw):
    """library call with an abstract array among its arguments; NotImplemented = not ours"""
    if dotted in ('numpy.identity', 'numpy.eye'):
        n = args[0] if args else kw.get('n', kw.get('N'))
        return NArr(Buf('lib'), (n, n) if _is_dim(n) else None, 'C')
    if dotted in ('numpy.zeros', 'numpy.ones', 'numpy.empty', 'numpy.full'):
        shp = _norm_shape(ip, args[0] if args else kw.get('shape'))
        return NArr(Buf('lib'), shp, 'F' if kw.get('order') == 'F' else 'C')
    if not (contains(list(args)) or contains(kw)):
        return NotImplemented
    a0 = first_arr(list(args) + list(kw.values()))
    x = args[0] if args else None
    if dotted in ('numpy.array', 'numpy.asarray', 'numpy.asanyarray', 'numpy.ascontiguousarray', 'numpy.asfortranarray', 'numpy.require'):
        if not isinstance(x, NArr):
            # nested sequence containing arrays: always a new array
            return NArr(Buf('lib'), None, 'C')
        order = kw.get('order', 'K')
        copy = kw.get('copy', True if dotted == 'numpy.array' else False)
        want_dtype = kw.get('dtype', args[1] if len(args) > 1 else None)
        dtype_ok = x.dtype_same or want_dtype is None
        if dotted == 'numpy.ascontiguousarray':
            order, copy = 'C', False
        if dotted == 'numpy.asfortranarray':
            order, copy = 'F', False
        if order == 'A':
            log(ip, 'layout-read', x, '%s(order="A")' % dotted)
        layout_ok = order in ('K', 'A', None) or (order == 'C' and x.contiguous_c()) or (order == 'F' and x.layout in ('F', 'CF'))
        if copy is False or copy is None:
            if dtype_ok and layout_ok:
                return x                      # the argument itself
            if copy is False and dotted == 'numpy.array':
                pass                          # numpy >= 2 raises, numpy < 2 copies: a copy either way is not an alias
        r = copy_of(ip, x, order if order in ('C', 'F') else 'K')
        r.dtype_same = True
        return r
    if dotted in ('copy.copy', 'copy.deepcopy', 'copy', 'deepcopy', 'numpy.copy'):
        if isinstance(x, NArr):
            return copy_of(ip, x, kw.get('order', 'K'))
        return NotImplemented
    if dotted in ('numpy.reshape', 'numpy.ravel'):
        return reshape(ip, x, args[1] if dotted == 'numpy.reshape' and len(args) > 1 else kw.get('newshape', kw.get('shape', (-1,))), kw.get('order', 'C'))
    if dotted in ('numpy.shape',):
        return x.pv_getattr(ip, 'shape')
    if dotted in ('numpy.ndim',):
        return x.pv_getattr(ip, 'ndim')
    if dotted in ('numpy.size',):
        return x.pv_getattr(ip, 'size')
    if dotted in VIEW_FUNCS and isinstance(x, NArr):
        v = x.view(shape=None, layout='S')
        if dotted in ('numpy.broadcast_to', 'numpy.diagonal'):
            v.writable = False
        return v
    if dotted in WRITE_FIRST and isinstance(x, NArr):
        x.write(ip, dotted)
        return None
    out = kw.get('out')
    if isinstance(out, NArr):
        out.write(ip, '%s(out=...)' % dotted)
        return out
    if dotted in BOOL_FUNCS:
        from .values import fresh_bool
        return fresh_bool(dotted.split('.')[-1])
    if dotted == 'numpy.diag' and isinstance(x, NArr) and x.shape is not None and len(x.shape) in (1, 2):
        return NArr(Buf('lib'), (x.shape[0], x.shape[0]) if len(x.shape) == 1 else (x.shape[0],), 'C')
    if dotted == 'numpy.kron' and len(args) == 2 and all(isinstance(a, NArr) and a.shape is not None and len(a.shape) == 2 for a in args):
        return NArr(Buf('lib'), (args[0].shape[0] * args[1].shape[0], args[0].shape[1] * args[1].shape[1]), 'C')
    if dotted in ('numpy.multiply.outer', 'numpy.outer') and len(args) == 2 and all(isinstance(a, NArr) and a.shape is not None for a in args):
        return NArr(Buf('lib'), tuple(args[0].shape) + tuple(args[1].shape), 'C')
    if dotted in FRESH_FUNCS:
        shp = a0.shape if (dotted in SAME_SHAPE and a0 is not None) else None
        r = NArr(Buf('lib'), shp, 'C' if shp is None or len(shp) > 1 else 'CF')
        if dotted in ('numpy.linalg.eig', 'numpy.linalg.eigh', 'scipy.linalg.eig', 'scipy.linalg.eigh', 'numpy.linalg.qr'):
            w = NArr(Buf('lib'), (a0.shape[0],) if a0 is not None and a0.shape is not None else None, 'CF')
            return (w, NArr(Buf('lib'), a0.shape if a0 is not None else None, 'C'))
        if dotted in ('numpy.linalg.svd', 'scipy.linalg.svd'):
            return (r, NArr(Buf('lib'), None, 'CF'), NArr(Buf('lib'), None, 'C'))
        return r
    if dotted == 'tensornetwork.Node':
        return TNodeA(x if isinstance(x, NArr) else NArr(Buf('lib'), None, 'C'))
    raise Unsupported('library call %s on an abstract array (not classified in npalias)' % dotted)


class TEdgeA:
    def __init__(self, node, axis):
        self.node, self.axis = node, axis

    def pv_binop(self, ip, opname, other, reflected=False):
        if opname == 'xor':
            return self
        raise Unsupported('edge operator %s' % opname)

    def pv_getattr(self, ip, attr):
        if attr == 'dimension':
            shp = self.node.arr.shape
            if shp is None:
                raise Unsupported('edge dimension of unknown shape')
            return shp[self.axis]
        raise Unsupported('edge attribute %s' % attr)


class TNodeA:
    """tensornetwork.Node(array): holds the array object itself (numpy back end: no copy)"""

    def __init__(self, arr):
        self.arr = arr

    def pv_getitem(self, ip, idx):
        if isinstance(idx, SliceVal):
            n = self.arr.rank
            if n is None:
                raise Unsupported('edges of a node of unknown rank')
            return [TEdgeA(self, i) for i in range(n)]
        i = concrete_int(idx)
        if i is None:
            raise Unsupported('symbolic edge index')
        return TEdgeA(self, i)

    def pv_getattr(self, ip, attr):
        from .interp import Builtin
        if attr == 'tensor':
            return self.arr
        if attr == 'get_tensor':
            return Builtin('Node.get_tensor', lambda ip_, a, k: self.arr)
        if attr == 'shape':
            return self.arr.pv_getattr(ip, 'shape')
        if attr == 'copy':
            return Builtin('Node.copy', lambda ip_, a, k: TNodeA(self.arr))       # Node.copy shares the tensor object
        if attr == 'reorder_edges':
            def ro(ip_, a, k):
                self.arr = self.arr.view(shape=None, layout='S')                  # transposed view, never a write
                return self
            return Builtin('Node.reorder_edges', ro)
        raise Unsupported('node attribute %s' % attr)

    def pv_binop(self, ip, opname, other, reflected=False):
        if opname == 'matmul':
            return TNodeA(NArr(Buf('lib'), None, 'C'))
        raise Unsupported('node operator %s' % opname)


def caller_array(name, shape, layout='C', writable=True, dtype_same=True):
    lay = 'CF' if len(shape) <= 1 and layout != 'S' else layout
    return NArr(Buf('caller:' + name), shape, lay, writable=writable, owner='caller:' + name, dtype_same=dtype_same)


def install(R):
    R.lib_intercept = intercept
    return R
