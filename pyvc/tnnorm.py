"""tnnorm — second back end: decides equality of tensor-network (multilinear) expressions.

A tensor value is an Einstein-notation term: a list of factors (free tensor symbol, index
labels) plus the ordered list of output labels.  A label occurring in two factors is
contracted; a label may occur several times in the output (delta / copy tensor).  Tensor
symbols are FREE and dimensions are not represented at all, so a verdict holds for all
tensors of all sizes.  Equality = existence of a relabelling (and of a matching of equal-
named factors) that maps one term onto the other: sound and complete for pure wiring.

Also models the part of the `tensornetwork` API that oqupy uses (Node, edges, ^, @, copy,
replicate_nodes, get_tensor, reorder_edges) — ASSUMED contract, conformance-checked.
"""
import itertools
import z3

from .values import Unsupported, PyRaise, ExcVal, concrete_int, SliceVal

_label = itertools.count()


def new_label():
    return next(_label)


# An output entry is a label (int) or a compound entry describing a reshape of legs:
#   ('half', entry, 'L'|'R')   one factor of a leg split in two (row-major: L is the slow index)
#   ('flat', e1, e2, ...)      legs merged into one (row-major, e1 slowest)
def map_entry(f, e):
    if isinstance(e, tuple):
        return (e[0],) + tuple(map_entry(f, x) if not isinstance(x, str) else x for x in e[1:])
    return f(e)


class TDim:
    """a dimension, not represented (all sizes): only carried through arithmetic"""

    def __init__(self, desc):
        self.desc = desc

    def pv_binop(self, ip, opname, other, reflected=False):
        return TDim('(%s %s %s)' % (self.desc, opname, getattr(other, 'desc', other)))

    def pv_getattr(self, ip, attr):
        raise Unsupported('dimension attribute %s' % attr)

    def pv_compare(self, ip, opname, other):
        # dimensions are not represented: dimension checks of the code are assumed to pass (verdicts hold for all
        # tensors whose dimensions fit)
        return opname in ('Eq', 'LtE', 'GtE')

    def __repr__(self):
        return 'dim<%s>' % self.desc


class TArr:
    """einsum term.  factors: list of (symbol, tuple(labels)); out: list of labels;
    coeff: tuple of scalar symbol names multiplying the term (kept sorted)."""

    def __init__(self, factors, out, coeff=()):
        self.factors = list(factors)
        self.out = list(out)
        self.coeff = tuple(sorted(coeff))

    @staticmethod
    def sym(name, rank):
        labs = tuple(new_label() for _ in range(rank))
        return TArr([(name, labs)], list(labs))

    @staticmethod
    def diag_sym(name):
        """a diagonal matrix diag(name): one factor on one index, two equal open legs"""
        l = new_label()
        return TArr([(name, (l,))], [l, l])

    @property
    def rank(self):
        return len(self.out)

    def relabel(self):
        """fresh copy (new labels), so that the same value can be used twice in a network"""
        m = {}

        def f(l):
            if l not in m:
                m[l] = new_label()
            return m[l]
        return TArr([(s, tuple(f(l) for l in ls)) for s, ls in self.factors], [map_entry(f, l) for l in self.out], self.coeff)

    def substitute(self, ident):
        """identify labels (used by contractions); ident maps label -> representative"""
        g = lambda l: ident.get(l, l)
        return TArr([(s, tuple(g(l) for l in ls)) for s, ls in self.factors], [map_entry(g, l) for l in self.out], self.coeff)

    def permute(self, perm):
        return TArr(self.factors, [self.out[p] for p in perm], self.coeff)

    def __repr__(self):
        names = {}

        def nm(l):
            if l not in names:
                names[l] = 'abcdefghijklmnopqrstuvwxyzABCDEFGHIJKLMNOPQRSTUVWXYZ'[len(names) % 52]
            return names[l]
        fs = ' '.join('%s[%s]' % (s, ''.join(nm(l) for l in ls)) for s, ls in self.factors)
        return '<%s%s -> %s>' % (('*'.join(self.coeff) + ' ') if self.coeff else '', fs, ''.join(nm(l) for l in self.out))

    # -- protocol used by pyvc.lib
    def pv_getattr(self, ip, attr):
        from .interp import Builtin
        if attr == 'T':
            return self.permute(list(reversed(range(self.rank))))
        if attr == 'shape':
            return tuple(TDim(str(l)) for l in self.out)
        if attr == 'reshape':
            def reshape(ip_, a, k):
                shp = a[0] if len(a) == 1 and isinstance(a[0], (tuple, list)) else a
                if not self.factors and self.rank == 2 and self.out[0] == self.out[1] and len(shp) == 1:
                    return TArr.sym('VECID', 1)     # np.identity(h).reshape(h**2): the trace cap vec(1)
                if self.rank == 1 and len(shp) == 2:
                    return TArr(self.factors, [('half', self.out[0], 'L'), ('half', self.out[0], 'R')], self.coeff)
                raise Unsupported('reshape of a tensor term')
            return Builtin('ndarray.reshape', reshape)
        if attr == 'ndim':
            return self.rank
        if attr == 'transpose':
            return Builtin('ndarray.transpose', lambda ip_, a, k: self.permute(list(a[0]) if a and isinstance(a[0], (list, tuple)) else (list(a) if a else list(reversed(range(self.rank))))))
        if attr == 'conjugate' or attr == 'conj':
            return Builtin('ndarray.conj', lambda ip_, a, k: TArr([(conj_name(s), ls) for s, ls in self.factors], self.out, self.coeff))
        if attr == 'copy':
            return Builtin('ndarray.copy', lambda ip_, a, k: self)
        if attr == 'diagonal' and self.rank == 2 and self.out[0] == self.out[1]:
            return Builtin('ndarray.diagonal', lambda ip_, a, k: TArr(self.factors, [self.out[0]], self.coeff))
        raise Unsupported('tensor attribute %s' % attr)

    def pv_binop(self, ip, opname, other, reflected=False):
        if opname == 'matmul':
            a, b = (other, self) if reflected else (self, other)
            return tdot(a, b, matmul=True)
        if opname in ('add', 'sub') and isinstance(other, (TArr, TSum)):
            return TSum.of(self).pv_binop(ip, opname, other, reflected)
        if opname == 'mul':
            if isinstance(other, TArr):
                # element-wise (Hadamard) product of equally shaped arrays: the same open indices on both (no broadcasting modelled)
                a, b = self.relabel(), other.relabel()
                if a.rank != b.rank or any(isinstance(l, tuple) for l in a.out + b.out) or len(set(a.out)) != a.rank or len(set(b.out)) != b.rank:
                    raise Unsupported('elementwise product of tensors of different rank / reshaped legs')
                ren = dict(zip(b.out, a.out))
                bf = [(s_, tuple(ren.get(l, l) for l in ls)) for s_, ls in b.factors]
                return TArr(a.factors + bf, list(a.out), a.coeff + b.coeff)
            if isinstance(other, TSum):
                raise Unsupported('product of sums of tensors')
            from .values import Cx
            if isinstance(other, (Cx, complex, float)) or getattr(ip, 'tsum_scalars', False):
                return TSum.of(self).scaled(other)
            return TArr(self.factors, self.out, self.coeff + (scalar_name(other),))
        if opname == 'div' and reflected and isinstance(other, int) and other == 1 and self.rank == 1 and not self.coeff \
                and all(len(ls) == 1 and ls[0] == self.out[0] for _, ls in self.factors):
            # 1 / (vector that is a product of diagonal factors): entry-wise reciprocal, written factor^-1
            return TArr([(inv_name(s_), ls) for s_, ls in self.factors], self.out)
        raise Unsupported('tensor operator %s' % opname)


class Coef:
    """numeric (complex) factor times a multiset of named real scalars"""

    def __init__(self, num=1, names=()):
        self.num, self.names = complex(num), tuple(sorted(names))

    def times(self, other):
        from .values import Cx, is_z3
        if isinstance(other, Coef):
            return Coef(self.num * other.num, self.names + other.names)
        if isinstance(other, (int, float, complex)) and not isinstance(other, bool):
            return Coef(self.num * other, self.names)
        if isinstance(other, Cx):
            re, im = z3.simplify(other.re) if is_z3(other.re) else other.re, z3.simplify(other.im) if is_z3(other.im) else other.im
            val = lambda v: float(v.numerator_as_long()) / float(v.denominator_as_long()) if is_z3(v) and z3.is_rational_value(v) else (float(v) if not is_z3(v) else None)
            if val(re) is not None and val(im) is not None:
                return Coef(self.num * complex(val(re), val(im)), self.names)
            raise Unsupported('symbolic complex coefficient')
        if is_z3(other):
            v = z3.simplify(other)
            if z3.is_rational_value(v):
                return Coef(self.num * (float(v.numerator_as_long()) / float(v.denominator_as_long())), self.names)
            if z3.is_int_value(v):
                return Coef(self.num * v.as_long(), self.names)
            return Coef(self.num, self.names + (str(v),))
        raise Unsupported('coefficient %r' % (other,))

    def __eq__(self, other):
        return isinstance(other, Coef) and abs(self.num - other.num) < 1e-12 and self.names == other.names

    def __repr__(self):
        return '%s%s' % (self.num, ''.join('*' + n for n in self.names))


class TSum:
    """formal sum of einsum terms with coefficients (for  A (x) 1 - 1 (x) A^T  and the like)"""

    def __init__(self, items):
        self.items = [(c if isinstance(c, Coef) else Coef(c), t) for c, t in items]            # [(Coef, TArr)]

    @staticmethod
    def of(x):
        return x if isinstance(x, TSum) else TSum([(1, x)])

    def scaled(self, k):
        return TSum([(c.times(k), t) for c, t in self.items])

    def pv_binop(self, ip, opname, other, reflected=False):
        if opname in ('add', 'sub') and isinstance(other, (TSum, TArr)):
            o = TSum.of(other)
            if reflected:
                return TSum(o.items + (self.scaled(-1).items if opname == 'sub' else self.items))
            return TSum(self.items + (o.scaled(-1).items if opname == 'sub' else o.items))
        if opname == 'mul' and not isinstance(other, (TSum, TArr)):
            return self.scaled(other)
        raise Unsupported('operator %s on a sum of tensor terms' % opname)

    def pv_getattr(self, ip, attr):
        from .interp import Builtin
        if attr == 'T':
            return TSum([(c, t.pv_getattr(ip, 'T')) for c, t in self.items])
        raise Unsupported('attribute %s of a sum of tensor terms' % attr)

    def __repr__(self):
        return ' + '.join('%r*%r' % (c, t) for c, t in self.items)


def sum_equal(x, y):
    """equality of formal sums: a coefficient-respecting matching of the terms"""
    xs, ys = TSum.of(x).items, list(TSum.of(y).items)
    if len(xs) != len(ys):
        return False
    for c, t in xs:
        for k, (d, u) in enumerate(ys):
            if c == d and equal(t, u):
                ys.pop(k)
                break
        else:
            return False
    return not ys


def inv_name(s):
    return s[:-3] if s.endswith('^-1') else s + '^-1'


def cancel_inverses(t):
    """a diagonal factor and its reciprocal on the same index multiply to one"""
    fs = list(t.factors)
    changed = True
    while changed:
        changed = False
        for i, (s_, ls) in enumerate(fs):
            if len(ls) != 1:
                continue
            j = next((k for k, (s2, l2) in enumerate(fs) if k != i and s2 == inv_name(s_) and tuple(l2) == tuple(ls)), None)
            if j is not None:
                fs = [f for k, f in enumerate(fs) if k not in (i, j)]
                changed = True
                break
    return TArr(fs, t.out, t.coeff) if len(fs) != len(t.factors) else t


def conj_name(s):
    return s[:-1] if s.endswith('*') else s + '*'


def scalar_name(x):
    return str(x)


def tdot(a, b, matmul=False):
    """np.dot / @ : contract the last axis of a with the second-to-last of b (first if b is 1-d)"""
    if not isinstance(a, TArr) or not isinstance(b, TArr):
        raise Unsupported('dot of non-tensors')
    a, b = a.relabel(), b.relabel()
    ka = a.rank - 1
    kb = b.rank - 2 if b.rank >= 2 else 0
    if matmul and a.rank > 2 or matmul and b.rank > 2:
        raise Unsupported('matmul broadcasting over batch dimensions')
    la, lb = a.out[ka], b.out[kb]
    if isinstance(la, tuple) or isinstance(lb, tuple):
        raise Unsupported('contraction of a reshaped leg')
    bf = [(s, tuple(la if l == lb else l for l in ls)) for s, ls in b.factors]
    bout = [la if l == lb else l for l in b.out]
    out = a.out[:ka] + [l for i, l in enumerate(bout) if i != kb]
    return TArr(a.factors + bf, out, a.coeff + b.coeff)


def einsum_spec(spec, **syms):
    """'abjp,ij,po->abio' with symbols t,Tin,Tout given as keyword order: names in order"""
    lhs, rhs = spec.split('->')
    parts = lhs.split(',')
    names = list(syms.keys())
    lab = {}

    def f(c):
        if c not in lab:
            lab[c] = new_label()
        return lab[c]
    factors = [(syms[n], tuple(f(c) for c in p)) for n, p in zip(names, parts)]
    return TArr(factors, [f(c) for c in rhs])


def equal(x, y):
    """term equality up to relabelling of indices and matching of equal-named factors"""
    if not isinstance(x, TArr) or not isinstance(y, TArr):
        return False
    x, y = cancel_inverses(x), cancel_inverses(y)
    if x.coeff != y.coeff or len(x.out) != len(y.out) or len(x.factors) != len(y.factors):
        return False
    xs = sorted(range(len(x.factors)), key=lambda i: (x.factors[i][0], len(x.factors[i][1])))
    ys_by = {}
    for j, (s, ls) in enumerate(y.factors):
        ys_by.setdefault((s, len(ls)), []).append(j)
    xs_by = {}
    for i in xs:
        s, ls = x.factors[i]
        xs_by.setdefault((s, len(ls)), []).append(i)
    if sorted(xs_by.keys()) != sorted(ys_by.keys()) or any(len(xs_by[k]) != len(ys_by[k]) for k in xs_by):
        return False
    keys = sorted(xs_by.keys())
    for perms in itertools.product(*[itertools.permutations(ys_by[k]) for k in keys]):
        m, inv, ok = {}, {}, True

        def bind(a, b):
            if isinstance(a, tuple) or isinstance(b, tuple):
                if not (isinstance(a, tuple) and isinstance(b, tuple)) or len(a) != len(b) or a[0] != b[0]:
                    return False
                return all((x == y) if isinstance(x, str) else bind(x, y) for x, y in zip(a[1:], b[1:]))
            if m.get(a, b) != b or inv.get(b, a) != a:
                return False
            m[a], inv[b] = b, a
            return True
        for k, perm in zip(keys, perms):
            for i, j in zip(xs_by[k], perm):
                for a, b in zip(x.factors[i][1], y.factors[j][1]):
                    if not bind(a, b):
                        ok = False
                        break
                if not ok:
                    break
            if not ok:
                break
        if ok and all(bind(a, b) for a, b in zip(x.out, y.out)):
            return True
    return False


# ---------------------------------------------------------------------------------
# tensornetwork model

class TEdge:
    def __init__(self, node, axis):
        self.ends = [(node, axis)]       # one end: dangling; two ends: connected
        self.name = None

    def is_dangling(self):
        return len(self.ends) == 1

    def pv_binop(self, ip, opname, other, reflected=False):
        if opname == 'xor' and isinstance(other, TEdge):
            if not self.is_dangling() or not other.is_dangling():
                raise PyRaise(ExcVal('ValueError', ('edge is not dangling',)))
            (n1, a1), (n2, a2) = self.ends[0], other.ends[0]
            if n1 is n2:
                raise Unsupported('trace edge')
            self.ends = [(n1, a1), (n2, a2)]
            n2.edges[a2] = self
            return self
        raise Unsupported('edge operator %s' % opname)

    def pv_setattr(self, ip, attr, val):
        if attr == 'name':
            self.name = val
            return
        raise Unsupported('edge attribute assignment %s' % attr)

    def disconnect(self):
        if self.is_dangling() or not self.ends:
            raise PyRaise(ExcVal('ValueError', ('cannot disconnect a dangling edge',)))
        new = []
        for n, ax in self.ends:
            e = TEdge(n, ax)
            n.edges[ax] = e
            new.append(e)
        self.ends = []
        return tuple(new)

    def pv_getattr(self, ip, attr):
        from .interp import Builtin
        if attr == 'disconnect':
            return Builtin('Edge.disconnect', lambda ip_, a, k: self.disconnect())
        if attr == 'name':
            return self.name
        if attr == 'dimension':
            n, ax = self.ends[0]
            return TDim(str(n.arr.out[ax]))
        raise Unsupported('edge attribute %s' % attr)


class TNode:
    def __init__(self, arr, name=None):
        if isinstance(arr, TNode):
            arr = arr.tensor_value()
        if not isinstance(arr, TArr):
            raise Unsupported('tn.Node of a non-tensor value %r' % (arr,))
        self.arr = arr.relabel()
        self.edges = [TEdge(self, i) for i in range(self.arr.rank)]
        self.name = name

    def tensor_value(self):
        if getattr(self, 'factor_of_svd', False):
            return self.arr                   # (only its diagonal / shape is ever read: the singular values)
        # (tensornetwork returns the node's own tensor, axes in the order of its edges, connected or not)
        return self.arr

    def pv_getitem(self, ip, idx):
        if isinstance(idx, SliceVal):
            if idx.start is None and idx.stop is None and idx.step is None:
                return list(self.edges)
            raise Unsupported('node slice')
        i = concrete_int(idx)
        if i is None:
            raise Unsupported('symbolic edge index')
        try:
            return self.edges[i]
        except IndexError:
            raise PyRaise(ExcVal('IndexError', ('edge index',)))

    def pv_getattr(self, ip, attr):
        from .interp import Builtin
        if attr in ('tensor',):
            return self.tensor_value()
        if attr == 'get_tensor':
            return Builtin('Node.get_tensor', lambda ip_, a, k: self.tensor_value())
        if attr == 'shape':
            return self.arr.pv_getattr(ip, 'shape')
        if attr == 'edges':
            return list(self.edges)
        if attr == 'reorder_edges':
            def reorder(ip_, a, k):
                order = list(a[0])
                if sorted(map(id, order)) != sorted(map(id, self.edges)):
                    raise PyRaise(ExcVal('ValueError', ('edge reordering does not contain all edges',)))
                perm = [next(i for i, e in enumerate(self.edges) if e is x) for x in order]
                self.arr = self.arr.permute(perm)
                self.edges = order
                for ax, e in enumerate(self.edges):
                    e.ends = [(n, (ax if n is self else a_)) for n, a_ in e.ends]
                return self
            return Builtin('Node.reorder_edges', reorder)
        if attr == 'name':
            return self.name
        if attr == 'copy':
            # Node.copy(): same tensor, fresh dangling edges
            return Builtin('Node.copy', lambda ip_, a, k: TNode(self.arr, self.name))
        if attr == 'get_all_nondangling':
            return Builtin('Node.get_all_nondangling', lambda ip_, a, k: [e for e in self.edges if not e.is_dangling()])
        if attr == 'get_rank':
            return Builtin('Node.get_rank', lambda ip_, a, k: self.arr.rank)
        if attr == 'get_dimension':
            return Builtin('Node.get_dimension', lambda ip_, a, k: TDim(str(self.arr.out[concrete_int(a[0])])))
        raise Unsupported('node attribute %s' % attr)

    def pv_setattr(self, ip, attr, val):
        if attr == 'name':
            self.name = val
            return
        raise Unsupported('node attribute assignment %s' % attr)

    def pv_binop(self, ip, opname, other, reflected=False):
        if opname == 'matmul' and isinstance(other, TNode):
            a, b = (other, self) if reflected else (self, other)
            if not any((not e.is_dangling()) and any(n is b for n, _ in e.ends) for e in a.edges):
                # tensornetwork: contract_between(..., allow_outer_product=False)
                raise PyRaise(ExcVal('ValueError', ('No edges found between nodes and allow_outer_product=False.',)))
            return contract_between(a, b)
        raise Unsupported('node operator %s' % opname)


def _leaves(l):
    if isinstance(l, tuple):
        for x in l[1:]:
            if isinstance(x, str) and l[0] == 'half':
                continue
            yield from _leaves(x)
    else:
        yield l


def _leaf_pairs(la, lb):
    """pairs of component labels of two merged ('flat') legs of the same shape, None if the shapes differ"""
    if isinstance(la, tuple) != isinstance(lb, tuple):
        return None
    if not isinstance(la, tuple):
        return [(la, lb)]
    if la[0] != 'flat' or lb[0] != 'flat' or len(la) != len(lb):
        return None
    out = []
    for x, y in zip(la[1:], lb[1:]):
        p = _leaf_pairs(x, y)
        if p is None:
            return None
        out += p
    return out


def contract_between(a, b):
    """tensornetwork.contract_between(a, b): contracts every edge shared by a and b; the new
    node's axes are a's remaining edges (in order) followed by b's remaining edges."""
    shared = [e for e in a.edges if not e.is_dangling() and any(n is b for n, _ in e.ends)]
    if not shared:
        # outer product
        pass
    parent = {}

    def find(x):
        while parent.get(x, x) != x:
            x = parent[x]
        return x
    for e in shared:
        (n1, a1), (n2, a2) = e.ends
        la = a.arr.out[a1 if n1 is a else a2]
        lb = b.arr.out[a2 if n2 is b else a1]
        if isinstance(la, tuple) or isinstance(lb, tuple):
            # two merged legs with the same factorisation contract factor by factor
            pairs = _leaf_pairs(la, lb)
            if pairs is None:
                raise Unsupported('contraction of a reshaped leg')
        else:
            pairs = [(la, lb)]
        for xa, xb in pairs:
            ra, rb = find(xa), find(xb)
            if ra != rb:
                parent[rb] = ra
    labs = set(l for _, ls in a.arr.factors + b.arr.factors for l in ls) | set(l for l in a.arr.out + b.arr.out if not isinstance(l, tuple))
    labs |= set(x for l in a.arr.out + b.arr.out if isinstance(l, tuple) for x in _leaves(l))
    ident = {l: find(l) for l in labs if find(l) != l}
    sa, sb = a.arr.substitute(ident), b.arr.substitute(ident)
    keep_a = [i for i, e in enumerate(a.edges) if e not in shared]
    keep_b = [i for i, e in enumerate(b.edges) if e not in shared]
    out = [sa.out[i] for i in keep_a] + [sb.out[i] for i in keep_b]
    c = TNode.__new__(TNode)
    c.arr = TArr(sa.factors + sb.factors, out, a.arr.coeff + b.arr.coeff)
    c.name = None
    c.edges = [a.edges[i] for i in keep_a] + [b.edges[i] for i in keep_b]
    for ax, e in enumerate(c.edges):
        e.ends = [((c, ax) if (n is a or n is b) else (n, x)) for n, x in e.ends]
    # tensornetwork gives the two contracted (now dead) nodes FRESH dangling edges: an edge read from them afterwards is not an
    # edge of the new node
    for dead in (a, b):
        dead.edges = [TEdge(dead, i) for i in range(len(dead.edges))]
    return c


def tn_copy(nodes):
    """tn.copy(nodes) -> (node_dict, edge_dict): structure preserving copy"""
    node_dict, edge_dict = {}, {}
    for n in nodes:
        c = TNode.__new__(TNode)
        c.arr = n.arr.relabel()
        c.name = n.name
        c.edges = []
        node_dict[n] = c
    # (tensornetwork.copy: "If nodes A and B are connected but only A is passed in to be copied,
    # the edge between them will become a dangling edge.")
    for n in nodes:
        c = node_dict[n]
        for ax, e in enumerate(n.edges):
            if e in edge_dict:
                ne = edge_dict[e]
            else:
                ne = TEdge.__new__(TEdge)
                ne.name = e.name
                ne.ends = []
                edge_dict[e] = ne
            c.edges.append(ne)
            ne.ends.append((c, ax))
    return node_dict, edge_dict


def split_node_full_svd(ip, node, left_edges, right_edges, **trunc):
    """tn.split_node_full_svd(node, left_edges, right_edges, ...) -> (u, s, vh, truncated values) with ONE right edge, as an EXACT
    factorisation  node[L, r] = sum_b u[L, b] s[b, b'] vh[b', r]:  u is the node itself (its axis r becomes the new bond), s and vh are
    identities.  Every network identity that holds for this factorisation holds for the SVD with nothing truncated (the code may only
    contract the factors; their isometry is not available).  The truncation parameters of the call are recorded (ghost 'svd_calls')."""
    left_edges, right_edges = list(left_edges), list(right_edges)
    if not right_edges:
        raise Unsupported('split_node_full_svd without right edges')
    if sorted(map(id, left_edges + right_edges)) != sorted(map(id, node.edges)):
        raise PyRaise(ExcVal('ValueError', ('left_edges and right_edges do not partition the edges of the node',)))
    ip.ghost.setdefault('svd_calls', []).append(dict(trunc))
    order = left_edges + right_edges
    perm = [next(i for i, e in enumerate(node.edges) if e is x) for x in order]
    nl, nr = len(left_edges), len(right_edges)
    arr = node.arr.permute(perm)
    if any(isinstance(l, tuple) and l[0] != 'flat' for l in arr.out[nl:]):
        raise Unsupported('split_node_full_svd: merging reshaped legs')

    def compound(labels):
        return labels[0] if len(labels) == 1 else ('flat',) + tuple(labels)

    def mk(arr_, edges):
        n = TNode.__new__(TNode)
        n.arr, n.name, n.edges = arr_, None, edges
        for ax, e in enumerate(edges):
            e.ends = [((n, ax) if (m is node or m is n) else (m, x)) for m, x in e.ends]
        return n

    def edge():
        e = TEdge.__new__(TEdge)
        e.name, e.ends = None, []
        return e
    b1, b2 = edge(), edge()
    # u: the node, its right axes merged into the new bond
    u = mk(TArr(arr.factors, list(arr.out[:nl]) + [compound(list(arr.out[nl:]))], arr.coeff), left_edges + [b1])
    p = [map_entry(lambda _: new_label(), l) for l in arr.out[nl:]]       # fresh labels of the same (possibly merged) shape
    q = [map_entry(lambda _: new_label(), l) for l in arr.out[nl:]]
    s_node = TNode.__new__(TNode)
    s_node.arr, s_node.name, s_node.edges = TArr([], [compound(p), compound(p)]), None, [b1, b2]
    s_node.factor_of_svd = True
    vh = TNode.__new__(TNode)
    vh.arr, vh.name, vh.edges = TArr([], [compound(q)] + q), None, [b2] + right_edges
    vh.factor_of_svd = True
    b1.ends = [(u, nl), (s_node, 0)]
    b2.ends = [(s_node, 1), (vh, 0)]
    for k, e in enumerate(right_edges):
        e.ends = [((vh, 1 + k) if (m is node or m is u) else (m, x)) for m, x in e.ends]
    return (u, s_node, vh, TArr([], [new_label()]))


def split_edge(edge, shape):
    """tn.split_edge on a dangling edge, shape (d, d): the node's axis moves to the back and is
    replaced by two new dangling edges (row-major factors)"""
    if not edge.is_dangling() or len(shape) != 2:
        raise Unsupported('split_edge of a connected edge / into != 2 factors')
    node, ax = edge.ends[0]
    e = node.arr.out[ax]
    keep = [i for i in range(len(node.edges)) if i != ax]
    node.arr = TArr(node.arr.factors, [node.arr.out[i] for i in keep] + [('half', e, 'L'), ('half', e, 'R')], node.arr.coeff)
    new = [TEdge(node, len(keep)), TEdge(node, len(keep) + 1)]
    node.edges = [node.edges[i] for i in keep] + new
    for i, ed in enumerate(node.edges):
        ed.ends = [(n, (i if n is node else a_)) for n, a_ in ed.ends]
    edge.ends = []          # disabled
    return new


def flatten_edges(edges):
    """tn.flatten_edges on dangling edges of one node: the axes move to the back (in the given
    order) and are merged into one new dangling edge"""
    edges = list(edges)
    if len(edges) == 1:
        return edges[0]
    if any(not e.is_dangling() for e in edges) or len(set(id(e.ends[0][0]) for e in edges)) != 1:
        raise Unsupported('flatten_edges of connected edges / edges of different nodes')
    node = edges[0].ends[0][0]
    back = [next(i for i, x in enumerate(node.edges) if x is e) for e in edges]
    front = [i for i in range(len(node.edges)) if i not in back]
    node.arr = TArr(node.arr.factors, [node.arr.out[i] for i in front] + [('flat',) + tuple(node.arr.out[i] for i in back)], node.arr.coeff)
    new = TEdge(node, len(front))
    node.edges = [node.edges[i] for i in front] + [new]
    for i, ed in enumerate(node.edges):
        ed.ends = [(n, (i if n is node else a_)) for n, a_ in ed.ends]
    for e in edges:
        e.ends = []
    return new


def install(R):
    """register the tensornetwork / numpy models on a pyvc Registry"""
    from .engine import model

    def byname(args, kw, *names):
        """the library call's arguments by position or keyword (numpy / tensornetwork parameter names)"""
        out = list(args)
        for n in names[len(out):]:
            if n not in kw:
                raise Unsupported('library model: argument %s missing' % n)
            out.append(kw[n])
        return out

    @model
    def m_node(ip, args, kw):
        return TNode(byname(args, kw, 'tensor')[0])

    @model
    def m_copy(ip, args, kw):
        return tn_copy(list(byname(args, kw, 'nodes')[0]))

    @model
    def m_replicate(ip, args, kw):
        nodes = list(byname(args, kw, 'nodes')[0])
        nd, _ = tn_copy(nodes)
        return [nd[n] for n in nodes]

    @model
    def m_dot(ip, args, kw):
        a, b = byname(args, kw, 'a', 'b')[:2]
        return tdot(a, b)

    @model
    def m_swapaxes(ip, args, kw):
        a, i, j = byname(args, kw, 'a', 'axis1', 'axis2')
        perm = list(range(a.rank))
        i, j = i % a.rank, j % a.rank
        perm[i], perm[j] = perm[j], perm[i]
        return a.permute(perm)

    @model
    def m_moveaxis(ip, args, kw):
        a, src, dst = byname(args, kw, 'a', 'source', 'destination')
        src, dst = src % a.rank, dst % a.rank
        perm = [k for k in range(a.rank) if k != src]
        perm.insert(dst, src)
        return a.permute(perm)

    @model
    def m_array(ip, args, kw):
        if isinstance(args[0], TArr):
            return args[0]
        from .lib import np_array
        return np_array(ip, args, kw)

    @model
    def m_transpose(ip, args, kw):
        a = args[0]
        return a.permute(list(args[1]) if len(args) > 1 else list(reversed(range(a.rank))))
    @model
    def m_tensordot(ip, args, kw):
        a, b = args[0].relabel(), args[1].relabel()
        axes = kw.get('axes', args[2] if len(args) > 2 else 2)
        if isinstance(axes, int):
            ax_a = list(range(a.rank - axes, a.rank))
            ax_b = list(range(axes))
        else:
            ax_a, ax_b = axes
            ax_a = [ax_a] if isinstance(ax_a, int) else list(ax_a)
            ax_b = [ax_b] if isinstance(ax_b, int) else list(ax_b)
        ax_a = [x % a.rank for x in ax_a]
        ax_b = [x % b.rank for x in ax_b]
        ident = {b.out[j]: a.out[i] for i, j in zip(ax_a, ax_b)}
        bf = [(s_, tuple(ident.get(l, l) for l in ls)) for s_, ls in b.factors]
        out = [l for i, l in enumerate(a.out) if i not in ax_a] + [l for j, l in enumerate(b.out) if j not in ax_b]
        return TArr(a.factors + bf, out, a.coeff + b.coeff)

    @model
    def m_einsum(ip, args, kw):
        spec = args[0]
        ops = [x.relabel() for x in args[1:]]
        lhs, rhs = spec.split('->')
        lab = {}
        factors = []
        for part, t in zip(lhs.split(','), ops):
            ren = {}
            for c, l in zip(part, t.out):
                if c in lab:
                    ren[l] = lab[c]
                else:
                    lab[c] = l
            factors += [(s_, tuple(ren.get(x, x) for x in ls)) for s_, ls in t.factors]
            for c, l in zip(part, t.out):
                lab.setdefault(c, ren.get(l, l))
        return TArr(factors, [lab[c] for c in rhs], sum((t.coeff for t in ops), ()))
    @model
    def m_identity(ip, args, kw):
        l = new_label()
        return TArr([], [l, l])            # delta_{ab}: contraction with it identifies the two legs

    @model
    def m_diag(ip, args, kw):
        v = args[0]
        if not isinstance(v, TArr) or v.rank != 1:
            raise Unsupported('np.diag of a non-vector')
        v = v.relabel()
        return TArr(v.factors, [v.out[0], v.out[0]], v.coeff)

    @model
    def m_split_edge(ip, args, kw):
        return split_edge(args[0], args[1] if len(args) > 1 else kw['shape'])

    @model
    def m_flatten_edges(ip, args, kw):
        return flatten_edges(args[0])
    @model
    def m_kron(ip, args, kw):
        a, b = args[0].relabel(), args[1].relabel()
        if a.rank != 2 or b.rank != 2:
            raise Unsupported('np.kron of non-matrices')
        # kron(A, B)[(i,k),(j,l)] = A[i,j] B[k,l]   (row-major grouping)
        return TArr(a.factors + b.factors, [('flat', a.out[0], b.out[0]), ('flat', a.out[1], b.out[1])], a.coeff + b.coeff)
    R.lib_models['numpy.kron'] = m_kron
    R.lib_models['numpy.identity'] = m_identity
    R.lib_models['numpy.diag'] = m_diag
    @model
    def m_svd(ip, args, kw):
        kw = dict(kw)
        node = kw.pop('node', args[0] if args else None)
        le = kw.pop('left_edges', args[1] if len(args) > 1 else None)
        re_ = kw.pop('right_edges', args[2] if len(args) > 2 else None)
        return split_node_full_svd(ip, node, le, re_, **kw)
    R.lib_models['tensornetwork.split_node_full_svd'] = m_svd

    @model
    def m_contract_edge(ip, args, kw):
        e = args[0] if args else kw.get('edge')
        if not isinstance(e, TEdge) or e.is_dangling() or not e.ends:
            raise PyRaise(ExcVal('ValueError', ('contract of a dangling or disabled edge',)))
        (n1, _), (n2, _) = e.ends
        shared = [x for x in n1.edges if not x.is_dangling() and any(m is n2 for m, _ in x.ends)]
        if len(shared) != 1:
            raise Unsupported('tn.contract(edge) between nodes that share several edges')
        return contract_between(n1, n2)

    @model
    def m_greedy(ip, args, kw):
        nodes = list(args[0] if args else kw['nodes'])
        if not nodes:
            raise Unsupported('greedy contraction of nothing')
        # contracts ALL the given nodes (the order is the contractor's business; the result is the same tensor)
        c = nodes[0]
        rest = nodes[1:]
        while rest:
            k = next((i for i, n in enumerate(rest) if any((not e.is_dangling()) and any(m is n for m, _ in e.ends) for e in c.edges)), 0)
            c = contract_between(c, rest.pop(k))
        return c
    @model
    def m_optimal(ip, args, kw):
        nodes = list(kw.get('nodes', args[0] if args else []))
        c = m_greedy(ip, [nodes], {})
        order = kw.get('output_edge_order', args[1] if len(args) > 1 else None)
        if order is not None:
            order = list(order)
            if sorted(map(id, order)) != sorted(map(id, c.edges)):
                raise PyRaise(ExcVal('ValueError', ('output edges are not the dangling edges of the contracted network',)))
            perm = [next(i for i, e in enumerate(c.edges) if e is x) for x in order]
            c.arr = c.arr.permute(perm)
            c.edges = order
            for ax, e in enumerate(c.edges):
                e.ends = [(n, (ax if n is c else a_)) for n, a_ in e.ends]
        return c
    R.lib_models['tensornetwork.contractors.optimal'] = m_optimal
    R.lib_models['tensornetwork.contractors.auto'] = m_optimal
    R.lib_models['tensornetwork.contract'] = m_contract_edge
    R.lib_models['tensornetwork.contractors.greedy'] = m_greedy
    R.lib_models['tensornetwork.split_edge'] = m_split_edge
    R.lib_models['tensornetwork.flatten_edges'] = m_flatten_edges
    R.lib_models['numpy.tensordot'] = m_tensordot
    R.lib_models['numpy.einsum'] = m_einsum
    R.lib_models['tensornetwork.Node'] = m_node
    R.lib_models['tensornetwork.copy'] = m_copy
    R.lib_models['tensornetwork.replicate_nodes'] = m_replicate
    R.lib_models['numpy.dot'] = m_dot
    R.lib_models['numpy.swapaxes'] = m_swapaxes
    R.lib_models['numpy.moveaxis'] = m_moveaxis
    R.lib_models['numpy.array'] = m_array
    R.lib_models['numpy.transpose'] = m_transpose
    return R
