"""Path-wise symbolic interpreter for the accepted Python subset.

One Interp instance executes ONE path.  Forking is done by re-execution: the run records
every decision in `trace`; alternatives are queued in `pending` (a list of decision
prefixes) by the engine, and each prefix is replayed from scratch.  So no state is ever
copied and aliasing between Python-level containers is preserved for free.
"""
import ast
import time
import z3

from .values import (SDict, V, NONE, Unsupported, Infeasible, PathEnd, PyRaise, ExcVal, Obj, Seq,
                     SymMap, SliceVal, RangeVal, Cx, Opaque, is_z3, is_int, is_real, is_bool,
                     is_v, is_num, to_z3, to_real, to_int, concrete_int, concrete_bool, ite,
                     veq, uf, fresh_bool, fresh_int, fresh_v, fresh_real, real_const, to_cx,
                     keq)
from .modules import ModuleRef, FuncRef, ClassRef, Module


def memo_decorated(node):
    for d in getattr(node, 'decorator_list', []):
        f = d.func if isinstance(d, ast.Call) else d
        name = f.attr if isinstance(f, ast.Attribute) else getattr(f, 'id', None)
        if name in ('lru_cache', 'cache'):
            return True
    return False


class ReturnSignal(Exception):
    def __init__(self, value):
        self.value = value


class BreakSignal(Exception):
    pass


class ContinueSignal(Exception):
    pass


class KwView(dict):
    """keyword arguments of a call as a callee contract reads them: parameters passed positionally can be looked up by name"""

    def __init__(self, kwargs, params, args):
        super().__init__(kwargs)
        self._pos = {p: a for p, a in zip(params, args)}

    def __missing__(self, key):
        if key in self._pos:
            return self._pos[key]
        raise KeyError(key)

    def get(self, key, default=None):
        if dict.__contains__(self, key):
            return dict.__getitem__(self, key)
        return self._pos.get(key, default)

    def __contains__(self, key):
        return dict.__contains__(self, key) or key in self._pos


class Closure:
    def __init__(self, node, frame, module, qualname, cls=None, defaults=None):
        self.node, self.frame, self.module, self.qualname, self.cls = node, frame, module, qualname, cls
        # default values are evaluated ONCE, when the def / lambda is executed (Python semantics)
        self.defaults = defaults

    def __repr__(self):
        return '<Closure %s>' % self.qualname


class BoundMethod:
    def __init__(self, obj, func):
        self.obj, self.func = obj, func

    def __repr__(self):
        return '<BoundMethod %s of %r>' % (getattr(self.func, 'qualname', self.func), self.obj)


class Builtin:
    """python-level implementation: fn(interp, args, kwargs) -> value"""

    def __init__(self, name, fn):
        self.name, self.fn = name, fn

    def __repr__(self):
        return '<Builtin %s>' % self.name


import os as _os
_TRACE_FUNCS = _os.environ.get('PYVC_TRACE_FUNCS')       # development aid: which repo functions are ever executed symbolically
_TRACE_SEEN = set()


class LazyIter:
    """a generator object (generator expression, zip/enumerate over one): elements are produced -- and the effects of the
    element expression happen -- when they are PULLED, in the order python pulls them"""

    def __init__(self, gen, what):
        self.gen, self.what, self.done = gen, what, False

    def pull(self):
        """python generator over the remaining elements (single use, like the real object)"""
        for v in self.gen:
            yield v
        self.done = True

    def materialise(self):
        return list(self.pull())

    def __repr__(self):
        return '<generator %s>' % self.what


LAZY_AWARE = ('zip', 'enumerate', 'map')


class SuperProxy:
    def __init__(self, obj, after_cls):
        self.obj, self.after_cls = obj, after_cls


class Frame:
    def __init__(self, module, parent=None, func=None, cls=None, qualname=''):
        self.vars = {}
        self.module, self.parent, self.func, self.cls, self.qualname = module, parent, func, cls, qualname
        self.loop_counter = 0

    def lookup(self, name):
        f = self
        while f is not None:
            if name in f.vars:
                return True, f.vars[name]
            f = f.parent
        return False, None


BUILTIN_EXC_BASES = {
    'BaseException': None, 'Exception': 'BaseException', 'ArithmeticError': 'Exception',
    'AssertionError': 'Exception', 'AttributeError': 'Exception', 'IndexError': 'LookupError',
    'KeyError': 'LookupError', 'LookupError': 'Exception', 'NotImplementedError': 'RuntimeError',
    'RuntimeError': 'Exception', 'TypeError': 'Exception', 'ValueError': 'Exception',
    'FileNotFoundError': 'OSError', 'FileExistsError': 'OSError', 'OSError': 'Exception',
    'ZeroDivisionError': 'ArithmeticError', 'OverflowError': 'ArithmeticError',
    'UserError': 'Exception', 'KeyboardInterrupt': 'BaseException', 'StopIteration': 'Exception',
    'UserWarning': 'Exception', 'Warning': 'Exception',
}


def exc_isinstance(typ, handler):
    t = typ
    while t is not None:
        if t == handler:
            return True
        t = BUILTIN_EXC_BASES.get(t, 'Exception' if t not in ('BaseException',) else None)
        if t == typ:
            break
    return False


class ExcClass:
    def __init__(self, name):
        self.name = name

    def __repr__(self):
        return '<ExcClass %s>' % self.name


class TypeTok:
    """python type objects used in isinstance / check_convert (int, float, list, ...)"""

    def __init__(self, name):
        self.name = name

    def __repr__(self):
        return '<type %s>' % self.name


class Interp:
    def __init__(self, repo, registry, prefix=(), solver_timeout_ms=10000):
        self.repo = repo
        self.registry = registry      # contracts.Registry
        self.prefix = list(prefix)
        self.trace = []
        self.new_forks = []           # decision prefixes discovered on this path
        self.pc = []
        self.solver = z3.Solver()
        self.solver.set('timeout', solver_timeout_ms)
        self.obligations = []         # dicts: name, goal, pc snapshot, result...
        self.assumptions = []         # (tag, formula)
        self.flags = set()            # assumption flags used on this path
        self.log = []                 # ghost event log
        self.lib_pure = set()
        self.depth = 0
        self.ghost = {}               # free-form ghost state for models
        self.hidden_decisions = 0
        self.lib_used = set()
        self.universals = []          # (seq, fact) universally quantified facts, instantiated on demand
        self.seen_idx = {}
        self.extreme_facts = []
        self.loop_guards = []
        self.decide_timeout_ms = min(1500, solver_timeout_ms)
        self.unknown_feasibility = 0
        self.deadline = None

    # ------------------------------------------------------------------ decisions
    def add_pc(self, c, tag=None):
        c = to_z3(c)
        cb = concrete_bool(c)
        if cb is True:
            return
        self.pc.append(c)
        self.solver.add(c)
        if tag:
            self.assumptions.append((tag, c))

    def assume(self, c, tag='assume'):
        self.add_pc(c, tag)

    def feasible(self, c=None):
        # path feasibility is an optimisation (pruning): a short budget is enough, `unknown`
        # counts as feasible (sound: at worst an infeasible path is explored as well)
        self.solver.set('timeout', self.decide_timeout_ms)
        r = self.solver.check() if c is None else self.solver.check(c)
        if r == z3.unknown:
            self.unknown_feasibility += 1
        if self.deadline is not None and time.process_time() > self.deadline:
            raise Unsupported('time budget of the target exceeded (%d solver feasibility checks were inconclusive)' % self.unknown_feasibility)
        return r != z3.unsat

    def decide(self, cond, label=''):
        """branch on cond; returns the chosen python bool."""
        if isinstance(cond, bool):
            return cond
        cb = concrete_bool(cond)
        if cb is not None:
            return cb
        if self.hidden_decisions:
            ft = self.feasible(cond)
            ff = self.feasible(z3.Not(cond))
            if ft and ff:
                raise Unsupported('fork inside a lambda-sequence element (%s)' % label)
            if not ft and not ff:
                raise Infeasible()
            return ft
        idx = len(self.trace)
        if idx < len(self.prefix):
            choice = self.prefix[idx]
        else:
            ft = self.feasible(cond)
            ff = self.feasible(z3.Not(cond))
            if ft and ff:
                choice = True
                self.new_forks.append(self.trace + [False])
            elif ft:
                choice = True
            elif ff:
                choice = False
            else:
                raise Infeasible()
        self.trace.append(choice)
        self.add_pc(cond if choice else z3.Not(cond))
        return choice

    def may_raise(self, label='raise'):
        """non-deterministic 'this call raises' choice; False inside quiet re-evaluation."""
        if self.hidden_decisions:
            return False
        return self.decide(fresh_bool(label), label)

    def choose(self, label='nd'):
        """non-deterministic boolean choice (both outcomes explored)."""
        return self.decide(fresh_bool(label), label)

    def may_exist(self, witness_cond, label='exists'):
        """fork on 'there is a witness': True branch assumes the witness condition (over
        fresh constants chosen by the caller); on the False branch the caller must record the
        universal negation with add_universal."""
        if self.hidden_decisions:
            raise Unsupported('existential fork inside a lambda-sequence element')
        if self.decide(fresh_bool(label), label):
            self.add_pc(witness_cond)
            if not self.feasible():
                raise Infeasible()
            return True
        return False

    def add_universal(self, seq, fact, length=None):
        """fact(i) holds for all 0 <= i < length (length: snapshot of the sequence length
        at registration; the fact must not read the sequence object dynamically).
        Instantiated on demand (instantiate_universals) and at the two boundary indices."""
        length = seq.length if length is None else length
        self.universals.append((seq, fact, length))
        if concrete_int(length) == 0:
            return
        for i in list(self.seen_idx.get(id(seq), [])) + [z3.IntVal(0), length - 1]:
            self.add_pc(z3.Implies(z3.And(i >= 0, i < length), to_z3(fact(i))))

    def instantiate_universals(self, seq, i):
        i = to_int(i)
        self.seen_idx.setdefault(id(seq), []).append(i)
        for s, fact, length in self.universals:
            if s is seq and concrete_int(length) != 0:
                self.add_pc(z3.Implies(z3.And(i >= 0, i < length), to_z3(fact(i))))

    def prove(self, name, goal, info=None):
        """record + discharge an obligation under the current path condition."""
        self.obligations.append({'name': name, 'goal': to_z3(goal), 'pc': list(self.pc),
                                 'info': info or {}, 'flags': set(self.flags)})
        # continue the path as if it held (avoid cascades) — unless it is plainly false
        g = to_z3(goal)
        if concrete_bool(g) is not False:
            try:
                ok = self.feasible(g)
            except Exception:
                ok = True
            if ok:          # a goal that contradicts the path condition is refuted: do not assume it
                self.add_pc(g)

    # ------------------------------------------------------------------ raising
    def raise_(self, typ, *args):
        raise PyRaise(ExcVal(typ, args))

    # ------------------------------------------------------------------ truthiness
    def truth(self, v):
        from .values import NpScalar
        if isinstance(v, NpScalar):
            return self.truth(v.val)
        if hasattr(v, 'pv_truth'):
            return v.pv_truth(self)
        if isinstance(v, bool):
            return v
        if v is None:
            return False
        if is_z3(v):
            if z3.is_bool(v):
                return v
            if z3.is_int(v) or z3.is_real(v):
                return v != 0
            if is_v(v):
                raise Unsupported('truth value of an opaque value')
        if isinstance(v, int):
            return v != 0
        if isinstance(v, (list, tuple, dict, str)):
            return len(v) > 0
        if isinstance(v, Seq):
            return v.length > 0
        if isinstance(v, (Obj, Closure, BoundMethod, Builtin, ClassRef, FuncRef)):
            if isinstance(v, Obj):
                m = self.find_method(v, '__len__')
                if m is not None:
                    return self.truth(self.call(m, [], {}))
                m = self.find_method(v, '__bool__')
                if m is not None:
                    return self.truth(self.call(m, [], {}))
            return True
        raise Unsupported('truth of %r' % (v,))

    def branch(self, v, label=''):
        return self.decide(self.truth(v), label)

    # ------------------------------------------------------------------ names
    def lookup_name(self, name, frame):
        ok, v = frame.lookup(name)
        if ok:
            if isinstance(v, Opaque):
                raise Unsupported('read of poisoned variable %s (%s)' % (name, v.why))
            return v
        return self.lookup_global(name, frame.module)

    def lookup_global(self, name, module):
        if module is not None:
            over = self.registry.global_override(module.short, name) if self.registry else None
            if over is not None:
                return over
            r = module.lookup(name)
            if r is not None:
                return self.materialise(r)
        from . import lib
        if name in lib.BUILTINS:
            return lib.BUILTINS[name]
        if name in BUILTIN_EXC_BASES:
            return ExcClass(name)
        raise Unsupported('unresolved name %s in %s' % (name, module.short if module else '?'))

    def materialise(self, r):
        if isinstance(r, (FuncRef, ClassRef, ModuleRef)):
            return r
        if isinstance(r, tuple) and r[0] == 'repomodule':
            return r[1]
        if isinstance(r, tuple) and r[0] == 'const':
            fr = Frame(r[2])
            return self.eval(r[1], fr)
        raise Unsupported('cannot materialise %r' % (r,))

    # ------------------------------------------------------------------ calls
    def find_method(self, obj, name):
        if isinstance(obj.cls, ClassRef):
            m = obj.cls.find(name)
            if m is not None and getattr(m, 'kind', 'method') in ('method',):
                return BoundMethod(obj, m)
            return None
        key = obj.cls + '.' + name
        if self.registry and key in self.registry.models:
            return BoundMethod(obj, ('model', key))
        return None

    def call(self, fn, args, kwargs):
        self.depth += 1
        if self.depth > 60:
            raise Unsupported('call depth exceeded')
        try:
            return self._call(fn, args, kwargs)
        finally:
            self.depth -= 1

    def _call(self, fn, args, kwargs):
        if any(isinstance(a, LazyIter) for a in args) or any(isinstance(a, LazyIter) for a in kwargs.values()):
            f0 = fn.func if isinstance(fn, BoundMethod) else fn
            keeps = isinstance(f0, (FuncRef, Closure, ClassRef)) or (isinstance(fn, Builtin) and fn.name in LAZY_AWARE)
            if not keeps:       # every other consumer (list, tuple, sum, any, library functions, ...) exhausts the generator at the call
                args = [a.materialise() if isinstance(a, LazyIter) else a for a in args]
                kwargs = {k: (a.materialise() if isinstance(a, LazyIter) else a) for k, a in kwargs.items()}
        if isinstance(fn, Builtin):
            return fn.fn(self, args, kwargs)
        if isinstance(fn, BoundMethod):
            if isinstance(fn.func, tuple) and fn.func[0] == 'model':
                a2, k2 = [fn.obj] + list(args), kwargs
                node = self._abstract_method_node(fn.func[1]) if kwargs else None
                if node is not None:
                    a2, k2 = self.positional_form(node, a2, kwargs)
                return self.registry.models[fn.func[1]](self, a2, k2)
            if isinstance(fn.func, FuncRef) and getattr(fn.func, 'kind', 'method') == 'static':
                return self.call(fn.func, args, kwargs)
            return self.call(fn.func, [fn.obj] + list(args), kwargs)
        if isinstance(fn, FuncRef):
            model = self.registry.models.get(fn.qualname) if self.registry else None
            if model is not None and fn.qualname not in self.registry.inline_now:
                a2, k2 = self.positional_form(fn.node, args, kwargs)
                return model(self, a2, k2)
            if self.registry is not None and getattr(self.registry, 'memo', False) and memo_decorated(fn.node):
                return self.call_memoised(fn, args, kwargs)
            return self.run_function(fn.node, fn.module, None, fn.qualname, fn.cls, args, kwargs)
        if isinstance(fn, Closure):
            model = self.registry.models.get(fn.qualname) if self.registry else None
            if model is not None and fn.qualname not in self.registry.inline_now:
                a2, k2 = self.positional_form(fn.node, args, kwargs)
                return model(self, a2, k2)
            return self.run_function(fn.node, fn.module, fn.frame, fn.qualname, fn.cls, args, kwargs, defaults=fn.defaults)
        if isinstance(fn, ClassRef):
            return self.instantiate(fn, args, kwargs)
        if isinstance(fn, ModuleRef):
            from . import lib
            return lib.call_library(self, fn.dotted, args, kwargs)
        if isinstance(fn, ExcClass):
            return ExcVal(fn.name, tuple(args))
        if isinstance(fn, TypeTok):
            from . import lib
            return lib.call_type(self, fn.name, args, kwargs)
        if isinstance(fn, Obj):
            m = self.find_method(fn, '__call__')
            if m is not None:
                return self.call(m, args, kwargs)
        if callable(fn) and getattr(fn, '_pyvc_model', False):
            return fn(self, list(args), kwargs)
        raise Unsupported('call of %r' % (fn,))

    def _abstract_method_node(self, name):
        """AST of the real method an abstract record's method stands for (engine.ABSTRACT_CLASSES), or None"""
        try:
            from .engine import ABSTRACT_CLASSES
            cls, meth = name.rsplit('.', 1)
            for real in ABSTRACT_CLASSES.get(cls, ()):
                c = self.repo.resolve(real)
                f = c.find(meth) if c is not None else None
                if f is not None and getattr(f, 'node', None) is not None:
                    return f.node
            # an abstract record not in the table: every class of the package that defines a method of this name -- if they all agree
            # on the parameter list, that is the signature the call is read with
            idx = getattr(self.repo, '_method_index', None)
            if idx is None:
                import os
                idx = {}
                root = os.path.join(self.repo.root, 'oqupy')
                for dp, _, files in os.walk(root):
                    for fn_ in files:
                        if not fn_.endswith('.py'):
                            continue
                        try:
                            tree = ast.parse(open(os.path.join(dp, fn_)).read())
                        except Exception:       # noqa
                            continue
                        for c_ in tree.body:
                            if isinstance(c_, ast.ClassDef):
                                for m_ in c_.body:
                                    if isinstance(m_, ast.FunctionDef):
                                        idx.setdefault(m_.name, []).append(m_)
                self.repo._method_index = idx
            cands = idx.get(meth, [])
            sigs = {tuple(a.arg for a in m_.args.posonlyargs + m_.args.args) for m_ in cands}
            if len(sigs) == 1:
                return cands[0]
        except Exception:       # noqa
            return None
        return None

    @staticmethod
    def positional_form(node, args, kwargs):
        """a callee contract (model) sees the call independently of the call style: `args` is the positional form (keyword
        arguments that name the next positional parameters are appended), and `kwargs` also answers for parameters that
        were passed positionally -- so f(a, b), f(a, y=b) and f(x=a, y=b) reach the model alike, whichever way it reads them"""
        try:
            params = [p.arg for p in node.args.posonlyargs + node.args.args]
        except AttributeError:
            return list(args), kwargs
        a2 = list(args)
        for p in params[len(a2):]:
            if p in kwargs:
                a2.append(kwargs[p])
            else:
                break
        return a2, KwView(kwargs, params, list(args))

    def call_memoised(self, fn, args, kwargs):
        """functools.lru_cache / cache (ASSUMED contract): a table keyed by the call's positional
        and keyword arguments (objects without __eq__/__hash__ by identity, numbers by value);
        a later call with an equal key returns the stored result without running the body;
        exceptions are not cached.  Eviction (maxsize) is not modelled: a hit is assumed
        whenever an equal key was stored before."""
        from . import lib
        table = self.ghost.setdefault('memo', {}).setdefault(fn.qualname, [])
        key = (tuple(args), tuple(sorted(kwargs.items())))
        for (kargs, kkw), val in table:
            if len(kargs) != len(args) or [k for k, _ in kkw] != [k for k, _ in key[1]]:
                continue
            conds, same = [], True

            def key_eq(a, b):
                """None = certainly different keys; else conditions under which the components are equal"""
                by_identity = (Obj, Closure, BoundMethod, Builtin, FuncRef, ClassRef)
                if isinstance(a, (tuple, list)) or isinstance(b, (tuple, list)):
                    if not (isinstance(a, (tuple, list)) and isinstance(b, (tuple, list))) or len(a) != len(b):
                        return None
                    out = []
                    for x, y in zip(a, b):
                        r = key_eq(x, y)
                        if r is None:
                            return None
                        out += r
                    return out
                if isinstance(a, BoundMethod) and isinstance(b, BoundMethod):
                    # python: bound methods are equal (and hash alike) iff they are the same function bound to the same object
                    return [] if (a.obj is b.obj and a.func is b.func) else None
                if isinstance(a, by_identity) or isinstance(b, by_identity) or a is None or b is None \
                        or (callable(a) and getattr(a, '_pyvc_model', False)) or (callable(b) and getattr(b, '_pyvc_model', False)):
                    return [] if a is b else None
                if isinstance(a, (str, bool)) or isinstance(b, (str, bool)):
                    return [] if (type(a) is type(b) and a == b) else None
                return [lib.to_z3(lib.compare(self, ast.Eq(), a, b))]
            for a, b in list(zip(kargs, args)) + [(x[1], y[1]) for x, y in zip(kkw, key[1])]:
                r = key_eq(a, b)
                if r is None:
                    same = False
                    break
                conds += r
            if not same:
                continue
            if self.branch(z3.And(conds) if conds else True, 'memo-hit@%s' % fn.qualname):
                self.log.append(('memo-hit', fn.qualname))
                return val
        val = self.run_function(fn.node, fn.module, None, fn.qualname, fn.cls, args, kwargs)
        table.append((key, val))
        return val

    def instantiate(self, cls, args, kwargs):
        model = self.registry.models.get(cls.qualname) if self.registry else None
        if model is not None and cls.qualname not in self.registry.inline_now:
            init0 = cls.find('__init__')
            if init0 is not None and getattr(init0, 'node', None) is not None:
                # a constructor contract sees the call independently of the call style (see positional_form)
                a2, k2 = self.positional_form(init0.node, [None] + list(args), kwargs)
                k2._pos.pop(next(iter(k2._pos), None), None) if getattr(k2, '_pos', None) else None
                return model(self, a2[1:], k2)
            return model(self, list(args), kwargs)
        if cls.is_subclass_of('Exception') or cls.is_subclass_of('BaseException'):
            return ExcVal(cls.name, tuple(args))
        obj = Obj(cls)
        init = cls.find('__init__')
        if init is not None:
            self.call(init, [obj] + list(args), kwargs)
        return obj

    def bind_args(self, node, args, kwargs, frame, module, defaults_v=None):
        a = node.args
        params = [p.arg for p in a.posonlyargs + a.args]
        defaults = a.defaults
        if a.vararg is None and len(args) > len(params):
            raise PyRaise(ExcVal('TypeError', ('too many positional arguments',)))
        bound = {}
        for p, v in zip(params, args):
            bound[p] = v
        if a.vararg is not None:
            bound[a.vararg.arg] = tuple(args[len(params):])
        kwonly = [p.arg for p in a.kwonlyargs]
        extra = {}
        for k, v in kwargs.items():
            if k in bound:
                raise PyRaise(ExcVal('TypeError', ('multiple values for argument',)))
            if k in params or k in kwonly:
                bound[k] = v
            elif a.kwarg is not None:
                extra[k] = v
            else:
                raise PyRaise(ExcVal('TypeError', ('unexpected keyword argument %s' % k,)))
        if a.kwarg is not None:
            bound[a.kwarg.arg] = extra
        dframe = Frame(module, parent=frame)
        nd = len(defaults)
        for i, p in enumerate(params):
            if p not in bound:
                di = i - (len(params) - nd)
                if di < 0:
                    raise PyRaise(ExcVal('TypeError', ('missing argument %s' % p,)))
                bound[p] = defaults_v[0][di] if defaults_v is not None else self.eval(defaults[di], dframe)
        for ki, (p, d) in enumerate(zip(kwonly, a.kw_defaults)):
            if p not in bound:
                if d is None:
                    raise PyRaise(ExcVal('TypeError', ('missing kw argument %s' % p,)))
                bound[p] = defaults_v[1][ki] if defaults_v is not None else self.eval(d, dframe)
        return bound

    def run_function(self, node, module, parent_frame, qualname, cls, args, kwargs, defaults=None):
        frame = Frame(module, parent=parent_frame, func=node, cls=cls, qualname=qualname)
        frame.vars.update(self.bind_args(node, args, kwargs, parent_frame, module, defaults))
        if _TRACE_FUNCS is not None and qualname not in _TRACE_SEEN:
            _TRACE_SEEN.add(qualname)
            try:
                with open(_TRACE_FUNCS, 'a') as fh:
                    fh.write('%s\n' % qualname)
            except OSError:
                pass
        if isinstance(node, ast.Lambda):
            return self.eval(node.body, frame)
        try:
            self.exec_block(node.body, frame)
        except ReturnSignal as r:
            return r.value
        return None

    # ------------------------------------------------------------------ statements
    def exec_block(self, stmts, frame):
        for st in stmts:
            self.exec_stmt(st, frame)

    def exec_stmt(self, st, frame):
        self.current_line = '%s:%s' % (getattr(frame.module, 'short', '?'), getattr(st, 'lineno', '?'))
        m = getattr(self, 'st_' + type(st).__name__, None)
        if m is None:
            raise Unsupported('statement %s at line %d' % (type(st).__name__, st.lineno))
        hook = self.registry.stmt_hook if self.registry else None
        if hook is not None:
            hook(self, st, frame)
        return m(st, frame)

    def st_Pass(self, st, frame):
        pass

    def st_Expr(self, st, frame):
        if isinstance(st.value, ast.Constant):
            return      # docstring
        self.eval(st.value, frame)

    def st_Return(self, st, frame):
        raise ReturnSignal(self.eval(st.value, frame) if st.value is not None else None)

    def st_Break(self, st, frame):
        raise BreakSignal()

    def st_Continue(self, st, frame):
        raise ContinueSignal()

    def st_FunctionDef(self, st, frame):
        frame.vars[st.name] = Closure(st, frame, frame.module, frame.qualname + '.<locals>.' + st.name, frame.cls,
                                      defaults=self.eval_defaults(st, frame))

    def eval_defaults(self, node, frame):
        a = node.args
        return ([self.eval(d, frame) for d in a.defaults], [None if d is None else self.eval(d, frame) for d in a.kw_defaults])

    def st_Import(self, st, frame):
        for a in st.names:
            frame.vars[a.asname or a.name.split('.')[0]] = ModuleRef(a.name if a.asname else a.name.split('.')[0])

    def st_ImportFrom(self, st, frame):
        for a in st.names:
            frame.vars[a.asname or a.name] = ModuleRef((st.module or '') + '.' + a.name)

    def st_Assign(self, st, frame):
        v = self.eval(st.value, frame)
        for t in st.targets:
            self.assign(t, v, frame)

    def st_AnnAssign(self, st, frame):
        if st.value is not None:
            self.assign(st.target, self.eval(st.value, frame), frame)

    def st_AugAssign(self, st, frame):
        cur = self.eval(_load(st.target), frame)
        v = self.eval(st.value, frame)
        if hasattr(cur, 'pv_iop'):
            from . import lib
            cur.pv_iop(self, lib._OPNAMES.get(type(st.op).__name__), v)      # in place: the target keeps its object
            return
        self.assign(st.target, self.binop(st.op, cur, v), frame)

    def st_Delete(self, st, frame):
        for t in st.targets:
            if isinstance(t, ast.Name):
                frame.vars.pop(t.id, None)
            elif isinstance(t, ast.Attribute):
                o = self.eval(t.value, frame)
                if isinstance(o, Obj):
                    o.fields.pop(t.attr, None)
                else:
                    raise Unsupported('del attribute')
            elif isinstance(t, ast.Subscript):
                o = self.eval(t.value, frame)
                idx = self.eval(t.slice, frame)
                from .values import concrete_int as _ci
                if not isinstance(idx, (int, str)) and _ci(idx) is not None:
                    idx = _ci(idx)
                if isinstance(o, list) and not isinstance(idx, bool) and isinstance(idx, int):
                    self.note_mutation(o)
                    try:
                        del o[idx]
                    except IndexError:
                        raise PyRaise(ExcVal('IndexError', ('list assignment index out of range',)))
                elif isinstance(o, dict) and not isinstance(o, SDict) and isinstance(idx, (int, str)) and not isinstance(idx, bool):
                    self.note_mutation(o)
                    if idx not in o:
                        raise PyRaise(ExcVal('KeyError', (idx,)))
                    del o[idx]
                else:
                    raise Unsupported('del subscript %r[%r]' % (type(o).__name__, idx))
            else:
                raise Unsupported('del subscript')

    def st_Global(self, st, frame):
        raise Unsupported('global statement')

    def st_If(self, st, frame):
        if self.branch(self.eval(st.test, frame), 'if@%d' % st.lineno):
            self.exec_block(st.body, frame)
        else:
            self.exec_block(st.orelse, frame)

    def st_Assert(self, st, frame):
        if not self.branch(self.eval(st.test, frame), 'assert@%d' % st.lineno):
            raise PyRaise(ExcVal('AssertionError', ()))

    def st_Raise(self, st, frame):
        if st.exc is None:
            cur = getattr(frame, 'current_exc', None)
            f = frame
            while cur is None and f.parent is not None:
                f = f.parent
                cur = getattr(f, 'current_exc', None)
            if cur is None:
                raise Unsupported('bare raise outside handler')
            raise PyRaise(cur)
        e = self.eval(st.exc, frame)
        if isinstance(e, ExcClass):
            e = ExcVal(e.name, ())
        if isinstance(e, ClassRef):
            e = ExcVal(e.name, ())
        if not isinstance(e, ExcVal):
            raise Unsupported('raise of %r' % (e,))
        raise PyRaise(e)

    def st_Try(self, st, frame):
        try:
            try:
                self.exec_block(st.body, frame)
            except PyRaise as pr:
                for h in st.handlers:
                    if self.handler_matches(h, pr.exc, frame):
                        if h.name:
                            frame.vars[h.name] = pr.exc
                        saved = getattr(frame, 'current_exc', None)
                        frame.current_exc = pr.exc
                        try:
                            self.exec_block(h.body, frame)
                        finally:
                            frame.current_exc = saved
                        break
                else:
                    raise
            else:
                self.exec_block(st.orelse, frame)
        finally:
            # `finally` also runs on Return/Break/Continue/PyRaise; engine signals
            # (PathEnd, Unsupported, Infeasible) must not run program code.
            import sys
            et = sys.exc_info()[0]
            if et is None or issubclass(et, (PyRaise, ReturnSignal, BreakSignal, ContinueSignal)):
                if st.finalbody:
                    self.exec_block(st.finalbody, frame)

    def handler_matches(self, h, exc, frame):
        if h.type is None:
            return True
        t = self.eval(h.type, frame)
        ts = t if isinstance(t, tuple) else (t,)
        for x in ts:
            name = x.name if isinstance(x, (ExcClass, ClassRef)) else None
            if name is None:
                raise Unsupported('except clause type %r' % (x,))
            if exc_isinstance(exc.typ, name):
                return True
        return False

    def st_With(self, st, frame):
        if len(st.items) != 1:
            raise Unsupported('with: multiple items')
        item = st.items[0]
        mgr = self.eval(item.context_expr, frame)
        enter = self.getattr(mgr, '__enter__')
        exit_ = self.getattr(mgr, '__exit__')
        val = self.call(enter, [], {})
        if item.optional_vars is not None:
            self.assign(item.optional_vars, val, frame)
        try:
            self.exec_block(st.body, frame)
        except PyRaise as pr:
            r = self.call(exit_, [ExcClass(pr.exc.typ), pr.exc, None], {})
            if r is not None and self.branch(r, 'with-suppress'):
                return
            raise
        except (ReturnSignal, BreakSignal, ContinueSignal):
            self.call(exit_, [None, None, None], {})
            raise
        else:
            self.call(exit_, [None, None, None], {})

    # ---- loops
    def st_While(self, st, frame):
        inv = self.loop_inv(frame, st)
        if inv is None:
            # unroll while the condition is concretely decidable (bounded by 64)
            n = 0
            while True:
                c = self.truth(self.eval(st.test, frame))
                cb = concrete_bool(c) if not isinstance(c, bool) else c
                if cb is None:
                    raise Unsupported('while loop without invariant at line %d' % st.lineno)
                if not cb:
                    break
                n += 1
                if n > 64:
                    raise Unsupported('while loop unrolled > 64 at line %d' % st.lineno)
                try:
                    self.exec_block(st.body, frame)
                except BreakSignal:
                    return
                except ContinueSignal:
                    continue
            self.exec_block(st.orelse, frame)
            return
        inv.run_while(self, st, frame)

    def st_For(self, st, frame):
        it = self.eval(st.iter, frame)
        items = it.pull() if isinstance(it, LazyIter) else self.iter_values(it)
        if isinstance(items, list) or isinstance(it, LazyIter):
            broke = False
            for v in items:
                self.assign(st.target, v, frame)
                try:
                    self.exec_block(st.body, frame)
                except BreakSignal:
                    broke = True
                    break
                except ContinueSignal:
                    continue
            if not broke:
                self.exec_block(st.orelse, frame)
            return
        inv = self.loop_inv(frame, st)
        if inv is None:
            raise Unsupported('for loop over symbolic-length iterable without invariant '
                              'in %s at line %d' % (frame.qualname, st.lineno))
        inv.run_for(self, st, frame, items)

    def loop_inv(self, frame, st):
        if not self.registry:
            return None
        return self.registry.loop_invariant(frame, st)

    def iter_values(self, it):
        """python list (concrete spine -> unrolled) or Seq (symbolic length)."""
        if isinstance(it, (list, tuple)):
            return list(it)
        if isinstance(it, LazyIter):
            return it.materialise()
        if isinstance(it, dict):
            return list(it.keys())
        if isinstance(it, RangeVal):
            it = it.as_seq()
        if isinstance(it, Seq):
            n = concrete_int(it.length)
            if n is not None and n <= 64:
                return [it.fn(z3.IntVal(k)) for k in range(n)]
            return it
        if isinstance(it, str):
            return list(it)
        raise Unsupported('iteration over %r' % (it,))

    # ------------------------------------------------------------------ assignment
    def assign(self, target, v, frame):
        if isinstance(target, ast.Name):
            frame.vars[target.id] = v
        elif isinstance(target, (ast.Tuple, ast.List)) and any(isinstance(e, ast.Starred) for e in target.elts):
            # a, *rest, z = v   (concrete-length sequences only)
            items = self.iter_values(v)
            if not isinstance(items, list):
                raise Unsupported('starred unpacking of a symbolic-length sequence')
            k = next(i for i, e in enumerate(target.elts) if isinstance(e, ast.Starred))
            after = len(target.elts) - k - 1
            if len(items) < len(target.elts) - 1:
                raise PyRaise(ExcVal('ValueError', ('not enough values to unpack',)))
            for t, x in zip(target.elts[:k], items[:k]):
                self.assign(t, x, frame)
            self.assign(target.elts[k].value, list(items[k:len(items) - after]), frame)
            for t, x in zip(target.elts[k + 1:], items[len(items) - after:]):
                self.assign(t, x, frame)
        elif isinstance(target, (ast.Tuple, ast.List)):
            vals = self.unpack(v, len(target.elts))
            for t, x in zip(target.elts, vals):
                self.assign(t, x, frame)
        elif isinstance(target, ast.Attribute):
            o = self.eval(target.value, frame)
            self.setattr(o, target.attr, v, frame, target)
        elif isinstance(target, ast.Subscript):
            o = self.eval(target.value, frame)
            idx = self.eval_index(target.slice, frame)
            self.setitem(o, idx, v)
        else:
            raise Unsupported('assignment target %s' % type(target).__name__)

    def unpack(self, v, n):
        if isinstance(v, (tuple, list)):
            if len(v) != n:
                raise PyRaise(ExcVal('ValueError', ('unpack',)))
            return list(v)
        if isinstance(v, Seq):
            m = concrete_int(v.length)
            if m is None:
                raise Unsupported('unpack of symbolic-length sequence')
            if m != n:
                raise PyRaise(ExcVal('ValueError', ('unpack',)))
            return [v.fn(z3.IntVal(k)) for k in range(n)]
        if is_v(v):
            self.flags.add('OPAQUE_UNPACK')
            return [uf('unpack%d' % k, v) for k in range(n)]
        raise Unsupported('unpack of %r' % (v,))

    def setattr(self, o, attr, v, frame=None, node=None):
        if hasattr(o, 'pv_setattr'):
            return o.pv_setattr(self, attr, v)
        if isinstance(o, Obj):
            if isinstance(o.cls, ClassRef):
                st = o.cls.find(attr + '.setter')
                if st is not None:
                    return self.call(st, [o, v], {})
            else:
                key = o.cls + '.' + attr + '.setter'
                if self.registry and key in self.registry.models:
                    return self.registry.models[key](self, [o, v], {})
            for g in self.loop_guards:
                g.field_written(o, attr, o.fields.get(attr), v)
            o.fields[attr] = v
            return
        if is_v(o) and frame is not None and node is not None and isinstance(node.value, ast.Name):
            # in-place attribute update of an opaque array bound to a local name: rebind
            self.flags.add('OPAQUE_MUT')
            frame.vars[node.value.id] = uf('setattr_' + attr, o, v)
            return
        raise Unsupported('attribute assignment on %r' % (o,))

    def setitem(self, o, idx, v):
        from . import lib
        if not isinstance(o, Obj):
            self.note_mutation(o)
        return lib.setitem(self, o, idx, v)

    def note_mutation(self, container):
        for g in self.loop_guards:
            g.mutated(container)

    # ------------------------------------------------------------------ expressions
    def eval(self, node, frame):
        m = getattr(self, 'ex_' + type(node).__name__, None)
        if m is None:
            raise Unsupported('expression %s at line %d' % (type(node).__name__, getattr(node, 'lineno', -1)))
        return m(node, frame)

    def ex_Constant(self, node, frame):
        v = node.value
        if isinstance(v, float):
            self.flags.add('REAL_FLOAT')
            return real_const(v)
        if isinstance(v, complex):
            self.flags.add('REAL_FLOAT')
            return Cx(real_const(v.real), real_const(v.imag))
        if v is Ellipsis:
            raise Unsupported('Ellipsis')
        return v

    def ex_Name(self, node, frame):
        return self.lookup_name(node.id, frame)

    def ex_Tuple(self, node, frame):
        out = []
        for e in node.elts:
            if isinstance(e, ast.Starred):
                out.extend(self.iter_concrete(self.eval(e.value, frame)))
            else:
                out.append(self.eval(e, frame))
        return tuple(out)

    def ex_List(self, node, frame):
        return list(self.ex_Tuple(node, frame))

    def ex_Dict(self, node, frame):
        d = SDict()
        for k, v in zip(node.keys, node.values):
            if k is None:
                raise Unsupported('dict unpacking')
            kk = self.eval(k, frame)
            if is_z3(kk):
                raise Unsupported('dict literal with symbolic key')
            d[kk] = self.eval(v, frame)
        return d

    def ex_JoinedStr(self, node, frame):
        return '<fstring>'

    def ex_Lambda(self, node, frame):
        return Closure(node, frame, frame.module, frame.qualname + '.<lambda>', frame.cls, defaults=self.eval_defaults(node, frame))

    def ex_IfExp(self, node, frame):
        if self.branch(self.eval(node.test, frame), 'ifexp@%d' % node.lineno):
            return self.eval(node.body, frame)
        return self.eval(node.orelse, frame)

    def ex_BoolOp(self, node, frame):
        is_and = isinstance(node.op, ast.And)
        v = None
        for e in node.values:
            v = self.eval(e, frame)
            t = self.branch(v, 'boolop@%d' % node.lineno)
            if is_z3(v) and z3.is_bool(v):
                v = t
            if is_and and not t:
                return v
            if not is_and and t:
                return v
        return v

    def ex_UnaryOp(self, node, frame):
        v = self.eval(node.operand, frame)
        if isinstance(node.op, ast.Not):
            t = self.truth(v)
            return (not t) if isinstance(t, bool) else z3.Not(t)
        if isinstance(node.op, ast.USub):
            if hasattr(v, 'pv_binop'):
                return v.pv_binop(self, 'mul', -1)
            if isinstance(v, Seq):
                return Seq(v.length, (lambda s: lambda i: self.binop(ast.Sub(), 0, s.fn(i)))(v.copy()), v.kind)
            if isinstance(v, Cx):
                return Cx(-v.re, -v.im)
            if isinstance(v, (int,)) and not isinstance(v, bool):
                return -v
            if is_v(v):
                return uf('neg', v)
            return -to_z3(v) if not is_bool(v) else -to_int(v)
        if isinstance(node.op, ast.UAdd):
            return v
        raise Unsupported('unary op')

    def ex_BinOp(self, node, frame):
        a = self.eval(node.left, frame)
        b = self.eval(node.right, frame)
        return self.binop(node.op, a, b)

    def binop(self, op, a, b):
        from . import lib
        return lib.binop(self, op, a, b)

    def ex_Compare(self, node, frame):
        left = self.eval(node.left, frame)
        result = None
        for op, rn in zip(node.ops, node.comparators):
            right = self.eval(rn, frame)
            c = self.compare(op, left, right)
            if len(node.ops) == 1:
                return c
            # chained comparison: short-circuit by branching
            if not self.branch(c, 'cmpchain@%d' % node.lineno):
                return False
            result = True
            left = right
        return result

    def compare(self, op, a, b):
        from . import lib
        return lib.compare(self, op, a, b)

    def ex_Attribute(self, node, frame):
        o = self.eval(node.value, frame)
        return self.getattr(o, node.attr)

    def getattr(self, o, attr):
        from . import lib
        return lib.getattr_(self, o, attr)

    def ex_Subscript(self, node, frame):
        o = self.eval(node.value, frame)
        idx = self.eval_index(node.slice, frame)
        from . import lib
        return lib.getitem(self, o, idx)

    def eval_index(self, sl, frame):
        if isinstance(sl, ast.Slice):
            return SliceVal(self.eval(sl.lower, frame) if sl.lower else None,
                            self.eval(sl.upper, frame) if sl.upper else None,
                            self.eval(sl.step, frame) if sl.step else None)
        if isinstance(sl, ast.Tuple):
            return tuple(self.eval_index(e, frame) for e in sl.elts)
        return self.eval(sl, frame)

    def ex_Slice(self, node, frame):
        return self.eval_index(node, frame)

    def ex_Starred(self, node, frame):
        raise Unsupported('starred expression')

    def iter_concrete(self, v):
        items = self.iter_values(v)
        if not isinstance(items, list):
            raise Unsupported('star-unpacking of symbolic-length sequence')
        return items

    def ex_Call(self, node, frame):
        # super()
        if isinstance(node.func, ast.Name) and node.func.id == 'super' and not node.args:
            ok, selfv = frame.lookup('self')
            f = frame
            while f is not None and f.cls is None:
                f = f.parent
            if not ok or f is None:
                raise Unsupported('super() outside method')
            return SuperProxy(selfv, f.cls)
        fn = self.eval(node.func, frame)
        args = []
        for a in node.args:
            if isinstance(a, ast.Starred):
                args.extend(self.iter_concrete(self.eval(a.value, frame)))
            else:
                args.append(self.eval(a, frame))
        kwargs = {}
        for k in node.keywords:
            if k.arg is None:
                d = self.eval(k.value, frame)
                if not isinstance(d, dict):
                    raise Unsupported('** of non-dict')
                kwargs.update(d)
            else:
                kwargs[k.arg] = self.eval(k.value, frame)
        hook = self.registry.call_hook if self.registry else None
        if hook is not None:
            r = hook(self, node, frame, fn, args, kwargs)
            if r is not None:
                return r[0]
        return self.call(fn, args, kwargs)

    def comprehension(self, node, frame, elt_eval):
        """list/generator comprehension.  Concrete spines are unrolled; a single generator
        over a symbolic-length sequence becomes a lambda-sequence (the element expression
        is re-evaluated at every index it is read at; it must be effect free apart from
        calls to uninterpreted callables)."""
        gens = node.generators
        out = []

        def rec(gi, fr):
            if gi == len(gens):
                out.append(elt_eval(fr))
                return
            g = gens[gi]
            if g.is_async:
                raise Unsupported('async comprehension')
            itv = self.eval(g.iter, fr)
            items = itv.pull() if isinstance(itv, LazyIter) else self.iter_values(itv)
            if not isinstance(items, list) and not isinstance(itv, LazyIter):
                raise _SymbolicGen(items)
            for v in items:
                f2 = Frame(fr.module, parent=fr, func=fr.func, cls=fr.cls, qualname=fr.qualname)
                self.assign(g.target, v, f2)
                ok = True
                for cond in g.ifs:
                    if not self.branch(self.eval(cond, f2), 'compif'):
                        ok = False
                        break
                if ok:
                    rec(gi + 1, f2)
        try:
            rec(0, frame)
            return out
        except _SymbolicGen as sg:
            if len(gens) != 1 or gens[0].ifs or out:
                raise Unsupported('comprehension over symbolic-length sequence with filters/nesting')
            seq = sg.seq
            g = gens[0]
            interp = self

            def fn(i, seq=seq, g=g, frame=frame):
                f2 = Frame(frame.module, parent=frame, func=frame.func, cls=frame.cls,
                           qualname=frame.qualname)
                interp.assign(g.target, seq.fn(i), f2)
                return elt_eval(f2)
            # evaluate once at a fresh index so that effects (may-raise forks) of the
            # element expression are accounted for exactly once
            probe = fresh_int('ci')
            if self.decide(seq.length > 0, 'comp-nonempty'):
                self.add_pc(z3.And(probe >= 0, probe < seq.length))
                fn(probe)
            self.flags.add('COMPREHENSION_MAP')
            return Seq(seq.length, _quiet(self, fn), 'list')

    def ex_ListComp(self, node, frame):
        return self.comprehension(node, frame, lambda fr: self.eval(node.elt, fr))

    def ex_GeneratorExp(self, node, frame):
        """the outermost iterable is evaluated when the generator object is created (as python does); over a concrete spine the
        elements are produced lazily (LazyIter); over a symbolic-length sequence the element expression is a map (see comprehension)"""
        gens = node.generators
        if any(g.is_async for g in gens):
            raise Unsupported('async comprehension')
        first = self.eval(gens[0].iter, frame)
        items0 = first.pull() if isinstance(first, LazyIter) else self.iter_values(first)
        if not isinstance(items0, list) and not isinstance(first, LazyIter):
            return self.comprehension(node, frame, lambda fr: self.eval(node.elt, fr))
        interp = self

        def produce():
            def rec(gi, fr, items):
                g = gens[gi]
                for v in items:
                    f2 = Frame(fr.module, parent=fr, func=fr.func, cls=fr.cls, qualname=fr.qualname)
                    interp.assign(g.target, v, f2)
                    if not all(interp.branch(interp.eval(cond, f2), 'compif') for cond in g.ifs):
                        continue
                    if gi + 1 == len(gens):
                        yield interp.eval(node.elt, f2)
                    else:
                        nxt = interp.eval(gens[gi + 1].iter, f2)
                        nitems = nxt.pull() if isinstance(nxt, LazyIter) else interp.iter_values(nxt)
                        if not isinstance(nitems, list) and not isinstance(nxt, LazyIter):
                            raise Unsupported('generator expression nested over a symbolic-length sequence')
                        yield from rec(gi + 1, f2, nitems)
            yield from rec(0, frame, items0)
        return LazyIter(produce(), 'expression at line %d' % node.lineno)

    def ex_DictComp(self, node, frame):
        pairs = self.comprehension(node, frame, lambda fr: (self.eval(node.key, fr), self.eval(node.value, fr)))
        if not isinstance(pairs, list):
            raise Unsupported('dict comprehension over symbolic sequence')
        return dict(pairs)


class _SymbolicGen(Exception):
    def __init__(self, seq):
        self.seq = seq


def _quiet(interp, fn):
    """re-evaluation of a comprehension element at another index must not fork again:
    decisions inside are taken silently the same way as at the probe (may-raise forks of
    uninterpreted callables are 'no raise' — the raising alternative was explored at the
    probe index)."""
    def wrapped(i):
        interp.hidden_decisions += 1
        try:
            return fn(i)
        finally:
            interp.hidden_decisions -= 1
    return wrapped


def _load(target):
    import copy
    t = copy.copy(target)
    t.ctx = ast.Load()
    return t
