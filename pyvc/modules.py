"""Mechanical extraction: parse /repo/oqupy on every run, resolve names, hash targets.

Nothing of the repository is copied by hand; the interpreter walks these ASTs.
"""
import ast
import hashlib
import os

REPO = os.environ.get('PYVC_REPO', '/repo')
PKG = 'oqupy'


class ModuleRef:
    """reference to an external (library) module or attribute chain, e.g. numpy.linalg."""

    def __init__(self, dotted):
        self.dotted = dotted

    def __repr__(self):
        return '<ModuleRef %s>' % self.dotted


class FuncRef:
    """a function defined in the repo (module-level or method)."""

    def __init__(self, module, node, qualname, cls=None):
        self.module, self.node, self.qualname, self.cls = module, node, qualname, cls

    @property
    def name(self):
        return self.node.name

    def __repr__(self):
        return '<FuncRef %s>' % self.qualname


class ClassRef:
    def __init__(self, module, node):
        self.module, self.node = module, node
        self.name = node.name
        self.qualname = module.short + '.' + node.name
        self._methods = None

    def bases(self):
        out = []
        for b in self.node.bases:
            if isinstance(b, ast.Name):
                r = self.module.lookup(b.id)
                if isinstance(r, ClassRef):
                    out.append(r)
        return out

    def mro(self):
        seen, order = set(), []

        def visit(c):
            if c.qualname in seen:
                return
            seen.add(c.qualname)
            order.append(c)
            for b in c.bases():
                visit(b)
        visit(self)
        return order

    def own_members(self):
        if self._methods is None:
            self._methods = {}
            for st in self.node.body:
                if isinstance(st, ast.FunctionDef):
                    kind = 'method'
                    for d in st.decorator_list:
                        if isinstance(d, ast.Name) and d.id == 'property':
                            kind = 'property'
                        elif isinstance(d, ast.Name) and d.id == 'staticmethod':
                            kind = 'static'
                        elif isinstance(d, ast.Attribute) and d.attr in ('setter', 'deleter'):
                            kind = d.attr
                    key = st.name if kind in ('method', 'property', 'static') else st.name + '.' + kind
                    fr = FuncRef(self.module, st, self.qualname + '.' + st.name, cls=self)
                    fr.kind = kind
                    self._methods[key] = fr
        return self._methods

    def find(self, name):
        for c in self.mro():
            m = c.own_members().get(name)
            if m is not None:
                return m
        return None

    def is_subclass_of(self, other_name):
        return any(c.name == other_name for c in self.mro()) or \
            other_name in self.all_base_names()

    def all_base_names(self):
        names = set()
        for c in self.mro():
            names.add(c.name)
            for b in c.node.bases:
                if isinstance(b, ast.Name):
                    names.add(b.id)
        return names

    def __repr__(self):
        return '<ClassRef %s>' % self.qualname


class Module:
    def __init__(self, repo, short, path):
        self.repo, self.short, self.path = repo, short, path
        self.source = open(path).read()
        self.tree = ast.parse(self.source)
        self.names = {}
        for st in self.tree.body:
            if isinstance(st, ast.FunctionDef):
                self.names[st.name] = FuncRef(self, st, short + '.' + st.name)
            elif isinstance(st, ast.ClassDef):
                self.names[st.name] = ClassRef(self, st)
            elif isinstance(st, ast.Import):
                for a in st.names:
                    if a.asname:
                        self.names[a.asname] = ('import', a.name)
                    else:
                        self.names[a.name.split('.')[0]] = ('import', a.name.split('.')[0])
            elif isinstance(st, ast.ImportFrom):
                for a in st.names:
                    self.names[a.asname or a.name] = ('from', st.module, a.name)
            elif isinstance(st, ast.Assign) and len(st.targets) == 1 and \
                    isinstance(st.targets[0], ast.Name):
                self.names[st.targets[0].id] = ('assign', st.value)

    def lookup(self, name, _depth=0):
        ent = self.names.get(name)
        if ent is None:
            return None
        if isinstance(ent, (FuncRef, ClassRef)):
            return ent
        if ent[0] == 'import':
            return ModuleRef(ent[1])
        if ent[0] == 'from':
            mod, attr = ent[1], ent[2]
            if mod and (mod == PKG or mod.startswith(PKG + '.')):
                m = self.repo.module(mod[len(PKG) + 1:] if mod != PKG else '__init__')
                if m is not None and _depth < 5:
                    r = m.lookup(attr, _depth + 1)
                    if r is not None:
                        return r
                sub = self.repo.module((mod[len(PKG) + 1:] + '.' if mod != PKG else '') + attr)
                if sub is not None:
                    return ('repomodule', sub)
            return ModuleRef((mod or '') + '.' + attr)
        if ent[0] == 'assign':
            return ('const', ent[1], self)
        return None


class Repo:
    def __init__(self, root=None):
        self.root = root or REPO
        self._mods = {}

    def module(self, short):
        if short in self._mods:
            return self._mods[short]
        path = os.path.join(self.root, PKG, *short.split('.')) + '.py'
        if not os.path.exists(path):
            self._mods[short] = None
            return None
        m = Module(self, short, path)
        self._mods[short] = m
        return m

    def resolve(self, qualname):
        """'system_dynamics._parse_times' | 'control.Control.add_single' |
        'backends.tempo_backend.TempoBackend.compute_step' -> FuncRef / ClassRef"""
        parts = qualname.split('.')
        for k in range(len(parts) - 1, 0, -1):
            m = self.module('.'.join(parts[:k]))
            if m is None:
                continue
            rest = parts[k:]
            ent = m.names.get(rest[0])
            if isinstance(ent, FuncRef) and len(rest) == 1:
                return ent
            if isinstance(ent, ClassRef):
                if len(rest) == 1:
                    return ent
                if len(rest) == 2:
                    f = ent.own_members().get(rest[1])
                    if f is not None:
                        return f
            return None
        return None


def nested_function(funcref, name, ordinal=0):
    """FunctionDef nested inside funcref (closure), n-th with that name in source order."""
    found = [n for n in ast.walk(funcref.node)
             if isinstance(n, ast.FunctionDef) and n.name == name and n is not funcref.node]
    found.sort(key=lambda n: (n.lineno, n.col_offset))
    return found[ordinal] if ordinal < len(found) else None


def source_hash(funcref):
    """sha256 of the normalised source (ast.dump without positions/docstring)."""
    node = funcref.node if hasattr(funcref, 'node') else funcref
    return hashlib.sha256(ast.dump(node, include_attributes=False).encode()).hexdigest()[:16]


def describe(funcref):
    node = funcref.node
    return {'name': funcref.qualname,
            'file': os.path.relpath(funcref.module.path, funcref.module.repo.root),
            'lines': [node.lineno, node.end_lineno],
            'sha256_16': source_hash(funcref)}
