"""Thread-modular (Owicki-Gries / monitor style) obligations for util.ProgressBar  (C19).

Atomicity assumption (stated in the evidence): one top-level statement of a method is one
atomic action under the GIL; a `with self._lock:` statement is one atomic action (mutual
exclusion by the lock).  The timer callback (`update` without arguments, `_print_status`)
may run between any two actions of the calling thread and vice versa.

Ghost state:   cur.armed    the timer currently referenced by self._timer is armed
               other_armed  some timer created by this object that is no longer referenced
                            is still armed (a "lost" timer nobody can cancel)
               exited       exit() has completed its cancelling action
GI (global invariant):      not other_armed
Q  (assertion after exit):  exited  =>  not cur.armed and not other_armed

Obligations, per atomic action A of every method that can run on the timer thread, and of
the caller's update:   {GI} A {GI}   and   {GI and Q and exited} A {Q}
plus the sequential ones: enter establishes GI, exit establishes Q.
"""
import ast
import time
import z3

from .values import Obj, Unsupported, PyRaise, ExcVal, fresh_bool, to_z3, NONE
from .interp import Interp, Frame, ReturnSignal
from .engine import Registry, model, discharge
from .modules import Repo, describe
from . import values as Vv


def _registry():
    R = Registry()

    @model
    def timer_ctor(ip, args, kw):
        t = Obj('TimerM', {'armed': z3.BoolVal(False), 'callback': args[1] if len(args) > 1 else None})
        ip.ghost.setdefault('timers_created', []).append(t)
        return t

    @model
    def t_start(ip, args, kw):
        args[0].fields['armed'] = z3.BoolVal(True)

    @model
    def t_cancel(ip, args, kw):
        args[0].fields['armed'] = z3.BoolVal(False)

    @model
    def lock_ctor(ip, args, kw):
        return Obj('LockM', {})

    @model
    def noop(ip, args, kw):
        return None

    @model
    def time_(ip, args, kw):
        return z3.Real('now')
    R.lib_models['threading.Timer'] = timer_ctor
    R.lib_models['threading.Lock'] = lock_ctor
    R.lib_models['threading.RLock'] = lock_ctor
    R.models['TimerM.start'] = t_start
    R.models['TimerM.cancel'] = t_cancel
    R.models['LockM.__enter__'] = noop
    R.models['LockM.__exit__'] = noop
    R.models['LockM.acquire'] = noop
    R.models['LockM.release'] = noop
    R.lib_models['time.time'] = time_
    R.lib_models['datetime.timedelta'] = noop
    @model
    def f_write(ip, args, kw):
        ip.ghost['writes'] = ip.ghost.get('writes', 0) + 1
    R.models['FileM.write'] = f_write
    R.models['FileM.flush'] = noop
    return R


class ObjState:
    """arbitrary ProgressBar state (all shared fields symbolic)"""

    def __init__(self, repo, tag=''):
        cls = repo.resolve('util.ProgressBar')
        self.cur_armed = z3.Bool('cur_armed' + tag)
        self.other_armed = z3.Bool('other_armed' + tag)
        self.exited = z3.Bool('exited' + tag)
        self.timer = Obj('TimerM', {'armed': self.cur_armed})
        fields = {'_timer': self.timer, '_start_time': z3.Real('t_start'), '_file': Obj('FileM', {}),
                  'max_value': z3.Int('max_value'), 'title': None, '_length': z3.IntVal(40), '_step': z3.Int('step_now')}
        self.obj = Obj(cls, fields)
        self.cls = cls


def _set_ghost_fields(st, extra):
    # fields introduced by a repair (lock / closed flag), if the class has them
    init = st.cls.find('__init__')
    names = {n.attr for n in ast.walk(init.node) if isinstance(n, ast.Attribute) and isinstance(n.ctx, ast.Store)}
    for n in names:
        if n in st.obj.fields:
            continue
        if 'lock' in n.lower():
            st.obj.fields[n] = Obj('LockM', {})
        elif 'clos' in n.lower() or 'exit' in n.lower() or 'done' in n.lower() or 'stop' in n.lower():
            st.obj.fields[n] = st.exited          # representation: the flag mirrors `exited`
            st.flag = n
        else:
            st.obj.fields[n] = extra.get(n, z3.Int('f_' + n))


LOCK_DISCIPLINE = {'ok': True}


def _is_lock_with(st):
    if not isinstance(st, ast.With) or len(st.items) != 1:
        return False
    e = st.items[0].context_expr
    return isinstance(e, ast.Attribute) and isinstance(e.value, ast.Name) and e.value.id == 'self' \
        and 'lock' in e.attr.lower()


def _touches_shared(node, shared):
    return any(isinstance(n, ast.Attribute) and isinstance(n.value, ast.Name) and n.value.id == 'self'
               and n.attr in shared for n in ast.walk(node))


def lock_discipline(cls, shared, methods):
    """True iff every access to a shared field in the given methods is inside `with self.<lock>:`."""
    def ok(stmts):
        for st in stmts:
            if _is_lock_with(st):
                continue
            if isinstance(st, (ast.If, ast.For, ast.While, ast.With, ast.Try)):
                hdr = [getattr(st, 'test', None), getattr(st, 'iter', None)]
                if any(h is not None and _touches_shared(h, shared) for h in hdr):
                    return False
                for blk in ('body', 'orelse', 'finalbody'):
                    if not ok(getattr(st, blk, []) or []):
                        return False
                for h in getattr(st, 'handlers', []) or []:
                    if not ok(h.body):
                        return False
                continue
            if _touches_shared(st, shared):
                return False
        return True
    return all(ok(cls.find(m).node.body) for m in methods if cls.find(m) is not None)


def _actions(method_node):
    """atomic actions: top-level statements (docstring dropped).  A `with self._lock:` block
    is ONE action only if the lock discipline holds for the class; otherwise its statements
    are separate actions."""
    body = method_node.body
    if body and isinstance(body[0], ast.Expr) and isinstance(body[0].value, ast.Constant):
        body = body[1:]
    if LOCK_DISCIPLINE['ok']:
        return body
    flat = []
    for st in body:
        if _is_lock_with(st):
            flat.extend(st.body)
        else:
            flat.append(st)
    return flat


def timer_callbacks(cls):
    """names of the methods of the class that are handed to a Timer as its callback: Timer(<interval>, self.<name>)"""
    names = []
    for member in cls.own_members().values():
        node = getattr(member, 'node', None)
        if node is None:
            continue
        for c in ast.walk(node):
            if isinstance(c, ast.Call) and (getattr(c.func, 'id', None) == 'Timer' or getattr(c.func, 'attr', None) == 'Timer'):
                cb = c.args[1] if len(c.args) > 1 else next((k.value for k in c.keywords if k.arg == 'function'), None)
                if isinstance(cb, ast.Attribute) and isinstance(cb.value, ast.Name) and cb.value.id == 'self':
                    if cb.attr not in names:
                        names.append(cb.attr)
                elif cb is not None:
                    names.append(None)          # a callback this analysis cannot name
    return names


def _run_action(repo, R, method, stmt_idx, pre, post_name, post, timeout_ms, with_step, no_write=False):
    """execute ONE atomic action of `method` from an arbitrary state satisfying `pre`."""
    results = []
    work = [[]]
    while work:
        prefix = work.pop()
        Vv.reset_fresh()
        ip = Interp(repo, R, prefix, solver_timeout_ms=timeout_ms)
        st = ObjState(repo)
        st.flag = None
        _set_ghost_fields(st, {})
        ip.add_pc(pre(st))
        frame = Frame(method.module, func=method.node, cls=method.cls, qualname=method.qualname)
        frame.vars['self'] = st.obj
        frame.vars['step'] = z3.Int('step_arg') if with_step else None
        stmts = _actions(method.node)
        try:
            # locals: run the statements before the action (their effect on the shared state
            # is discarded: the shared fields are re-havocked to an arbitrary `pre` state,
            # which models every interleaving of the other thread before this action)
            try:
                for k in range(stmt_idx):
                    ip.exec_stmt(stmts[k], frame)
            except (ReturnSignal, PyRaise):
                work.extend(ip.new_forks)
                continue
            if stmt_idx > 0:
                st2 = ObjState(repo, tag='_b')
                st2.flag = None
                for fname in ('_timer', '_step'):
                    st.obj.fields[fname] = st2.obj.fields[fname]
                st.cur_armed, st.other_armed, st.exited, st.timer = st2.cur_armed, st2.other_armed, st2.exited, st2.timer
                if st.flag:
                    st.obj.fields[st.flag] = st2.exited
                ip.add_pc(pre(st))
            before_timer = st.obj.fields['_timer']
            ip.ghost['writes'] = 0
            try:
                ip.exec_stmt(stmts[stmt_idx], frame)
            except ReturnSignal:
                pass
            except PyRaise:
                pass
            if no_write:
                ip.prove(post_name, z3.BoolVal(ip.ghost.get('writes', 0) == 0), {'writes to the stream by this action': ip.ghost.get('writes', 0)})
                work.extend(ip.new_forks)
                for ob in ip.obligations:
                    results.append(discharge(ob, timeout_ms, None, {'inputs': {'exited': st.exited}}))
                continue
            # ghost update: a replaced timer that is still armed becomes a lost one
            now = st.obj.fields['_timer']
            cur = now.fields['armed'] if isinstance(now, Obj) else z3.BoolVal(False)
            other = st.other_armed
            if now is not before_timer:
                other = z3.Or(other, to_z3(before_timer.fields['armed']))
            exited = st.obj.fields[st.flag] if st.flag else st.exited
            ip.prove(post_name, post(to_z3(cur), to_z3(other), to_z3(exited)))
        except Vv.Infeasible:
            pass
        work.extend(ip.new_forks)
        for ob in ip.obligations:
            results.append(discharge(ob, timeout_ms, None, {'inputs': {'cur_armed': st.cur_armed, 'other_armed': st.other_armed, 'exited': st.exited}}))
    return results


class RgTarget:
    name = 'rg/ProgressBar'

    def run(self, timeout_ms, tier):
        t0 = time.time()
        repo = Repo()
        R = _registry()
        cls = repo.resolve('util.ProgressBar')
        res = {'target': self.name, 'function': 'util.ProgressBar.update/exit/enter/_print_status', 'property': 'C19',
               'paths': 0, 'obligations': [], 'undecided': [], 'errors': [], 'flags': ['ATOMIC_STATEMENTS_UNDER_GIL'],
               'lib_pure': [], 'lib_used': ['threading.Timer (start arms, cancel disarms, fires once)', 'threading.Lock (mutual exclusion)'],
               'functions_extra': []}
        if cls is None:
            res['undecided'].append('contract target missing: util.ProgressBar')
            return res
        init = cls.find('__init__')
        flag = [n.attr for n in ast.walk(init.node) if isinstance(n, ast.Attribute) and isinstance(n.ctx, ast.Store)
                and any(w in n.attr.lower() for w in ('clos', 'exit', 'done', 'stop'))]
        shared = {'_timer'} | set(flag)
        LOCK_DISCIPLINE['ok'] = lock_discipline(cls, shared, ['update', 'exit', '_print_status'])
        res['lock_discipline'] = LOCK_DISCIPLINE['ok']
        GI = lambda c, o, e: z3.Not(o)
        Q = lambda c, o, e: z3.Implies(e, z3.And(z3.Not(c), z3.Not(o)))
        try:
            for mname, with_step in (('update', False), ('update', True), ('_print_status', False)):
                m = cls.find(mname)
                res['functions_extra'].append(describe(m))
                n = len(_actions(m.node))
                for i in range(n):
                    who = 'callback' if not with_step else 'caller'
                    tag = '%s#%d[%s]' % (mname, i, who)
                    # {GI} A {GI}: no action ever loses an armed timer
                    res['obligations'] += _run_action(repo, R, m, i, lambda st: z3.Not(st.other_armed),
                                                      'prog/no-lost-timer/' + tag, GI, timeout_ms, with_step)
                    if not with_step:
                        # {GI and Q and exited} A {Q}: the callback cannot re-arm after exit()
                        res['obligations'] += _run_action(
                            repo, R, m, i,
                            lambda st: z3.And(z3.Not(st.other_armed), st.exited, z3.Not(st.cur_armed)),
                            'prog/no-timer-after-exit/' + tag, Q, timeout_ms, with_step)
            # nothing is written by the timer thread once exit() has closed the object: every atomic action of every method
            # that is handed to a Timer as its callback, started in a state where exit() has completed, writes nothing
            cbs = timer_callbacks(cls)
            for cb in cbs:
                if cb is None or cls.find(cb) is None:
                    res['undecided'].append('a Timer callback of ProgressBar is not a method of the object')
                    continue
                m = cls.find(cb)
                for i in range(len(_actions(m.node))):
                    res['obligations'] += _run_action(repo, R, m, i, lambda st: z3.And(z3.Not(st.other_armed), st.exited, z3.Not(st.cur_armed)),
                                                      'prog/no-write-after-exit/%s#%d[callback]' % (cb, i), None, timeout_ms, False, no_write=True)
            if not cbs:
                res['undecided'].append('no Timer callback found in ProgressBar')
            # exit(): its cancelling action establishes Q (from GI); later actions preserve it
            m = cls.find('exit')
            res['functions_extra'].append(describe(m))
            acts = _actions(m.node)
            res['obligations'] += self._exit_establishes(repo, R, m, timeout_ms)
            # the context-manager protocol: leaving the `with` block by normal exit AND by an exception
            # must leave the object closed (the timer callback is turned away) with no armed timer
            mx = cls.find('__exit__')
            if mx is not None:
                res['functions_extra'].append(describe(mx))
                from .interp import ExcClass
                from .values import ExcVal as EV
                res['obligations'] += self._exit_establishes(repo, R, mx, timeout_ms, args=[None, None, None],
                                                             name='prog/context-exit-cancels[normal]')
                res['obligations'] += self._exit_establishes(repo, R, mx, timeout_ms,
                                                             args=[ExcClass('UserError'), EV('UserError', ()), None],
                                                             name='prog/context-exit-cancels[exception]')
            # entering: when __enter__ fails (writing to the terminal may fail: closed stream, a value that cannot be
            # formatted), the `with` statement never calls __exit__, so nothing armed may be left behind; when it
            # succeeds exactly the current timer is armed
            me = cls.find('__enter__')
            if me is not None:
                res['functions_extra'].append(describe(me))
                res['obligations'] += self._enter_failure(repo, cls, me, timeout_ms)
            res['paths'] = len(res['obligations'])
        except Unsupported as u:
            res['undecided'].append('unsupported construct: %s' % u)
        for ob in res['obligations']:
            ob.setdefault('flags', []).append('ATOMIC_STATEMENTS_UNDER_GIL')
        res['seconds'] = round(time.time() - t0, 3)
        return res

    def _exit_establishes(self, repo, R, m, timeout_ms, args=(), name='prog/exit-cancels'):
        """run the whole exit() sequentially from any GI state: afterwards no timer is armed
        and (if the class has a closed flag) the flag is set."""
        out = []
        work = [[]]
        while work:
            prefix = work.pop()
            Vv.reset_fresh()
            ip = Interp(repo, R, prefix, solver_timeout_ms=timeout_ms)
            st = ObjState(repo)
            st.flag = None
            _set_ghost_fields(st, {})
            if st.flag:
                st.obj.fields[st.flag] = z3.BoolVal(False)
            ip.add_pc(z3.Not(st.other_armed))
            try:
                try:
                    ip.call(m, [st.obj] + list(args), {})
                except PyRaise:
                    pass
                now = st.obj.fields['_timer']
                cur = now.fields['armed']
                ok = z3.Not(to_z3(cur))
                if st.flag:
                    ok = z3.And(ok, to_z3(st.obj.fields[st.flag]))
                elif not LOCK_DISCIPLINE['ok'] or True:
                    pass
                ip.prove(name, ok)
            except Vv.Infeasible:
                pass
            work.extend(ip.new_forks)
            for ob in ip.obligations:
                out.append(discharge(ob, timeout_ms, None, {}))
        return out

    def _enter_failure(self, repo, cls, m, timeout_ms):
        from .engine import model
        out = []
        R = _registry()

        @model
        def io_may_fail(ip, args, kw):
            if ip.may_raise('output-fails'):
                raise PyRaise(Vv.ExcVal('ValueError', ('output',)))
            return None
        R.models['FileM.write'] = io_may_fail
        R.models['FileM.flush'] = io_may_fail
        from .interp import Builtin
        R.overrides[('util', 'print')] = Builtin('print', io_may_fail.__wrapped__ if hasattr(io_may_fail, '__wrapped__') else io_may_fail)
        work = [[]]
        while work:
            prefix = work.pop()
            Vv.reset_fresh()
            ip = Interp(repo, R, prefix, solver_timeout_ms=timeout_ms)
            try:
                o = ip.call(cls, [z3.Int('max_value'), '<title>'], {})
                o.fields['_file'] = Obj('FileM', {})
                raised = False
                try:
                    ip.call(m, [o], {})
                except PyRaise:
                    raised = True
                timers = ip.ghost.get('timers_created', [])
                armed = [to_z3(t.fields['armed']) for t in timers]
                if raised:
                    ip.prove('prog/enter-failure-leaves-no-timer', z3.Not(z3.Or(armed)) if armed else z3.BoolVal(True))
                else:
                    cur = o.fields.get('_timer')
                    others = [to_z3(t.fields['armed']) for t in timers if t is not cur]
                    ip.prove('prog/enter-arms-one-timer', z3.And(z3.BoolVal(isinstance(cur, Obj)),
                                                                 to_z3(cur.fields['armed']) if isinstance(cur, Obj) else z3.BoolVal(False),
                                                                 z3.Not(z3.Or(others)) if others else z3.BoolVal(True)))
            except Vv.Infeasible:
                pass
            work.extend(ip.new_forks)
            for ob in ip.obligations:
                out.append(discharge(ob, timeout_ms, None, {}))
        return out

    def replay(self, ob):
        if 'no-write-after-exit' in ob['name']:
            return {'func': 'stale_write', 'inputs': {'obligation': ob['name']}}
        if 'enter' in ob['name']:
            return {'func': 'enter_failure', 'inputs': {'obligation': ob['name']}}
        return {'func': 'timer_race', 'inputs': {'obligation': ob['name']}}
