"""Replay a stored counter-model on the real code (run with /venv/bin/python, PYTHONPATH=/repo).

exit 1: the real code violates the obligation on this input (counterexample confirmed)
exit 0: the real code satisfies it on this input
exit 2: the replay could not be run
"""
import importlib
import json
import os
import sys
import traceback
from fractions import Fraction

sys.path.insert(0, os.path.dirname(os.path.dirname(os.path.abspath(__file__))))


def num(x):
    """decode a model value: int | {'num','den'} -> float"""
    if isinstance(x, dict) and 'num' in x:
        return float(Fraction(x['num'], x['den']))
    return x


def main():
    doc = json.load(open(sys.argv[1]))
    spec = doc.get('replay')
    if not spec:
        print('no replay builder for obligation %s; solver output is in the file' % doc.get('obligation'))
        return 2
    try:
        mod = importlib.import_module('replay.' + doc['property'].lower())
        fn = getattr(mod, spec['func'])
        res = fn(spec.get('inputs', {}))
    except Exception:
        traceback.print_exc()
        return 2
    print(json.dumps(res, indent=1, default=str))
    return 1 if res.get('violates') else 0


if __name__ == '__main__':
    sys.exit(main())
