"""Replay a stored counter-model on the real code (run with /venv/bin/python, PYTHONPATH=/repo).

exit 1: the real code violates the obligation on this input (counterexample confirmed)
exit 0: the real code satisfies it on this input
exit 2: the replay could not be run
"""
import importlib
import json
import os
import sys
import traceback
from fractions import Fraction

sys.path.insert(0, os.path.dirname(os.path.dirname(os.path.abspath(__file__))))


def num(x):
    """decode a model value: int | {'num','den'} -> float"""
    if isinstance(x, dict) and 'num' in x:
        return float(Fraction(x['num'], x['den']))
    return x


def main():
    doc = json.load(open(sys.argv[1]))
    spec = doc.get('replay')
    if not spec:
        print('no replay builder for obligation %s; solver output is in the file' % doc.get('obligation'))
        return 2
    try:
        mod = importlib.import_module('replay.' + doc['property'].lower())
        fn = getattr(mod, spec['func'])
    except Exception:
        traceback.print_exc()
        return 2
    try:
        res = fn(spec.get('inputs', {}))
    except Exception as e:      # noqa
        # The replay inputs are ones the unchanged library accepts (every replay function is run on the unchanged tree by the
        # thorough tier).  An exception raised INSIDE the library on such an input is a failing input; an exception that never
        # enters the library is a problem of the replay itself (exit 2).
        tb = traceback.extract_tb(e.__traceback__)
        inside = [f for f in tb if (os.sep + 'oqupy' + os.sep) in f.filename and (os.sep + 'replay' + os.sep) not in f.filename]
        traceback.print_exc()
        if not inside:
            return 2
        res = {'violates': True, 'the library raised on an input of the replay': type(e).__name__ + ': ' + str(e)[:200],
               'raised in': '%s:%d (%s)' % (inside[-1].filename, inside[-1].lineno, inside[-1].name)}
    print(json.dumps(res, indent=1, default=str))
    return 1 if res.get('violates') else 0


if __name__ == '__main__':
    sys.exit(main())
