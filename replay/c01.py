"""Replays for C01 on the real code: independent-boson model (H_S commutes with the coupling
operator): TEMPO and PT-TEMPO + compute_dynamics against the analytic solution assembled from
the 2-D integrals of the bath correlation function, with the documented meaning of dkmax /
add_correlation_time."""
import numpy as np


def _phi(corr, n, dt, K, tau, epsrel=1e-9):
    """sum over the grid cells m >= m' of the first n steps (documented memory settings)"""
    tot = 0.0 + 0.0j
    for m in range(n):
        for mp in range(m + 1):
            d = m - mp
            if d == 0:
                tot += corr.correlation_2d_integral(dt, 0.0, shape='upper-triangle', epsrel=epsrel)
            elif K is None or d < K:
                tot += corr.correlation_2d_integral(dt, d * dt, shape='square', epsrel=epsrel)
            elif d == K:
                if tau is None:
                    tot += corr.correlation_2d_integral(dt, K * dt, shape='square', epsrel=epsrel)
                else:
                    t2 = K * dt + min((mp + 1) * dt, dt + tau)
                    tot += corr.correlation_2d_integral(dt, K * dt, time_2=t2, shape='rectangle', epsrel=epsrel)
    return tot


def independent_boson(inp):
    import oqupy
    bad = []
    o = np.array([0.5, -0.5, 0.2])
    E = np.array([0.3, -0.1, 0.4])
    O, H = np.diag(o), np.diag(E)
    rng = np.random.default_rng(4)
    a = rng.normal(size=(3, 3)) + 1j * rng.normal(size=(3, 3))
    rho0 = a @ a.conj().T
    rho0 /= np.trace(rho0)
    corr = oqupy.PowerLawSD(alpha=0.25, zeta=1.0, cutoff=2.5, cutoff_type='exponential', temperature=0.4)
    dt, N = 0.2, 6
    for K, tau in ((None, None), (2, None), (2, 0.0), (3, 0.25), (2, np.inf), (8, None), ('tcut=0.5', np.inf), ('tcut=0.33', 0.25)):
        if isinstance(K, str):
            # memory given as a cutoff TIME that is not a multiple of dt: the memory length is dkmax = round(tcut/dt) steps
            par = oqupy.TempoParameters(dt=dt, tcut=float(K.split('=')[1]), epsrel=1e-9, add_correlation_time=tau)
            K = par.dkmax
        else:
            par = oqupy.TempoParameters(dt=dt, dkmax=K, epsrel=1e-9, add_correlation_time=tau)
        bath = oqupy.Bath(O, corr)
        sys_ = oqupy.System(H)
        d1 = oqupy.Tempo(sys_, bath, par, rho0, 0.0).compute(N * dt, progress_type='silent')
        pt = oqupy.PtTempo(bath, 0.0, N * dt, par).get_process_tensor(progress_type='silent')
        d2 = oqupy.compute_dynamics(sys_, initial_state=rho0, process_tensor=pt, progress_type='silent')
        for n in range(N + 1):
            phi = _phi(corr, n, dt, K, tau)
            want = np.empty((3, 3), complex)
            for i in range(3):
                for j in range(3):
                    dm, dp = o[i] - o[j], o[i] + o[j]
                    want[i, j] = rho0[i, j] * np.exp(-1j * (E[i] - E[j]) * n * dt) * np.exp(-dm * (dm * phi.real + 1j * dp * phi.imag))
            for name, d in (('TEMPO', d1), ('PT-TEMPO', d2)):
                err = float(np.abs(np.array(d.states[n]) - want).max())
                if err > 2e-6:
                    bad.append({'method': name, 'dkmax': K, 'add_correlation_time': tau, 'step': n, 'max_error': err})
    # the same commuting pair written in another basis (real rotation, generic complex unitary), full memory: V rho(t) V^+
    from replay.c05 import _haar
    K, tau = None, None
    par = oqupy.TempoParameters(dt=dt, dkmax=K, epsrel=1e-9)
    q, _ = np.linalg.qr(rng.normal(size=(3, 3)))
    for label, V in (('real rotation', q), ('complex unitary', _haar(3, rng))):
        Ov = V @ O @ V.conj().T
        bath = oqupy.Bath((Ov + Ov.conj().T) / 2, corr)
        sys_ = oqupy.System(V @ H @ V.conj().T)
        r0 = V @ rho0 @ V.conj().T
        d1 = oqupy.Tempo(sys_, bath, par, r0, 0.0).compute(N * dt, progress_type='silent')
        pt = oqupy.PtTempo(bath, 0.0, N * dt, par).get_process_tensor(progress_type='silent')
        d2 = oqupy.compute_dynamics(sys_, initial_state=r0, process_tensor=pt, progress_type='silent')
        for n in range(N + 1):
            phi = _phi(corr, n, dt, K, tau)
            want = np.empty((3, 3), complex)
            for i in range(3):
                for j in range(3):
                    dm, dp = o[i] - o[j], o[i] + o[j]
                    want[i, j] = rho0[i, j] * np.exp(-1j * (E[i] - E[j]) * n * dt) * np.exp(-dm * (dm * phi.real + 1j * dp * phi.imag))
            want = V @ want @ V.conj().T
            for name, d in (('TEMPO', d1), ('PT-TEMPO', d2)):
                err = float(np.abs(np.array(d.states[n]) - want).max())
                if err > 2e-6:
                    bad.append({'method': name, 'basis': label, 'step': n, 'max_error': err})
    return {'violates': bool(bad), 'detail': bad[:4], 'n_bad': len(bad)}


def svd_sweep_parameters(inp):
    """NodeArray.svd_sweep in both directions on random arrays: (a) every SVD of the sweep is asked for the caller's truncation
    parameters (spy on tensornetwork.split_node_full_svd), (b) the kept singular values are exactly those above
    max_truncation_err RELATIVE to the largest one when relative=True, (c) with nothing truncated the contracted array is unchanged"""
    import oqupy.backends.node_array as na
    rng = np.random.default_rng(5)
    bad = []
    real = na.tn.split_node_full_svd
    for n in (2, 3, 4):
        for (fi, ti) in ((0, -1), (-1, 0), (1, n - 1), (n - 1, 0)):
            for scale in (1.0, 1e-4):            # small overall scale: absolute and relative truncation differ
                dims = [1] + [int(rng.integers(2, 4)) for _ in range(n - 1)] + [1]
                tens = [scale * (rng.normal(size=(dims[i], 3, dims[i + 1])) + 1j * rng.normal(size=(dims[i], 3, dims[i + 1]))) for i in range(n)]
                calls = []

                def spy(*a, **k):
                    calls.append(k)
                    return real(*a, **k)
                for eps, rel in ((1e-2, True), (None, False)):
                    arr = na.NodeArray([t.copy() for t in tens], left=True, right=True, name='x')
                    del calls[:]
                    na.tn.split_node_full_svd = spy
                    try:
                        sv = arr.svd_sweep(from_index=fi, to_index=ti, max_singular_values=None, max_truncation_err=eps, relative=rel)
                    except Exception as e:      # noqa
                        bad.append({'sites': n, 'from': fi, 'to': ti, 'the sweep raised': type(e).__name__ + ': ' + str(e)[:100]})
                        continue
                    finally:
                        na.tn.split_node_full_svd = real
                    for k in calls:
                        if k.get('max_truncation_err') != eps or bool(k.get('relative', False)) != rel or k.get('max_singular_values') is not None:
                            bad.append({'sites': n, 'from': fi, 'to': ti, 'asked': {'max_truncation_err': eps, 'relative': rel},
                                        'an SVD of the sweep was called with': {x: repr(k.get(x)) for x in ('max_singular_values', 'max_truncation_err', 'relative')}})
                            break
                    f_, t_ = (n + fi if fi < 0 else fi), (n + ti if ti < 0 else ti)
                    if len(sv) != abs(t_ - f_) or len(calls) != abs(t_ - f_):
                        bad.append({'sites': n, 'from': fi, 'to': ti, 'factorisations': len(calls), 'bonds between from and to': abs(t_ - f_)})
                    if eps is None:
                        try:        # the array must still be usable: sweep back over the whole array
                            arr.svd_sweep(from_index=-1, to_index=0)
                            arr.svd_sweep(from_index=0, to_index=-1)
                            for i, e in enumerate(arr.bond_edges):
                                if {id(e.node1), id(e.node2)} != {id(arr.nodes[i]), id(arr.nodes[i + 1])}:
                                    raise ValueError('bond_edges[%d] does not join nodes[%d] and nodes[%d]' % (i, i, i + 1))
                        except Exception as e:      # noqa
                            bad.append({'sites': n, 'from': fi, 'to': ti, 'the array is inconsistent after the sweep': type(e).__name__ + ': ' + str(e)[:100]})
                            continue
                        full = None
                        for t in tens:
                            full = t if full is None else np.tensordot(full, t, axes=([-1], [0]))
                        nd_, ed_ = na.tn.copy(arr.nodes)
                        c = nd_[arr.nodes[0]]
                        for x in arr.nodes[1:]:
                            c = c @ nd_[x]
                        order = [ed_[arr.left_edge]] + [ed_[e] for es in arr.array_edges for e in es] + [ed_[arr.right_edge]]
                        got = c.reorder_edges(order).tensor
                        if got.shape != full.shape or np.abs(got - full).max() > 1e-10 * scale:
                            bad.append({'sites': n, 'from': fi, 'to': ti, 'the array changed although nothing was truncated': True})
    return {'violates': bool(bad), 'detail': bad[:4], 'n_bad': len(bad)}


def _dense(arr):
    """(dense tensor, legs) of a NodeArray: legs = list of ('L',) / ('A', site, k) / ('R',) in the order of the tensor's axes"""
    import oqupy.backends.node_array as na
    nd_, ed_ = na.tn.copy(arr.nodes)
    c = nd_[arr.nodes[0]]
    for x in arr.nodes[1:]:
        c = c @ nd_[x]
    order, legs = [], []
    if arr.left:
        order.append(ed_[arr.left_edge])
        legs.append(('L',))
    for i, es in enumerate(arr.array_edges):
        for k, e in enumerate(es):
            order.append(ed_[e])
            legs.append(('A', i, k))
    if arr.right:
        order.append(ed_[arr.right_edge])
        legs.append(('R',))
    return c.reorder_edges(order).tensor, legs


def node_array_operations(inp):
    """NodeArray.zip_up / contract / apply_vector / apply_matrix / copy on random arrays, nothing truncated: the array afterwards is
    the dense contraction of the two operands (open legs: left, per site own remaining legs then the other array's, right)"""
    import itertools
    import oqupy.backends.node_array as na
    rng = np.random.default_rng(11)
    bad = []

    def mk(n, rank, left, right, bond=2, phys=3):
        ts = []
        for i in range(n):
            shp = ([bond] if (i > 0 or left) else []) + [phys] * rank + ([bond] if (i < n - 1 or right) else [])
            ts.append(rng.normal(size=shp) + 1j * rng.normal(size=shp))
        return na.NodeArray(ts, left=left, right=right, name='x')

    def expected(A, B, li, ri, keep_b):
        ta, la = _dense(A)
        tb, lb = _dense(B)
        letters = iter('abcdefghijklmnopqrstuvwxyzABCDEFGHIJKLMNOPQRSTUVWXYZ')
        ia = {l: next(letters) for l in la}
        ib = {}
        for l in lb:
            if l[0] == 'A' and l[2] == 0:
                ib[l] = ia[('A', li + l[1], 0)]
            else:
                ib[l] = next(letters)
        out = []
        if ('L',) in ia:
            out.append(ia[('L',)])
        elif ('L',) in ib:
            out.append(ib[('L',)])
        for i in range(len(A)):
            covered = li <= i <= ri
            out += [ia[l] for l in la if l[0] == 'A' and l[1] == i and not (covered and l[2] == 0)]
            if covered and keep_b:
                out += [ib[l] for l in lb if l[0] == 'A' and l[1] == i - li and l[2] != 0]
        if ('R',) in ia:
            out.append(ia[('R',)])
        elif ('R',) in ib:
            out.append(ib[('R',)])
        return np.einsum(''.join(ia[l] for l in la) + ',' + ''.join(ib[l] for l in lb) + '->' + ''.join(out), ta, tb)
    cases = []
    for n, m in ((1, 1), (2, 1), (2, 2), (3, 1), (3, 2), (3, 3), (4, 2)):
        for li in range(0, n - m + 1):
            cases.append((n, m, li))
    for n, m, li in cases:
        ri = li + m - 1
        for op in ('zip_up', 'contract'):
            for direction in ('right', 'left'):
                for (ra, rb) in (((1, 2), (2, 2), (2, 1)) if op == 'zip_up' else ((1, 1),)):
                    for cp in (True, False):
                        if op == 'contract' and ((direction == 'right' and not (ri < n - 1 or (li == 0 and ri == n - 1))) or (direction == 'left' and not li > 0)):
                            continue
                        lb, rb_ = (li == 0), (ri == n - 1)
                        A, B = mk(n, ra, False, False), mk(m, rb, lb, rb_)
                        want = expected(A, B, li, ri, op == 'zip_up')
                        try:
                            if op == 'zip_up':
                                A.zip_up(B, axes=[(0, 0)], left_index=li, right_index=ri, direction=direction, copy=cp)
                            else:
                                A.contract(B, axes=[(0, 0)], left_index=li, right_index=ri, direction=direction, copy=cp)
                            got, _ = _dense(A)
                            for i, e in enumerate(A.bond_edges):
                                if {id(e.node1), id(e.node2)} != {id(A.nodes[i]), id(A.nodes[i + 1])}:
                                    raise ValueError('bond_edges[%d] does not join nodes[%d] and nodes[%d]' % (i, i, i + 1))
                        except Exception as e:      # noqa
                            bad.append({'operation': op, 'sites': n, 'other sites': m, 'left_index': li, 'direction': direction, 'copy': cp,
                                        'raised / inconsistent': type(e).__name__ + ': ' + str(e)[:100]})
                            continue
                        if got.shape != want.shape or np.abs(got - want).max() > 1e-9:
                            bad.append({'operation': op, 'sites': n, 'other sites': m, 'left_index': li, 'direction': direction, 'copy': cp, 'ranks': [ra, rb],
                                        'deviation from the dense contraction': float(np.abs(got - want).max()) if got.shape == want.shape else 'shape'})
    # every SVD of a zip-up carries the caller's truncation parameters (spy on tensornetwork.split_node_full_svd)
    real = na.tn.split_node_full_svd
    for n, m, li in ((3, 3, 0), (5, 5, 0), (6, 4, 1), (6, 6, 0)):
        for direction in ('right', 'left'):
            A, B = mk(n, 1, False, False), mk(m, 2, li == 0, li + m == n)
            calls = []

            def spy(*a, **k):
                calls.append(k)
                return real(*a, **k)
            na.tn.split_node_full_svd = spy
            try:
                A.zip_up(B, axes=[(0, 0)], left_index=li, right_index=li + m - 1, direction=direction, max_singular_values=None,
                         max_truncation_err=1e-3, relative=True)
            finally:
                na.tn.split_node_full_svd = real
            wrong = [k for k in calls if k.get('max_truncation_err') != 1e-3 or k.get('relative') is not True or k.get('max_singular_values') is not None]
            if wrong or len(calls) != m - 1:
                bad.append({'operation': 'zip_up', 'sites': n, 'other sites': m, 'direction': direction, 'SVDs': len(calls), 'expected': m - 1,
                            'an SVD was called with': {x: repr(wrong[0].get(x)) for x in ('max_singular_values', 'max_truncation_err', 'relative')} if wrong else None})
    for n in (1, 2, 3):
        for side in (True, False):
            for op in ('apply_vector',):
                A = mk(n, 1, True, True)
                ta, la = _dense(A)
                x = rng.normal(size=(2,) if op == 'apply_vector' else (2, 4))
                getattr(A, op)(x, left=side)
                got, _ = _dense(A)
                pos = 0 if side else ta.ndim - 1
                want = np.moveaxis(np.tensordot(ta, x, axes=([pos], [0])), -1, pos) if op == 'apply_matrix' else np.tensordot(ta, x, axes=([pos], [0]))
                if got.shape != want.shape or np.abs(got - want).max() > 1e-9:
                    bad.append({'operation': op, 'sites': n, 'at the left end': side})
    A = mk(3, 2, True, True)
    C = A.copy()
    t0, _ = _dense(A)
    C.apply_vector(rng.normal(size=(2,)), left=False)
    t1, _ = _dense(A)
    if np.abs(t0 - t1).max() > 0:
        bad.append({'operation': 'copy', 'the original follows a change of the copy': True})
    return {'violates': bool(bad), 'detail': bad[:5], 'n_bad': len(bad)}


def memory_time_parsing(inp):
    """TempoParameters(dt, tcut = K dt written as float literals / products): the memory length is K steps (the nearest integer of tcut/dt),
    whatever floating-point noise the quotient carries; and dkmax = K gives tcut = K dt"""
    from decimal import Decimal
    import oqupy
    bad = []
    cases = [('0.04', '0.28'), ('0.01', '0.07'), ('0.1', '0.3'), ('0.05', '0.35'), ('0.1', '0.5'), ('0.4', '4.0'), ('0.2', '0.33'), ('0.1', '0.26')]
    for dts, tcs in cases:
        dt, tc = float(dts), float(tcs)
        want = int((Decimal(tcs) / Decimal(dts)).to_integral_value(rounding='ROUND_HALF_EVEN'))
        p = oqupy.TempoParameters(dt=dt, tcut=tc, epsrel=1e-6)
        if p.dkmax != want:
            bad.append({'dt': dts, 'tcut': tcs, 'dkmax': p.dkmax, 'required': want})
    p = oqupy.TempoParameters(dt=0.1, tcut=3 * 0.1, epsrel=1e-6)
    if p.dkmax != 3:
        bad.append({'dt': '0.1', 'tcut': '3*0.1', 'dkmax': p.dkmax, 'required': 3})
    p = oqupy.TempoParameters(dt=0.1, dkmax=4, epsrel=1e-6)
    if p.dkmax != 4 or abs(p.tcut - 0.4) > 1e-12:
        bad.append({'dt': '0.1', 'dkmax given': 4, 'dkmax': p.dkmax, 'tcut': p.tcut})
    return {'violates': bool(bad), 'detail': bad}


def cells_vs_quadrature(inp):
    """the cells a correlations object returns against direct integration of its own correlation function (owned by C12)"""
    from replay.c12 import cells_vs_quadrature as f
    return f(inp)


# thorough tier (bounded native sweeps): (function, inputs, obligation of the open finding it reproduces or None)
def create_delta_spec(inp):
    """util.create_delta against its contract, element by element, for every scrambling the library uses and random others, shapes with
    dimensions 1..4 (including different dimensions on different axes) and random complex content; increase_list_of_index as the
    mixed-radix successor"""
    import itertools
    from oqupy import util
    bad = []
    rng = np.random.default_rng(11)
    cases = [(2, [1, 0, 0, 1]), (2, [1, 1, 0]), (2, [0, 1, 1, 0]), (2, [0, 1, 0]), (3, [0, 1, 2, 2]), (1, [0, 0]), (2, [1, 0]), (3, [2, 0, 1, 1]), (1, [0]),
             (4, [3, 1, 0, 2, 2])]
    for r, scr in cases:
        for trial in range(6):
            dims = [int(x) for x in rng.integers(1, 5, size=r)]
            t = rng.normal(size=dims) + 1j * rng.normal(size=dims)
            try:
                got = util.create_delta(t, list(scr))
            except Exception as e:
                bad.append({'scrambling': scr, 'shape': dims, 'exception': repr(e)})
                continue
            want_shape = tuple(dims[i] for i in scr)
            if got.shape != want_shape:
                bad.append({'scrambling': scr, 'shape': dims, 'result shape': list(got.shape), 'required': list(want_shape)})
                continue
            want = np.zeros(want_shape, dtype=t.dtype)
            for b in itertools.product(*[range(n) for n in dims]):
                want[tuple(b[i] for i in scr)] = t[b]
            if not np.array_equal(got, want):
                j = tuple(int(x) for x in np.argwhere(got != want)[0])
                bad.append({'scrambling': scr, 'shape': dims, 'first differing element': list(j), 'got': complex(got[j]), 'required': complex(want[j])})
    for shape, index in (([2, 3], 1), ([2, 3], 2), ([2, 3, 4], 3), ([2, 3, 4], 0), ([2, 3, 4], 1), ([2, 3], -1)):
        t = rng.normal(size=shape)
        keep = t.copy()
        got = util.add_singleton(t, index)
        want = list(shape)
        want.insert(index, 1)
        if list(got.shape) != want or list(t.shape) != shape or got is t or np.shares_memory(got, t) or not np.array_equal(got.reshape(shape), keep):
            bad.append({'add_singleton': shape, 'index': index, 'result shape': list(got.shape), 'required': want, 'argument shape afterwards': list(t.shape),
                        'shares memory with the argument': bool(np.shares_memory(got, t))})
    for shape in ([2, 3], [1, 1, 2], [3], [2, 1, 3, 2]):
        a = [0] * len(shape)
        seen = [tuple(a)]
        while util.increase_list_of_index(a, shape):
            seen.append(tuple(a))
            if len(seen) > 200:
                break
        want = list(itertools.product(*[range(n) for n in shape]))
        if seen != want:
            bad.append({'increase_list_of_index': shape, 'visited': len(seen), 'required': len(want)})
    return {'violates': bool(bad), 'detail': bad[:4]}


THOROUGH = [('independent_boson', {}, None), ('svd_sweep_parameters', {}, None), ('node_array_operations', {}, None), ('memory_time_parsing', {}, None), ('create_delta_spec', {}, None)]
