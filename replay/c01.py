"""Replays for C01 on the real code: independent-boson model (H_S commutes with the coupling
operator): TEMPO and PT-TEMPO + compute_dynamics against the analytic solution assembled from
the 2-D integrals of the bath correlation function, with the documented meaning of dkmax /
add_correlation_time."""
import numpy as np


def _phi(corr, n, dt, K, tau, epsrel=1e-9):
    """sum over the grid cells m >= m' of the first n steps (documented memory settings)"""
    tot = 0.0 + 0.0j
    for m in range(n):
        for mp in range(m + 1):
            d = m - mp
            if d == 0:
                tot += corr.correlation_2d_integral(dt, 0.0, shape='upper-triangle', epsrel=epsrel)
            elif K is None or d < K:
                tot += corr.correlation_2d_integral(dt, d * dt, shape='square', epsrel=epsrel)
            elif d == K:
                if tau is None:
                    tot += corr.correlation_2d_integral(dt, K * dt, shape='square', epsrel=epsrel)
                else:
                    t2 = K * dt + min((mp + 1) * dt, dt + tau)
                    tot += corr.correlation_2d_integral(dt, K * dt, time_2=t2, shape='rectangle', epsrel=epsrel)
    return tot


def independent_boson(inp):
    import oqupy
    bad = []
    o = np.array([0.5, -0.5, 0.2])
    E = np.array([0.3, -0.1, 0.4])
    O, H = np.diag(o), np.diag(E)
    rng = np.random.default_rng(4)
    a = rng.normal(size=(3, 3)) + 1j * rng.normal(size=(3, 3))
    rho0 = a @ a.conj().T
    rho0 /= np.trace(rho0)
    corr = oqupy.PowerLawSD(alpha=0.25, zeta=1.0, cutoff=2.5, cutoff_type='exponential', temperature=0.4)
    dt, N = 0.2, 6
    for K, tau in ((None, None), (2, None), (2, 0.0), (3, 0.25), (2, np.inf), (8, None), ('tcut=0.5', np.inf), ('tcut=0.33', 0.25)):
        if isinstance(K, str):
            # memory given as a cutoff TIME that is not a multiple of dt: the memory length is dkmax = round(tcut/dt) steps
            par = oqupy.TempoParameters(dt=dt, tcut=float(K.split('=')[1]), epsrel=1e-9, add_correlation_time=tau)
            K = par.dkmax
        else:
            par = oqupy.TempoParameters(dt=dt, dkmax=K, epsrel=1e-9, add_correlation_time=tau)
        bath = oqupy.Bath(O, corr)
        sys_ = oqupy.System(H)
        d1 = oqupy.Tempo(sys_, bath, par, rho0, 0.0).compute(N * dt, progress_type='silent')
        pt = oqupy.PtTempo(bath, 0.0, N * dt, par).get_process_tensor(progress_type='silent')
        d2 = oqupy.compute_dynamics(sys_, initial_state=rho0, process_tensor=pt, progress_type='silent')
        for n in range(N + 1):
            phi = _phi(corr, n, dt, K, tau)
            want = np.empty((3, 3), complex)
            for i in range(3):
                for j in range(3):
                    dm, dp = o[i] - o[j], o[i] + o[j]
                    want[i, j] = rho0[i, j] * np.exp(-1j * (E[i] - E[j]) * n * dt) * np.exp(-dm * (dm * phi.real + 1j * dp * phi.imag))
            for name, d in (('TEMPO', d1), ('PT-TEMPO', d2)):
                err = float(np.abs(np.array(d.states[n]) - want).max())
                if err > 2e-6:
                    bad.append({'method': name, 'dkmax': K, 'add_correlation_time': tau, 'step': n, 'max_error': err})
    return {'violates': bool(bad), 'detail': bad[:4], 'n_bad': len(bad)}


def cells_vs_quadrature(inp):
    """the cells a correlations object returns against direct integration of its own correlation function (owned by C12)"""
    from replay.c12 import cells_vs_quadrature as f
    return f(inp)


# thorough tier (bounded native sweeps): (function, inputs, obligation of the open finding it reproduces or None)
THOROUGH = [('independent_boson', {}, None)]
