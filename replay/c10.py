"""Replays for C10 on the real code: the three execution modes in a FRESH interpreter."""
import json
import os
import subprocess
import sys

SCRIPT = r'''
import sys, os, json
sys.path.insert(0, os.environ["REPLAY_REPO"])
import numpy as np
import oqupy
mode = sys.argv[1]
N = int(sys.argv[2]) if len(sys.argv) > 2 else 4
chain = oqupy.SystemChain(hilbert_space_dimensions=[2] * N)
for n in range(N):
    chain.add_site_hamiltonian(site=n, hamiltonian=0.3 * (n + 1) * oqupy.operators.sigma("x"))
for n in range(N - 1):
    chain.add_nn_hamiltonian(site=n, hamiltonian_l=0.5 * oqupy.operators.sigma("z"), hamiltonian_r=oqupy.operators.sigma("z"))
amps = oqupy.AugmentedMPS([oqupy.operators.spin_dm("z-")] * N)
cfg = {} if mode == "sequential" else {"parallel": mode}
t = oqupy.PtTebd(initial_augmented_mps=amps, system_chain=chain, process_tensors=[None] * N,
                 parameters=oqupy.PtTebdParameters(dt=0.1, order=2, epsrel=1e-9), dynamics_sites=list(range(N)), backend_config=cfg)
r = t.compute(3, progress_type="silent")
print(json.dumps([np.array(r["dynamics"][s].states[-1]).real.round(10).tolist() for s in range(N)]))
'''


def parallel_modes(inp):
    import oqupy
    repo = os.path.dirname(os.path.dirname(oqupy.__file__))
    out, bad = {}, []
    # conformance of the assumed import fact
    p = subprocess.run([sys.executable, '-c', 'import concurrent; print(hasattr(concurrent, "futures"))'], capture_output=True, text=True)
    fact = p.stdout.strip()
    for nsites in (4, 2, 3):        # (a two-site chain has an EMPTY odd layer)
        out = {}
        for mode in ('sequential', 'multithread', 'multiprocess'):
            p = subprocess.run([sys.executable, '-c', SCRIPT, mode, str(nsites)], env=dict(os.environ, REPLAY_REPO=repo), capture_output=True, text=True, timeout=600)
            if p.returncode != 0:
                bad.append({'chain length': nsites, 'mode': mode, 'error': p.stderr.strip().split('\n')[-1][:200]})
                continue
            out[mode] = json.loads(p.stdout.strip().split('\n')[-1])
        ref = out.get('sequential')
        for mode, res in out.items():
            if ref is not None and res != ref:
                bad.append({'chain length': nsites, 'mode': mode, 'differs_from_sequential': True})
    return {'violates': bool(bad), 'detail': bad, 'import concurrent binds concurrent.futures in a fresh interpreter': fact}


def partial_trace_consistency(inp):
    """coupled 5-site chain, all recorded site subsets: Tr_j rho_S = rho_(S-j), trace of every rho_S = norm = 1"""
    import itertools
    import numpy as np
    import oqupy
    N = 5
    chain = oqupy.SystemChain(hilbert_space_dimensions=[2] * N)
    for n in range(N):
        chain.add_site_hamiltonian(site=n, hamiltonian=0.3 * (n + 1) * oqupy.operators.sigma("x") + 0.2 * oqupy.operators.sigma("z"))
    for n in range(N - 1):
        for k, c in zip("xyz", (0.6, 0.65, 0.35)):
            chain.add_nn_hamiltonian(site=n, hamiltonian_l=c * oqupy.operators.sigma(k), hamiltonian_r=oqupy.operators.sigma(k))
    amps = oqupy.AugmentedMPS([oqupy.operators.spin_dm(s) for s in ["z-", "x+", "z+", "y+", "z-"]])
    subsets = [tuple(c) for k in range(1, N + 1) for c in itertools.combinations(range(N), k)]
    bad = []
    for order in (1, 2):
        try:
            t = oqupy.PtTebd(initial_augmented_mps=amps, system_chain=chain, process_tensors=[None] * N,
                             parameters=oqupy.PtTebdParameters(dt=0.1, order=order, epsrel=1e-9),
                             dynamics_sites=[s[0] if len(s) == 1 else s for s in subsets], backend_config={})
            r = t.compute(6, progress_type="silent")
        except Exception as e:           # noqa
            bad.append({'order': order, 'exception': type(e).__name__ + ': ' + str(e)[:150]})
            continue
        rho = {s: np.array(r['dynamics'][s[0] if len(s) == 1 else s].states[-1]) for s in subsets}
        norm = complex(np.array(r['norm'])[-1]) if 'norm' in r else 1.0
        for s in subsets:
            if abs(np.trace(rho[s]) - norm) > 1e-7:
                bad.append({'order': order, 'sites': s, 'trace': complex(np.trace(rho[s])).real, 'norm': norm.real})
            if len(s) < 2:
                continue
            k = len(s)
            full = rho[s].reshape([2] * (2 * k))
            for pos in range(k):
                red = np.trace(full, axis1=pos, axis2=pos + k).reshape(2 ** (k - 1), 2 ** (k - 1))
                sub = s[:pos] + s[pos + 1:]
                dev = float(np.abs(red - rho[sub]).max())
                if dev > 1e-7:
                    bad.append({'order': order, 'sites': s, 'traced_site': s[pos], 'deviation_from_rho_of_remaining_sites': dev})
    return {'violates': bool(bad), 'detail': bad[:12]}


def query_between_steps(inp):
    from replay.c14 import tebd_query_between_computes
    return tebd_query_between_computes(inp)


def uncoupled_chain_is_single_sites(inp):
    """a chain WITHOUT inter-site coupling (chain lengths 2..5, both Trotter orders): every site evolves exactly as the
    corresponding single-site system (dense propagation of its own Liouvillian), total norm one"""
    import numpy as np
    import oqupy
    from scipy.linalg import expm
    ops = oqupy.operators
    bad = []
    for N in (2, 3, 5):
        hs = [0.3 * (n + 1) * ops.sigma('x') + 0.2 * (n - 1) * ops.sigma('z') for n in range(N)]
        gam = [0.05 * (n + 1) for n in range(N)]
        chain = oqupy.SystemChain(hilbert_space_dimensions=[2] * N)
        for n in range(N):
            chain.add_site_hamiltonian(site=n, hamiltonian=hs[n])
            chain.add_site_dissipation(site=n, lindblad_operator=ops.sigma('-'), gamma=gam[n])
        states = [ops.spin_dm(s) for s in ['z-', 'x+', 'y+', 'z+', 'x-'][:N]]
        for order in (1, 2):
            t = oqupy.PtTebd(initial_augmented_mps=oqupy.AugmentedMPS(states), system_chain=chain, process_tensors=[None] * N,
                             parameters=oqupy.PtTebdParameters(dt=0.1, order=order, epsrel=1e-10), dynamics_sites=list(range(N)), backend_config={})
            r = t.compute(5, progress_type='silent')
            for n in range(N):
                L = oqupy.System(hs[n], gammas=[gam[n]], lindblad_operators=[ops.sigma('-')]).liouvillian()
                want = (expm(L * 0.5) @ states[n].reshape(-1)).reshape(2, 2)
                dev = float(np.abs(np.array(r['dynamics'][n].states[-1]) - want).max())
                if dev > 1e-8:
                    bad.append({'chain length': N, 'order': order, 'site': n, 'deviation from the single-site evolution': dev})
            if abs(complex(np.array(r['norm'])[-1]) - 1) > 1e-8:
                bad.append({'chain length': N, 'order': order, 'norm': str(np.array(r['norm'])[-1])})
    return {'violates': bool(bad), 'detail': bad[:6]}


def two_site_chain_vs_dense(inp):
    """two-site chain with GENERIC (complex, non-symmetric) site and nearest-neighbour Hamiltonians and Lindblad operators:
    (a) every Liouvillian the chain assembles equals the generator built densely from the full two-site operators (index order
    ((row_1, col_1), (row_2, col_2))), (b) PT-TEBD propagates the chain exactly as the dense generator does (one bond: no Trotter error)"""
    import numpy as np
    import oqupy
    from scipy.linalg import expm
    rng = np.random.default_rng(7)

    def rnd(d):
        return rng.normal(size=(d, d)) + 1j * rng.normal(size=(d, d))

    def herm(d):
        m = rnd(d)
        return (m + m.conj().T) / 2
    bad = []
    for d1, d2 in ((2, 2), (2, 3)):
        D = d1 * d2
        h1, h2, A, B = herm(d1), herm(d2), rnd(d1), rnd(d2)
        a1, nl, nr = rnd(d1), rnd(d1), rnd(d2)
        g1, g2 = 0.3, 0.2
        chain = oqupy.SystemChain(hilbert_space_dimensions=[d1, d2])
        chain.add_site_hamiltonian(site=0, hamiltonian=h1)
        chain.add_site_hamiltonian(site=1, hamiltonian=h2)
        chain.add_site_dissipation(site=0, lindblad_operator=a1, gamma=g1)
        chain.add_nn_hamiltonian(site=0, hamiltonian_l=A, hamiltonian_r=B)
        chain.add_nn_dissipation(site=0, lindblad_operator_l=nl, lindblad_operator_r=nr, gamma=g2)

        def gen(rho_to_drho, dims):
            """dense generator in the chain's index order from a linear map on density matrices"""
            n = int(np.prod(dims))
            L = np.zeros((n * n, n * n), dtype=complex)
            for k in range(n * n):
                e = np.zeros(n * n, dtype=complex)
                e[k] = 1
                if len(dims) == 1:
                    rho = e.reshape(n, n)
                    L[:, k] = rho_to_drho(rho).reshape(-1)
                else:
                    x, y = dims
                    rho = e.reshape(x, x, y, y).transpose(0, 2, 1, 3).reshape(n, n)      # ((r1,c1),(r2,c2)) -> (r1 r2, c1 c2)
                    L[:, k] = rho_to_drho(rho).reshape(x, y, x, y).transpose(0, 2, 1, 3).reshape(-1)
            return L

        def lind(op, g):
            return lambda r: g * (op @ r @ op.conj().T - 0.5 * (op.conj().T @ op @ r + r @ op.conj().T @ op))
        want_s0 = gen(lambda r: -1j * (h1 @ r - r @ h1) + lind(a1, g1)(r), [d1])
        want_s1 = gen(lambda r: -1j * (h2 @ r - r @ h2), [d2])
        AB, NN = np.kron(A, B), np.kron(nl, nr)
        want_nn = gen(lambda r: -1j * (AB @ r - r @ AB) + lind(NN, g2)(r), [d1, d2])
        for nm, got, want in (('site 0', chain.site_liouvillians[0], want_s0), ('site 1', chain.site_liouvillians[1], want_s1),
                              ('bond 0', chain.nn_liouvillians[0], want_nn)):
            dev = float(np.abs(np.array(got) - want).max())
            if dev > 1e-10:
                bad.append({'dims': [d1, d2], 'assembled Liouvillian': nm, 'deviation from the dense generator': dev})
        # (b) dynamics
        H_full = np.kron(h1, np.eye(d2)) + np.kron(np.eye(d1), h2) + AB
        A1 = np.kron(a1, np.eye(d2))
        Lfull = gen(lambda r: -1j * (H_full @ r - r @ H_full) + lind(A1, g1)(r) + lind(NN, g2)(r), [d1, d2])
        r1, r2 = herm(d1), herm(d2)
        r1, r2 = r1 @ r1.conj().T, r2 @ r2.conj().T
        r1, r2 = r1 / np.trace(r1), r2 / np.trace(r2)
        dt, steps = 0.05, 4
        for order in (1, 2):
            t = oqupy.PtTebd(initial_augmented_mps=oqupy.AugmentedMPS([r1, r2]), system_chain=chain, process_tensors=[None, None],
                             parameters=oqupy.PtTebdParameters(dt=dt, order=order, epsrel=1e-12), dynamics_sites=[0, 1, (0, 1)], backend_config={})
            res = t.compute(steps, progress_type='silent')
            v0 = np.einsum('ab,cd->abcd', r1, r2).reshape(-1)
            vt = (expm(Lfull * dt * steps) @ v0).reshape(d1, d1, d2, d2)
            want = {0: np.einsum('abcc->ab', vt), 1: np.einsum('aacd->cd', vt)}
            for s in (0, 1):
                dev = float(np.abs(np.array(res['dynamics'][s].states[-1]) - want[s]).max())
                if dev > 1e-7:
                    bad.append({'dims': [d1, d2], 'order': order, 'site': s, 'deviation from dense propagation': dev})
    return {'violates': bool(bad), 'detail': bad[:8]}


def nn_gate_parameters(inp):
    """every SVD of the two-site update is asked for the caller's relative tolerance (spy on tensornetwork.split_node_full_svd
    during a short sequential PT-TEBD run)"""
    import numpy as np
    import oqupy
    import oqupy.backends.pt_tebd_backend as be
    real = be.tn.split_node_full_svd
    calls = []

    def spy(*a, **k):
        calls.append(k)
        return real(*a, **k)
    eps = 1.0e-7
    chain = oqupy.SystemChain(hilbert_space_dimensions=[2, 2, 2])
    for n in range(3):
        chain.add_site_hamiltonian(site=n, hamiltonian=0.3 * (n + 1) * oqupy.operators.sigma('x'))
    for n in range(2):
        chain.add_nn_hamiltonian(site=n, hamiltonian_l=0.5 * oqupy.operators.sigma('z'), hamiltonian_r=oqupy.operators.sigma('z'))
    be.tn.split_node_full_svd = spy
    try:
        t = oqupy.PtTebd(initial_augmented_mps=oqupy.AugmentedMPS([oqupy.operators.spin_dm('z-')] * 3), system_chain=chain, process_tensors=[None] * 3,
                         parameters=oqupy.PtTebdParameters(dt=0.1, order=2, epsrel=eps), dynamics_sites=[0], backend_config={})
        t.compute(2, progress_type='silent')
    finally:
        be.tn.split_node_full_svd = real
    bad = [{x: repr(k.get(x)) for x in ('max_singular_values', 'max_truncation_err', 'relative')} for k in calls
           if k.get('max_truncation_err') != eps or k.get('relative') is not True or k.get('max_singular_values') is not None]
    return {'violates': bool(bad) or not calls, 'SVD calls': len(calls), 'calls that do not carry (epsrel, relative=True)': bad[:3]}


# thorough tier (bounded native sweeps): (function, inputs, obligation of the open finding it reproduces or None)
THOROUGH = [('parallel_modes', {}, None), ('partial_trace_consistency', {}, None), ('query_between_steps', {}, None), ('uncoupled_chain_is_single_sites', {}, None),
            ('two_site_chain_vs_dense', {}, None), ('nn_gate_parameters', {}, None)]
