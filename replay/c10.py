"""Replays for C10 on the real code: the three execution modes in a FRESH interpreter."""
import json
import os
import subprocess
import sys

SCRIPT = r'''
import sys, os, json
sys.path.insert(0, os.environ["REPLAY_REPO"])
import numpy as np
import oqupy
mode = sys.argv[1]
N = 4
chain = oqupy.SystemChain(hilbert_space_dimensions=[2] * N)
for n in range(N):
    chain.add_site_hamiltonian(site=n, hamiltonian=0.3 * (n + 1) * oqupy.operators.sigma("x"))
for n in range(N - 1):
    chain.add_nn_hamiltonian(site=n, hamiltonian_l=0.5 * oqupy.operators.sigma("z"), hamiltonian_r=oqupy.operators.sigma("z"))
amps = oqupy.AugmentedMPS([oqupy.operators.spin_dm("z-")] * N)
cfg = {} if mode == "sequential" else {"parallel": mode}
t = oqupy.PtTebd(initial_augmented_mps=amps, system_chain=chain, process_tensors=[None] * N,
                 parameters=oqupy.PtTebdParameters(dt=0.1, order=2, epsrel=1e-9), dynamics_sites=list(range(N)), backend_config=cfg)
r = t.compute(3, progress_type="silent")
print(json.dumps([np.array(r["dynamics"][s].states[-1]).real.round(10).tolist() for s in range(N)]))
'''


def parallel_modes(inp):
    import oqupy
    repo = os.path.dirname(os.path.dirname(oqupy.__file__))
    out, bad = {}, []
    # conformance of the assumed import fact
    p = subprocess.run([sys.executable, '-c', 'import concurrent; print(hasattr(concurrent, "futures"))'], capture_output=True, text=True)
    fact = p.stdout.strip()
    for mode in ('sequential', 'multithread', 'multiprocess'):
        p = subprocess.run([sys.executable, '-c', SCRIPT, mode], env=dict(os.environ, REPLAY_REPO=repo), capture_output=True, text=True, timeout=600)
        if p.returncode != 0:
            bad.append({'mode': mode, 'error': p.stderr.strip().split('\n')[-1][:200]})
            continue
        out[mode] = json.loads(p.stdout.strip().split('\n')[-1])
    ref = out.get('sequential')
    for mode, res in out.items():
        if ref is not None and res != ref:
            bad.append({'mode': mode, 'differs_from_sequential': True})
    return {'violates': bool(bad), 'detail': bad, 'import concurrent binds concurrent.futures in a fresh interpreter': fact}


def partial_trace_consistency(inp):
    """coupled 5-site chain, all recorded site subsets: Tr_j rho_S = rho_(S-j), trace of every rho_S = norm = 1"""
    import itertools
    import numpy as np
    import oqupy
    N = 5
    chain = oqupy.SystemChain(hilbert_space_dimensions=[2] * N)
    for n in range(N):
        chain.add_site_hamiltonian(site=n, hamiltonian=0.3 * (n + 1) * oqupy.operators.sigma("x") + 0.2 * oqupy.operators.sigma("z"))
    for n in range(N - 1):
        for k, c in zip("xyz", (0.6, 0.65, 0.35)):
            chain.add_nn_hamiltonian(site=n, hamiltonian_l=c * oqupy.operators.sigma(k), hamiltonian_r=oqupy.operators.sigma(k))
    amps = oqupy.AugmentedMPS([oqupy.operators.spin_dm(s) for s in ["z-", "x+", "z+", "y+", "z-"]])
    subsets = [tuple(c) for k in range(1, N + 1) for c in itertools.combinations(range(N), k)]
    bad = []
    for order in (1, 2):
        try:
            t = oqupy.PtTebd(initial_augmented_mps=amps, system_chain=chain, process_tensors=[None] * N,
                             parameters=oqupy.PtTebdParameters(dt=0.1, order=order, epsrel=1e-9),
                             dynamics_sites=[s[0] if len(s) == 1 else s for s in subsets], backend_config={})
            r = t.compute(6, progress_type="silent")
        except Exception as e:           # noqa
            bad.append({'order': order, 'exception': type(e).__name__ + ': ' + str(e)[:150]})
            continue
        rho = {s: np.array(r['dynamics'][s[0] if len(s) == 1 else s].states[-1]) for s in subsets}
        norm = complex(np.array(r['norm'])[-1]) if 'norm' in r else 1.0
        for s in subsets:
            if abs(np.trace(rho[s]) - norm) > 1e-7:
                bad.append({'order': order, 'sites': s, 'trace': complex(np.trace(rho[s])).real, 'norm': norm.real})
            if len(s) < 2:
                continue
            k = len(s)
            full = rho[s].reshape([2] * (2 * k))
            for pos in range(k):
                red = np.trace(full, axis1=pos, axis2=pos + k).reshape(2 ** (k - 1), 2 ** (k - 1))
                sub = s[:pos] + s[pos + 1:]
                dev = float(np.abs(red - rho[sub]).max())
                if dev > 1e-7:
                    bad.append({'order': order, 'sites': s, 'traced_site': s[pos], 'deviation_from_rho_of_remaining_sites': dev})
    return {'violates': bool(bad), 'detail': bad[:12]}


def query_between_steps(inp):
    from replay.c14 import tebd_query_between_computes
    return tebd_query_between_computes(inp)


def uncoupled_chain_is_single_sites(inp):
    """a chain WITHOUT inter-site coupling (chain lengths 2..5, both Trotter orders): every site evolves exactly as the
    corresponding single-site system (dense propagation of its own Liouvillian), total norm one"""
    import numpy as np
    import oqupy
    from scipy.linalg import expm
    ops = oqupy.operators
    bad = []
    for N in (2, 3, 5):
        hs = [0.3 * (n + 1) * ops.sigma('x') + 0.2 * (n - 1) * ops.sigma('z') for n in range(N)]
        gam = [0.05 * (n + 1) for n in range(N)]
        chain = oqupy.SystemChain(hilbert_space_dimensions=[2] * N)
        for n in range(N):
            chain.add_site_hamiltonian(site=n, hamiltonian=hs[n])
            chain.add_site_dissipation(site=n, lindblad_operator=ops.sigma('-'), gamma=gam[n])
        states = [ops.spin_dm(s) for s in ['z-', 'x+', 'y+', 'z+', 'x-'][:N]]
        for order in (1, 2):
            t = oqupy.PtTebd(initial_augmented_mps=oqupy.AugmentedMPS(states), system_chain=chain, process_tensors=[None] * N,
                             parameters=oqupy.PtTebdParameters(dt=0.1, order=order, epsrel=1e-10), dynamics_sites=list(range(N)), backend_config={})
            r = t.compute(5, progress_type='silent')
            for n in range(N):
                L = oqupy.System(hs[n], gammas=[gam[n]], lindblad_operators=[ops.sigma('-')]).liouvillian()
                want = (expm(L * 0.5) @ states[n].reshape(-1)).reshape(2, 2)
                dev = float(np.abs(np.array(r['dynamics'][n].states[-1]) - want).max())
                if dev > 1e-8:
                    bad.append({'chain length': N, 'order': order, 'site': n, 'deviation from the single-site evolution': dev})
            if abs(complex(np.array(r['norm'])[-1]) - 1) > 1e-8:
                bad.append({'chain length': N, 'order': order, 'norm': str(np.array(r['norm'])[-1])})
    return {'violates': bool(bad), 'detail': bad[:6]}


# thorough tier (bounded native sweeps): (function, inputs, obligation of the open finding it reproduces or None)
THOROUGH = [('parallel_modes', {}, None), ('partial_trace_consistency', {}, None), ('query_between_steps', {}, None), ('uncoupled_chain_is_single_sites', {}, None)]
