"""Replays for C06 on the real code: unique=True against unique=False."""
import numpy as np


def unique_vs_full(inp):
    import oqupy
    bad = []
    corr = oqupy.PowerLawSD(alpha=0.15, zeta=1.0, cutoff=3.0, cutoff_type='exponential', temperature=0.3)
    par = oqupy.TempoParameters(dt=0.15, dkmax=3, epsrel=1e-8, add_correlation_time=0.2)
    rng = np.random.default_rng(8)
    for spectrum in ([0.5, -0.5], [1.0, 0.0, -1.0], [1.0, 1.0, -0.5], [0.3, 0.3, 0.3], [1.0, 0.0, 0.0, -1.0], [0.0, 1.0, 3.0], [0.0, 0.5, 0.5, 2.0]):
        d = len(spectrum)
        O = np.diag(spectrum)
        if len(spectrum) == 3 and spectrum[0] == 1.0:
            # ... also written in a rotated (complex) basis: the coupling operator is then not diagonal
            z = rng.normal(size=(d, d)) + 1j * rng.normal(size=(d, d))
            q, _ = np.linalg.qr(z)
            O = q @ O @ q.conj().T
            O = (O + O.conj().T) / 2
        h = rng.normal(size=(d, d)) + 1j * rng.normal(size=(d, d))
        H = (h + h.conj().T) / 4
        a = rng.normal(size=(d, d)) + 1j * rng.normal(size=(d, d))
        rho0 = a @ a.conj().T
        rho0 /= np.trace(rho0)
        bath = oqupy.Bath(O, corr)
        sys_ = oqupy.System(H)
        res = {}
        for u in (False, True):
            res['tempo', u] = oqupy.Tempo(sys_, bath, par, rho0, 0.0, unique=u).compute(0.75, progress_type='silent').states
            pt = oqupy.PtTempo(bath, 0.0, 0.75, par, unique=u).get_process_tensor(progress_type='silent')
            res['pt', u] = oqupy.compute_dynamics(sys_, initial_state=rho0, process_tensor=pt, progress_type='silent').states
        for m in ('tempo', 'pt'):
            err = float(np.abs(res[m, True] - res[m, False]).max())
            if err > 1e-6:
                bad.append({'method': m, 'spectrum': spectrum, 'max_difference': err})
    return {'violates': bool(bad), 'detail': bad[:4]}


def mean_field_two_baths(inp):
    """mean-field TEMPO with two species whose baths couple through operators with the same number of degeneracy classes
    arranged differently: unique=True must reproduce unique=False"""
    import oqupy
    from oqupy import operators as ops
    corr = oqupy.PowerLawSD(alpha=0.2, zeta=1.0, cutoff=4.0, cutoff_type='gaussian', temperature=0.1)
    I2 = np.identity(2)
    baths = [oqupy.Bath(np.kron(0.5 * ops.sigma('z'), I2), corr), oqupy.Bath(np.kron(I2, 0.5 * ops.sigma('z')), corr)]
    sx_a, sx_b = np.kron(ops.sigma('x'), I2), np.kron(I2, ops.sigma('x'))
    sz_a, sz_b = np.kron(ops.sigma('z'), I2), np.kron(I2, ops.sigma('z'))
    sm = np.kron(ops.sigma('-'), I2) + np.kron(I2, ops.sigma('-'))
    h0 = 0.5 * sz_a + 0.3 * sz_b + 0.2 * sx_a @ sx_b
    g = (0.4, 0.7)
    mfs = oqupy.MeanFieldSystem([oqupy.TimeDependentSystemWithField(lambda t, a, gi=gi: h0 + gi * np.real(a) * (sx_a + sx_b)) for gi in g],
                                lambda t, states, a: -(0.2j + 0.1) * a - 0.5j * sum(gi * np.matmul(sm, s).trace() for gi, s in zip(g, states)))
    init = [np.kron(ops.spin_dm('x+'), ops.spin_dm('y+')), np.kron(ops.spin_dm('y+'), ops.spin_dm('x+'))]
    par = oqupy.TempoParameters(dt=0.1, dkmax=4, epsrel=1e-7)

    def run(unique):
        t = oqupy.MeanFieldTempo(mean_field_system=mfs, bath_list=baths, initial_state_list=init, initial_field=1.0 + 0.5j, start_time=0.0,
                                 parameters=par, unique=unique)
        d = t.compute(end_time=0.5, progress_type='silent')
        return [np.array(x.states) for x in d.system_dynamics], np.array(d.field_expectations()[1])
    ref_s, ref_f = run(False)
    try:
        s, f = run(True)
    except Exception as e:      # noqa
        return {'violates': True, 'detail': 'unique=True raised %s: %s' % (type(e).__name__, str(e)[:100])}
    dev = [float(np.abs(a - b).max()) for a, b in zip(ref_s, s)] + [float(np.abs(ref_f - f).max())]
    return {'violates': max(dev) > 1e-5, 'max deviation unique=True vs unique=False (species 1, species 2, field)': dev}


def node_array_operations(inp):
    from replay.c01 import node_array_operations as f
    return f(inp)


def svd_sweep_parameters(inp):
    from replay.c01 import svd_sweep_parameters as f
    return f(inp)


# thorough tier (bounded native sweeps): (function, inputs, obligation of the open finding it reproduces or None)
def create_delta_spec(inp):
    from replay.c01 import create_delta_spec as f
    return f(inp)


THOROUGH = [('unique_vs_full', {}, None), ('mean_field_two_baths', {}, None)]
