"""Replays for C06 on the real code: unique=True against unique=False."""
import numpy as np


def unique_vs_full(inp):
    import oqupy
    bad = []
    corr = oqupy.PowerLawSD(alpha=0.15, zeta=1.0, cutoff=3.0, cutoff_type='exponential', temperature=0.3)
    par = oqupy.TempoParameters(dt=0.15, dkmax=3, epsrel=1e-8, add_correlation_time=0.2)
    rng = np.random.default_rng(8)
    for spectrum in ([0.5, -0.5], [1.0, 0.0, -1.0], [1.0, 1.0, -0.5], [0.3, 0.3, 0.3], [1.0, 0.0, 0.0, -1.0]):
        d = len(spectrum)
        O = np.diag(spectrum)
        h = rng.normal(size=(d, d)) + 1j * rng.normal(size=(d, d))
        H = (h + h.conj().T) / 4
        a = rng.normal(size=(d, d)) + 1j * rng.normal(size=(d, d))
        rho0 = a @ a.conj().T
        rho0 /= np.trace(rho0)
        bath = oqupy.Bath(O, corr)
        sys_ = oqupy.System(H)
        res = {}
        for u in (False, True):
            res['tempo', u] = oqupy.Tempo(sys_, bath, par, rho0, 0.0, unique=u).compute(0.75, progress_type='silent').states
            pt = oqupy.PtTempo(bath, 0.0, 0.75, par, unique=u).get_process_tensor(progress_type='silent')
            res['pt', u] = oqupy.compute_dynamics(sys_, initial_state=rho0, process_tensor=pt, progress_type='silent').states
        for m in ('tempo', 'pt'):
            err = float(np.abs(res[m, True] - res[m, False]).max())
            if err > 1e-6:
                bad.append({'method': m, 'spectrum': spectrum, 'max_difference': err})
    return {'violates': bool(bad), 'detail': bad[:4]}
