"""Replays for C02 on the real code: TEMPO against PT-TEMPO + compute_dynamics, and the prefix clause."""
import numpy as np


def tempo_vs_pt(inp):
    import oqupy
    bad = []
    sx, sy, sz = [oqupy.operators.sigma(c) for c in 'xyz']
    corr = oqupy.PowerLawSD(alpha=0.12, zeta=1.0, cutoff=3.0, cutoff_type='exponential', temperature=0.3)
    rho0 = oqupy.operators.spin_dm('y+')
    for O, unique in ((0.5 * sz, False), (0.5 * sz, True), (0.3 * sx + 0.4 * sz, False), (0.3 * sx + 0.2 * sy + 0.4 * sz, True)):
        for K, tau in ((None, None), (2, 0.2), (3, None), (2, np.inf)):
            par = oqupy.TempoParameters(dt=0.1, dkmax=K, epsrel=1e-9, add_correlation_time=tau)
            bath = oqupy.Bath(O, corr)
            H = lambda t: 0.6 * np.cos(t) * sx + 0.2 * sy
            sys_ = oqupy.TimeDependentSystem(H, gammas=[lambda t: 0.05 + 0.02 * t], lindblad_operators=[lambda t: sz])
            t0 = 0.4
            d1 = oqupy.Tempo(sys_, bath, par, rho0, t0, unique=unique).compute(t0 + 0.6, progress_type='silent')
            pt = oqupy.PtTempo(bath, t0, t0 + 0.6, par, unique=unique).get_process_tensor(progress_type='silent')
            d2 = oqupy.compute_dynamics(sys_, initial_state=rho0, process_tensor=pt, start_time=t0, progress_type='silent')
            err = float(np.abs(d1.states - d2.states).max())
            if len(d1.states) != len(d2.states) or err > 5e-6:
                bad.append({'coupling': 'diagonal' if O[0, 1] == 0 else 'non-diagonal', 'unique': unique, 'dkmax': K, 'add_correlation_time': tau, 'max_difference': err})
            if O[0, 1] != 0 and K in (None, 3):
                # the file-backed process tensor is set up by its own constructor (basis rotation included)
                ptf = oqupy.PtTempo(bath, t0, t0 + 0.6, par, unique=unique, process_tensor_file=True).get_process_tensor(progress_type='silent')
                try:
                    d2f = oqupy.compute_dynamics(sys_, initial_state=rho0, process_tensor=ptf, start_time=t0, progress_type='silent')
                finally:
                    ptf.close()
                    ptf.remove()
                errf = float(np.abs(d1.states - d2f.states).max())
                if len(d1.states) != len(d2f.states) or errf > 5e-6:
                    bad.append({'coupling': 'non-diagonal', 'process_tensor': 'file-backed', 'unique': unique, 'dkmax': K,
                                'add_correlation_time': tau, 'max_difference': errf})
            # prefix: first n steps of the longer PT against a PT built for exactly n steps
            n = 3
            d3 = oqupy.compute_dynamics(sys_, initial_state=rho0, process_tensor=pt, start_time=t0, num_steps=n, progress_type='silent')
            ptn = oqupy.PtTempo(bath, t0, t0 + n * 0.1, par, unique=unique).get_process_tensor(progress_type='silent')
            d4 = oqupy.compute_dynamics(sys_, initial_state=rho0, process_tensor=ptn, start_time=t0, progress_type='silent')
            e1 = float(np.abs(d3.states - d2.states[:n + 1]).max())
            e2 = float(np.abs(d3.states - d4.states).max())
            if e1 > 1e-12 or e2 > 5e-6:
                bad.append({'prefix': True, 'dkmax': K, 'same PT, fewer steps': e1, 'PT built for n steps': e2})
    return {'violates': bool(bad), 'detail': bad[:4]}


def node_array_operations(inp):
    from replay.c01 import node_array_operations as f
    return f(inp)


def svd_sweep_parameters(inp):
    from replay.c01 import svd_sweep_parameters as f
    return f(inp)


# thorough tier (bounded native sweeps): (function, inputs, obligation of the open finding it reproduces or None)
def create_delta_spec(inp):
    from replay.c01 import create_delta_spec as f
    return f(inp)


THOROUGH = [('tempo_vs_pt', {}, None)]
