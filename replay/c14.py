"""Replays for C14 on the real code: call histories with split / repeated / failing calls."""
import numpy as np


def _bath(alpha=0.1):
    import oqupy
    corr = oqupy.PowerLawSD(alpha=alpha, zeta=1, cutoff=3.0, cutoff_type='exponential', temperature=0.2)
    return oqupy.Bath(0.5 * oqupy.operators.sigma('z'), corr)


def _params(dt=0.1, dkmax=3, tau=None):
    import oqupy
    return oqupy.TempoParameters(dt=dt, dkmax=dkmax, epsrel=1e-5, add_correlation_time=tau)


class Flaky:
    """time-dependent Hamiltonian that raises exactly once, at its n-th evaluation"""

    def __init__(self, fail_at):
        self.count, self.fail_at, self.armed = 0, fail_at, False

    def __call__(self, t):
        import oqupy
        if self.armed:
            self.count += 1
        if self.armed and self.count == self.fail_at:
            raise RuntimeError('transient failure of the user Hamiltonian')
        return 0.4 * np.cos(t) * oqupy.operators.sigma('x') + 0.1 * oqupy.operators.sigma('z')


def _tempo(ham, dkmax=3):
    import oqupy
    sys_ = oqupy.TimeDependentSystem(ham)
    return oqupy.Tempo(sys_, _bath(), _params(dkmax=dkmax), oqupy.operators.spin_dm('x+'), start_time=0.0)


def tempo_exc_atomic(inp):
    """a transient failure of the Hamiltonian at some step, then a repeated compute: the
    dynamics must equal those of an unfailed run (or fail again)"""
    import oqupy
    bad = []
    for dkmax in (None, 3):
        counter = Flaky(-1)
        counter.armed = True
        ref = _tempo(counter, dkmax).compute(0.6, progress_type='silent')
        per_step = max(1, counter.count // 6)        # evaluations of the Hamiltonian per time step (quadrature points)
        # failures in the first, second, fourth and last step of the call
        for fail_at in (3, per_step + 2, 3 * per_step + 2, 5 * per_step + 2):
            fl = Flaky(fail_at)
            t = _tempo(fl, dkmax)
            fl.armed = True
            try:
                t.compute(0.6, progress_type='silent')
                continue
            except RuntimeError:
                pass
            try:
                d = t.compute(0.6, progress_type='silent')
            except Exception:
                continue          # failing again is allowed by the property
            same = len(d.times) == len(ref.times) and np.allclose(d.times, ref.times) and np.allclose(d.states, ref.states, atol=1e-9)
            if not same:
                bad.append({'dkmax': dkmax, 'fail_at_hamiltonian_call': fail_at,
                            'times_after_retry': [round(float(x), 3) for x in d.times],
                            'times_unfailed': [round(float(x), 3) for x in ref.times]})
    return {'violates': bool(bad), 'detail': bad[:2]}


def tempo_split(inp):
    import oqupy
    ham = lambda t: 0.4 * np.cos(t) * oqupy.operators.sigma('x')
    ref = _tempo(ham).compute(0.8, progress_type='silent')
    bad = []
    for seq in ([0.3, 0.8], [0.8, 0.3], [0.2, 0.2, 0.5, 0.8, 0.1], [0.8, 0.8]):
        t = _tempo(ham)
        for x in seq:
            d = t.compute(x, progress_type='silent')
        if len(d.times) != len(ref.times) or not np.allclose(d.times, ref.times) or not np.allclose(d.states, ref.states, atol=1e-9):
            bad.append({'targets': seq, 'times': [round(float(x), 3) for x in d.times]})
    return {'violates': bool(bad), 'detail': bad[:2], 'reference_times': [round(float(x), 3) for x in ref.times]}


def pt_twice(inp):
    import oqupy
    bad = []
    p = oqupy.PtTempo(_bath(), 0.0, 0.5, _params())
    try:
        p.compute(progress_type='silent')
        pt1 = p.get_process_tensor(progress_type='silent')
        t1 = [np.array(pt1.get_mpo_tensor(k)) for k in range(len(pt1))]
        p.compute(progress_type='silent')
        pt2 = p.get_process_tensor(progress_type='silent')
        if pt2 is not pt1 or len(pt2) != len(t1) or any(not np.allclose(a, pt2.get_mpo_tensor(k)) for k, a in enumerate(t1)):
            bad.append('process tensor changed after second compute()')
    except Exception as e:
        bad.append('second compute()/get_process_tensor() raised %s: %s' % (type(e).__name__, e))
    return {'violates': bool(bad), 'detail': bad}


def pt_exc_atomic(inp):
    import oqupy

    class FlakyCorr:
        def __init__(self, fail_at):
            self.n, self.fail_at = 0, fail_at

        def __call__(self, w):
            return 0.2 * w * np.exp(-w / 3.0)

    def build(fail_at):
        state = {'n': 0}

        def j(w):
            return 0.2 * w * np.exp(-w / 3.0)
        corr = oqupy.CustomSD(j, cutoff=3.0, cutoff_type='hard', temperature=0.0)
        orig = corr.correlation_2d_integral

        def flaky(*a, **k):
            state['n'] += 1
            if state['n'] == fail_at:
                raise RuntimeError('transient failure of the correlation function')
            return orig(*a, **k)
        corr.correlation_2d_integral = flaky
        bath = oqupy.Bath(0.5 * oqupy.operators.sigma('z'), corr)
        bath._correlations = corr
        return oqupy.PtTempo(bath, 0.0, 0.8, _params(dkmax=2, tau=0.25))
    ref = build(-1)
    ref.compute(progress_type='silent')
    rt = ref.get_process_tensor(progress_type='silent')

    def _dyn_of(pt):
        sys_ = oqupy.System(0.4 * oqupy.operators.sigma('x'))
        return np.array(oqupy.compute_dynamics(sys_, initial_state=oqupy.operators.spin_dm('z+'), process_tensor=pt,
                                               progress_type='silent').states)
    ref_states = _dyn_of(rt)
    bad = []
    for fail_at in range(3, 12):
        p = build(fail_at)
        try:
            p.compute(progress_type='silent')
            continue
        except RuntimeError:
            pass
        try:
            p.compute(progress_type='silent')
        except Exception as e:
            continue                  # the repeated call fails again: allowed
        # the repeated compute() returned normally: the object must now hold the same
        # process tensor as an unfailed run
        try:
            t = p.get_process_tensor(progress_type='silent')
            same = len(t) == len(rt) and np.allclose(_dyn_of(t), ref_states, atol=1e-7)
            why = 'process tensor differs from the unfailed one'
        except Exception as e:
            same, why = False, 'repeated compute() returned normally but the object is broken: %s' % type(e).__name__
        if not same:
            bad.append({'fail_at_correlation_call': fail_at, 'why': why})
    return {'violates': bool(bad), 'detail': bad[:3]}


def gibbs_twice(inp):
    import oqupy
    sys_ = oqupy.System(0.3 * oqupy.operators.sigma('z'))
    g = oqupy.GibbsTempo(sys_, _bath(), oqupy.GibbsParameters(n_steps=6, epsrel=1e-6))
    g.compute(progress_type='silent')
    s1, n1 = np.array(g.get_state()), len(g.get_dynamics().times)
    g.compute(progress_type='silent')
    s2, n2 = np.array(g.get_state()), len(g.get_dynamics().times)
    bad = (n1 != n2) or not np.allclose(s1, s2, atol=1e-12)
    return {'violates': bool(bad), 'entries_after_first': n1, 'entries_after_second': n2,
            'max_state_change': float(np.abs(s1 - s2).max())}


def _chain(control=None, amps=None, start_step=0, start_time=0.0):
    import oqupy
    N = 3
    chain = oqupy.SystemChain(hilbert_space_dimensions=[2] * N)
    for n in range(N):
        chain.add_site_hamiltonian(site=n, hamiltonian=0.3 * (n + 1) * oqupy.operators.sigma('x'))
    for n in range(N - 1):
        chain.add_nn_hamiltonian(site=n, hamiltonian_l=0.5 * oqupy.operators.sigma('z'), hamiltonian_r=oqupy.operators.sigma('z'))
    if amps is None:
        amps = oqupy.AugmentedMPS([oqupy.operators.spin_dm('z-')] * N)
    return oqupy.PtTebd(initial_augmented_mps=amps, system_chain=chain, process_tensors=[None] * N,
                        parameters=oqupy.PtTebdParameters(dt=0.1, order=2, epsrel=1e-9), dynamics_sites=[0, 1, 2],
                        chain_control=control, start_time=start_time, start_step=start_step)


def _kick():
    import oqupy
    k = oqupy.operators.left_right_super(oqupy.operators.sigma('x') + 0.3 * oqupy.operators.sigma('z'),
                                         oqupy.operators.sigma('x') + 0.3 * oqupy.operators.sigma('z'))
    return k


def tebd_split(inp):
    ref = _chain().compute(6, progress_type='silent')
    bad = []
    for seq in ([2, 6], [6, 3], [1, 1, 4, 6, 2]):
        t = _chain()
        for k in seq:
            r = t.compute(k, progress_type='silent')
        ok = len(r['time']) == len(ref['time']) and np.allclose(r['time'], ref['time']) and all(
            np.allclose(r['dynamics'][s].states, ref['dynamics'][s].states, atol=1e-9) for s in (0, 1, 2))
        if not ok:
            bad.append({'targets': seq, 'times': [round(float(x), 3) for x in r['time']]})
    return {'violates': bool(bad), 'detail': bad[:2]}


def tebd_restart(inp):
    """restart from the exported chain state; with and without a pre-measurement control
    registered at the restart step"""
    import oqupy
    out = {}
    for label, ctl_step in (('no-pre-control-at-restart-step', 1), ('pre-control-at-restart-step', 2)):
        def ctl():
            c = oqupy.ChainControl([2, 2, 2])
            c.add_single_site_control(_kick(), 1, ctl_step, post=False)
            return c
        a = _chain(ctl())
        ra = a.compute(5, progress_type='silent')
        b0 = _chain(ctl())
        b0.compute(2, progress_type='silent')
        b = _chain(ctl(), amps=b0.get_augmented_mps(), start_step=2, start_time=b0.time(2))
        rb = b.compute(5, progress_type='silent')
        diff = max(np.abs(np.array(rb['dynamics'][s].states[-1]) - np.array(ra['dynamics'][s].states[-1])).max() for s in (0, 1, 2))
        out[label] = float(diff)
    which = inp.get('obligation', '')
    key = 'pre-control-at-restart-step' if which.endswith('[pre-control-at-restart-step]') else 'no-pre-control-at-restart-step'
    return {'violates': out[key] > 1e-8, 'max_difference': out, 'checked': key}


def mfb_exc_atomic(inp):
    import oqupy
    calls = {'n': 0, 'fail_at': -1}

    def eom(t, states, a):
        calls['n'] += 1
        if calls['n'] == calls['fail_at']:
            raise RuntimeError('transient failure of the field equation')
        return -0.1j * a + 0.2 * np.trace(states[0] @ oqupy.operators.sigma('x')).real

    def build():
        sysf = oqupy.TimeDependentSystemWithField(lambda t, a: 0.3 * oqupy.operators.sigma('x') + a.real * oqupy.operators.sigma('z'))
        mfs = oqupy.MeanFieldSystem([sysf], field_eom=eom)
        return oqupy.MeanFieldTempo(mfs, [_bath()], _params(), [oqupy.operators.spin_dm('z+')], initial_field=0.1 + 0j, start_time=0.0)
    calls.update(n=0, fail_at=-1)
    ref = build().compute(0.5, progress_type='silent')
    ref_fields = np.array(ref.fields)
    bad = []
    for fail_at in (2, 4, 6):      # even evaluations are the second one of a step
        calls.update(n=0, fail_at=fail_at)
        m = build()
        try:
            m.compute(0.5, progress_type='silent')
            continue
        except RuntimeError:
            pass
        calls['fail_at'] = -1
        try:
            d = m.compute(0.5, progress_type='silent')
            same = len(d.fields) == len(ref_fields) and np.allclose(d.fields, ref_fields, atol=1e-9)
        except Exception as e:
            same = True       # failing again is allowed
        if not same:
            bad.append({'fail_at_field_eom_call': fail_at, 'max_field_diff': float(np.abs(np.array(d.fields) - ref_fields).max())})
    return {'violates': bool(bad), 'detail': bad}


def tebd_query_between_computes(inp):
    """compute(k); get_current_density_matrix(sites); compute(n) must record what a single compute(n) records"""
    ref = _chain().compute(6, progress_type='silent')
    bad = []
    for seq in ([2, ('q', 0), 6], [1, ('q', 1), ('q', 2), 3, ('q', 0), 6]):
        t = _chain()
        for k in seq:
            if isinstance(k, tuple):
                t.get_current_density_matrix(k[1])
            else:
                r = t.compute(k, progress_type='silent')
        dev = max(float(np.abs(np.array(r['dynamics'][s].states) - np.array(ref['dynamics'][s].states)).max()) for s in (0, 1, 2))
        dn = float(np.abs(np.array(r['norm']) - np.array(ref['norm'])).max())
        if dev > 1e-9 or dn > 1e-9:
            bad.append({'history': [('query site %d' % k[1]) if isinstance(k, tuple) else 'compute(%d)' % k for k in seq],
                        'max_state_deviation_from_single_compute': dev, 'max_norm_deviation': dn})
    return {'violates': bool(bad), 'detail': bad}


# thorough tier (bounded native sweeps): (function, inputs, obligation of the open finding it reproduces or None)
THOROUGH = [('tempo_exc_atomic', {}, None), ('tempo_split', {}, None), ('pt_twice', {}, None), ('pt_exc_atomic', {}, None), ('gibbs_twice', {}, None), ('tebd_split', {}, None), ('tebd_query_between_computes', {}, None), ('tebd_restart', {}, None), ('tebd_restart', {'obligation': 'tebd/restart[pre-control-at-restart-step]'}, 'tebd/restart[pre-control-at-restart-step]'), ('mfb_exc_atomic', {}, 'mfb/exc-atomic[field-eom-second-evaluation]')]
