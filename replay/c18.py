"""Replays for C18 on the real code: non-commuting controls stacked on one step."""
import numpy as np


def _xy():
    rng = np.random.default_rng(7)
    x = rng.normal(size=(4, 4)) + 1j * rng.normal(size=(4, 4))
    y = rng.normal(size=(4, 4)) + 1j * rng.normal(size=(4, 4))
    return x, y


def chain_order(inp):
    from oqupy.control import ChainControl
    x, y = _xy()
    bad = []
    for post in (False, True):
        cc = ChainControl([2, 2, 2])
        cc.add_single_site_control(x, 1, 3, post=post)
        cc.add_single_site_control(y, 1, 3, post=post)
        got = cc.get_single_site_controls(3, post)[1]
        if not np.allclose(got, y @ x):
            bad.append({'post': post, 'matches_x_then_y': bool(np.allclose(got, y @ x)),
                        'matches_reverse': bool(np.allclose(got, x @ y))})
        if cc.get_single_site_controls(2, post) is not None:
            bad.append({'post': post, 'unexpected controls at step 2': True})
        # controls registered out of chronological order (site by site): every one must be found at its own step
        cc = ChainControl([2, 2, 2])
        cc.add_single_site_control(x, 0, 4, post=post)
        cc.add_single_site_control(y, 2, 1, post=post)
        cc.add_single_site_control(x, 1, 4, post=post)
        cc.add_single_site_control(y, 0, 1, post=post)
        for step, want in ((1, {0: y, 2: y}), (4, {0: x, 1: x}), (2, None)):
            got = cc.get_single_site_controls(step, post)
            if want is None:
                ok = got is None
            else:
                ok = got is not None and all((got[s] is None) if s not in want else (got[s] is not None and np.allclose(got[s], want[s])) for s in range(3))
            if not ok:
                bad.append({'post': post, 'step': step, 'registration order': 'step 4, step 1, step 4, step 1',
                            'sites with a control': None if got is None else [s for s in range(3) if got[s] is not None],
                            'required sites': None if want is None else sorted(want)})
    return {'violates': bool(bad), 'detail': bad, 'required': 'second-added @ first-added (insertion order)'}


def control_order(inp):
    from oqupy.control import Control
    x, y = _xy()
    bad = []
    for post in (False, True):
        c = Control(2)
        c.add_single(3, x, post=post)
        c.add_single(3, y, post=post)
        c.add_single(0.26, x, post=post)     # nearest step of 0.26 with dt 0.1 is 3
        pre, po = c.get_controls(3, dt=0.1, start_time=0.0)
        got = po if post else pre
        other = pre if post else po
        want = (y @ x) @ x if not post else x @ (y @ x)
        if got is None or not np.allclose(got, want) or other is not None:
            bad.append({'post': post})
        p2, q2 = c.get_controls(2, dt=0.1, start_time=0.0)
        if p2 is not None or q2 is not None:
            bad.append({'post': post, 'step2': 'not None'})
    # the same Control object used on a second time grid (no state may be carried over)
    for post in (False, True):
        c = Control(2)
        c.add_single(0.3, x, post=post)
        for dt, t0, want_step in ((0.1, 0.0, 3), (0.05, 0.0, 6), (0.1, 0.2, 1)):
            for step in range(0, 8):
                pre, po = c.get_controls(step, dt=dt, start_time=t0)
                got = po if post else pre
                if (got is not None) != (step == want_step):
                    bad.append({'post': post, 'grid': [dt, t0], 'step': step, 'control_present': got is not None, 'required': step == want_step})
    # a look-up must see controls added after an earlier look-up
    c = Control(2)
    c.get_controls(2, dt=0.1, start_time=0.0)
    c.add_single(2, x)
    c.add_single(2, y)
    pre, _ = c.get_controls(2, dt=0.1, start_time=0.0)
    if pre is None or not np.allclose(pre, y @ x):
        bad.append({'get-add-get': 'later additions not seen or composed in the wrong order'})
    return {'violates': bool(bad), 'detail': bad[:4]}


def dynamics_with_controls(inp):
    """compute_dynamics with pre- and post-measurement controls against the exact joint evolution (record_all True and False)"""
    from replay.c03 import exact_ancilla
    r = exact_ancilla(inp)
    r['detail'] = [d for d in r.get('detail', []) if 'transform' not in str(d.get('case'))]
    r['violates'] = bool(r['detail'])
    return r


def float_time_controls(inp):
    """compute_dynamics (closed system) with controls given by FLOAT time, pre and post, for start_time in {0, 2, -0.5}: the control acts
    at the step round((t - start_time)/dt), on the stated side of the measurement"""
    import oqupy
    from scipy.linalg import expm
    sx, sz = oqupy.operators.sigma('x'), oqupy.operators.sigma('z')
    H = 0.4 * sz + 0.2 * sx
    L = oqupy.System(H).liouvillian()
    kick = oqupy.operators.left_right_super(expm(-0.5j * sx), expm(0.5j * sx))
    rho0 = np.array([[0.8, 0.1 + 0.1j], [0.1 - 0.1j, 0.2]])
    dt, steps = 0.1, 6
    bad = []
    for t0 in (0.0, 2.0, -0.5):
        for post in (False, True):
            for at in (2, 4):
                c = oqupy.Control(2)
                c.add_single(float(t0 + at * dt), kick, post=post)
                d = oqupy.compute_dynamics(oqupy.System(H), initial_state=rho0, control=c, start_time=t0, dt=dt, num_steps=steps, progress_type='silent')
                v = rho0.reshape(-1).astype(complex)
                want = []
                for k in range(steps + 1):
                    if k == at and not post:
                        v = kick @ v
                    want.append(v.reshape(2, 2).copy())
                    if k == at and post:
                        v = kick @ v
                    v = expm(L * dt) @ v
                dev = float(np.abs(np.array(d.states) - np.array(want)).max())
                if dev > 1e-9:
                    bad.append({'start_time': t0, 'control at time': t0 + at * dt, 'post': post, 'max deviation': dev})
    return {'violates': bool(bad), 'detail': bad[:4]}


def tebd_controls(inp):
    """PT-TEBD on an uncoupled two-site chain with pre- and post-measurement chain controls (also registered out of
    chronological order): recorded states against direct propagation of each site"""
    import oqupy
    from scipy.linalg import expm
    ops = oqupy.operators
    N, dt, steps = 2, 0.1, 4
    hs = [0.3 * ops.sigma('x') + 0.1 * ops.sigma('z'), 0.5 * ops.sigma('y')]
    kick = ops.left_right_super(expm(-0.4j * ops.sigma('y')), expm(0.4j * ops.sigma('y')))
    damp = ops.left_right_super(np.diag([1.0, 0.5]), np.diag([1.0, 0.5]))
    sched = [(kick, 0, 2, False), (damp, 1, 1, True), (damp, 0, 2, True), (kick, 1, 3, False), (damp, 0, 0, False), (kick, 1, 0, True)]
    bad = []
    for order_of_registration in (sched, sched[::-1]):
        chain = oqupy.SystemChain(hilbert_space_dimensions=[2] * N)
        for n in range(N):
            chain.add_site_hamiltonian(site=n, hamiltonian=hs[n])
        cc = oqupy.ChainControl([2] * N)
        for sup, site, step, post in order_of_registration:
            cc.add_single_site_control(sup, site, step, post=post)
        # generic states: every control of the schedule (also the pre control of the FIRST step) changes the state it acts on
        states = [np.array([[0.7, 0.1 - 0.2j], [0.1 + 0.2j, 0.3]]), ops.spin_dm('x+')]
        t = oqupy.PtTebd(initial_augmented_mps=oqupy.AugmentedMPS(states), system_chain=chain, process_tensors=[None] * N,
                         parameters=oqupy.PtTebdParameters(dt=dt, order=2, epsrel=1e-10), dynamics_sites=[0, 1], chain_control=cc, backend_config={})
        r = t.compute(steps, progress_type='silent')
        single = []
        for n in range(N):
            L = oqupy.System(hs[n]).liouvillian()
            v = states[n].reshape(-1).astype(complex)
            want = []
            for k in range(steps + 1):
                for sup, site, step, post in sched:
                    if site == n and step == k and not post:
                        v = sup @ v
                want.append(v.reshape(2, 2).copy())
                for sup, site, step, post in sched:
                    if site == n and step == k and post:
                        v = sup @ v
                v = expm(L * dt) @ v
            single.append(np.array(want))
        for n in range(N):
            # the joint state is a product; a control that does not preserve the trace on the OTHER site rescales the reduced state
            other = np.array([np.trace(x) for x in single[1 - n]])
            want = single[n] * other[:, None, None]
            got = np.array(r['dynamics'][n].states)
            dev = float(np.abs(got - want).max())
            if dev > 1e-8:
                bad.append({'site': n, 'controls registered in reverse': order_of_registration is not sched, 'max deviation': dev})
    return {'violates': bool(bad), 'detail': bad}


# thorough tier (bounded native sweeps): (function, inputs, obligation of the open finding it reproduces or None)
def mixed_specification_order(inp):
    """two non-commuting kicks for the SAME step, one given by step number and one by float time, in both orders of addition, pre and
    post: the recorded dynamics must be those of `second @ first`"""
    import contextlib
    import io
    import scipy.linalg as la
    import oqupy
    from oqupy import operators as opr
    rng = np.random.default_rng(7)

    def rand_herm(d):
        a = rng.normal(size=(d, d)) + 1j * rng.normal(size=(d, d))
        return (a + a.conj().T) / 2
    d, dt, N, K = 2, 0.1, 4, 2
    H = rand_herm(d)
    U = la.expm(-1j * H * dt)
    P = opr.left_right_super(U, U.conj().T)
    a = rand_herm(d)
    rho0 = a @ a.conj().T
    rho0 /= np.trace(rho0)

    def kick():
        u = la.expm(-1j * rand_herm(d))
        return opr.left_right_super(u, u.conj().T)
    A, B = kick(), kick()

    def reference(post):
        v, out = rho0.reshape(-1).astype(complex), []
        for k in range(N + 1):
            if k == K and not post:
                v = B @ (A @ v)
            out.append(v.reshape(d, d).copy())
            if k == K and post:
                v = B @ (A @ v)
            v = P @ v
        return np.array(out)
    bad = []
    for post in (False, True):
        for s1, s2 in ((K, K * dt), (K * dt, K), (K, K), (K * dt, K * dt)):
            c = oqupy.Control(d)
            c.add_single(s1, A, post=post)
            c.add_single(s2, B, post=post)
            with contextlib.redirect_stdout(io.StringIO()):
                dyn = oqupy.compute_dynamics(oqupy.System(H), initial_state=rho0, dt=dt, num_steps=N, control=c, progress_type='silent')
            err = float(np.abs(np.array(dyn.states) - reference(post)).max())
            if err > 1e-8:
                bad.append({'post': post, 'added first at': repr(s1), 'added second at': repr(s2), 'deviation from the order of addition': err})
    return {'violates': bool(bad), 'detail': bad}


THOROUGH = [('chain_order', {}, None), ('control_order', {}, None), ('dynamics_with_controls', {}, None), ('tebd_controls', {}, None), ('float_time_controls', {}, None), ('mixed_specification_order', {}, 'ctrl/order-of-addition[step-and-float-time-at-one-step]')]
