"""Replays for C15 on the real code: run the function on (start, g, t_i) and on
(start+tau, g(. - tau), t_i+tau) and compare."""
import numpy as np
from replay.run import num


def _get(m, k, default):
    v = num((m or {}).get(k, default))
    try:
        return float(v)
    except Exception:
        return default


def shift(inp):
    import oqupy
    m = inp.get('model') or {}
    kind = inp.get('kind')
    tau = _get(m, 'tau', 0.37) or 0.37
    dt = abs(_get(m, 'dt', 0.1)) or 0.1
    t0 = _get(m, 'start_time', 0.3)
    step = int(num(m.get('step', 2))) if isinstance(m.get('step', 2), int) else 2
    step = max(0, min(step, 50))
    sx, sz = oqupy.operators.sigma('x'), oqupy.operators.sigma('z')
    bad = []
    taus = [tau, -0.23, 1.7 * dt]
    if kind == 'propagators':
        for with_field in (False, True):
            for subdiv in (None, 64):
                for ta in taus:
                    if with_field:
                        def mk(s):
                            return oqupy.TimeDependentSystemWithField(
                                lambda t, a, s=s: np.cos(t - s) * sx + (t - s) * sz + a.real * sx,
                                gammas=[lambda t, s=s: 0.1 + (t - s) ** 2], lindblad_operators=[lambda t, s=s: sz * (t - s)])
                        args = (step, 0.3 + 0.1j, -0.2 + 0.05j)
                    else:
                        def mk(s):
                            return oqupy.TimeDependentSystem(
                                lambda t, s=s: np.cos(t - s) * sx + (t - s) * sz,
                                gammas=[lambda t, s=s: 0.1 + (t - s) ** 2], lindblad_operators=[lambda t, s=s: sz * (t - s)])
                        args = (step,)
                    p = mk(0.0).get_propagators(dt, t0, subdiv, 1e-10)(*args)
                    q = mk(ta).get_propagators(dt, t0 + ta, subdiv, 1e-10)(*args)
                    err = max(np.abs(p[0] - q[0]).max(), np.abs(p[1] - q[1]).max())
                    if err > 1e-8:
                        bad.append({'with_field': with_field, 'subdiv_limit': subdiv, 'tau': ta, 'max_diff': float(err)})
    elif kind == 'controls':
        x = np.arange(16).reshape(4, 4) + 0.0
        for ta in taus + [0.04, 0.25 * dt, 0.5 * dt, 10.5 * dt, -0.35 * dt]:
            for frac in (0.0, 0.2, 0.45, 0.7):
                for post in (False, True):
                    c1, c2 = oqupy.Control(2), oqupy.Control(2)
                    tc = t0 + (step + frac) * dt
                    c1.add_single(float(tc), x, post=post)
                    c2.add_single(float(tc + ta), x, post=post)
                    for st in range(max(0, step - 1), step + 3):
                        r1 = c1.get_controls(st, dt=dt, start_time=t0)
                        r2 = c2.get_controls(st, dt=dt, start_time=t0 + ta)
                        same = all((a is None and b is None) or (a is not None and b is not None and np.allclose(a, b)) for a, b in zip(r1, r2))
                        if not same:
                            bad.append({'tau': ta, 'control_time': tc, 'dt': dt, 'start_time': t0, 'step': st, 'post': post,
                                        'control_present_unshifted': r1[1 if post else 0] is not None,
                                        'control_present_shifted': r2[1 if post else 0] is not None})
    elif kind == 'correlations':
        # two-time correlations of an explicitly time dependent system: (start, H, times) vs (start+tau, H(. - tau), times+tau)
        from replay.c03 import _ancilla_pt
        env0 = np.array([[0.6, 0.1], [0.1, 0.4]])
        pt, _ = _ancilla_pt(0.2, 5, 0.9 * np.kron(sz, sx), 0.3 * sz, env0)
        for ta in taus:
            def mk(s):
                return oqupy.TimeDependentSystem(lambda t, s=s: (0.4 + 0.5 * np.sin(2 * (t - s))) * sx + 0.3 * (t - s) * sz)
            rho0 = oqupy.operators.spin_dm('y+')
            a = oqupy.compute_correlations_nt(mk(0.0), pt, [sx, sz], [(t0, t0 + 0.6), (t0 + 0.2, t0 + 0.8)], ['left', 'left'],
                                              initial_state=rho0, start_time=t0, progress_type='silent')
            b = oqupy.compute_correlations_nt(mk(ta), pt, [sx, sz], [(t0 + ta, t0 + ta + 0.6), (t0 + ta + 0.2, t0 + ta + 0.8)], ['left', 'left'],
                                              initial_state=rho0, start_time=t0 + ta, progress_type='silent')
            va, vb = np.array(a[1]), np.array(b[1])
            lab = max(float(np.abs(np.array(b[0][k]) - np.array(a[0][k]) - ta).max()) for k in range(2))
            dev = float(np.nanmax(np.abs(va - vb))) if va.shape == vb.shape and (np.isnan(va) == np.isnan(vb)).all() else float('inf')
            if dev > 1e-9 or lab > 1e-9:
                bad.append({'tau': ta, 'max_change_of_correlation_values': dev, 'time_labels_not_shifted_by_tau': lab})
    elif kind == 'parse':
        from oqupy.system_dynamics import _parse_times
        N = 12
        for ta in taus:
            for spec in (t0 + 3.2 * dt, (t0 + 1.1 * dt, t0 + 6.9 * dt), (t0 + 7 * dt, t0 + 2 * dt)):
                sh = spec + ta if isinstance(spec, float) else (spec[0] + ta, spec[1] + ta)
                a = list(_parse_times(spec, N, dt, t0))
                b = list(_parse_times(sh, N, dt, t0 + ta))
                if a != b:
                    bad.append({'tau': ta, 'spec': spec, 'unshifted': a, 'shifted': b})
    elif kind in ('time', 'steps'):
        import oqupy.tempo as T

        class P:
            pass

        class S:
            pass
        for cls in (T.Tempo, T.MeanFieldTempo):
            for ta in taus:
                s1, s2 = S(), S()
                s1._parameters = s2._parameters = P()
                s1._parameters.dt = dt
                s1._start_time, s2._start_time = t0, t0 + ta
                if kind == 'time':
                    a, b = cls._time(s1, step), cls._time(s2, step)
                    if abs((b - a) - ta) > 1e-12:
                        bad.append({'cls': cls.__name__, 'tau': ta, 'unshifted': a, 'shifted': b})
                else:
                    for mm in (3, 7.4):
                        a = cls._get_num_step(s1, 0, t0 + mm * dt)
                        b = cls._get_num_step(s2, 0, t0 + ta + mm * dt)
                        if a != b:
                            bad.append({'cls': cls.__name__, 'tau': ta, 'm': mm, 'unshifted': a, 'shifted': b})
    return {'violates': bool(bad), 'kind': kind, 'detail': bad[:4]}


def mean_field_shift(inp):
    """MeanFieldTempo with an EXPLICITLY time dependent field equation of motion and a Hamiltonian that depends on the field:
    (start, f, H) from t0 against (start + tau, f(. - tau), H(. - tau)): times shift by tau, fields and states are unchanged"""
    import oqupy
    sx, sz = oqupy.operators.sigma('x'), oqupy.operators.sigma('z')
    corr = oqupy.PowerLawSD(alpha=0.1, zeta=1.0, cutoff=3.0, cutoff_type='exponential', temperature=0.2)
    bath = oqupy.Bath(0.5 * sz, corr)
    par = oqupy.TempoParameters(dt=0.1, dkmax=3, epsrel=1e-8)
    rho0 = oqupy.operators.spin_dm('y+')

    def run(t0, s):
        sysf = oqupy.TimeDependentSystemWithField(lambda t, a, s=s: (0.4 + 0.3 * np.sin(2 * (t - s))) * sx + 2.0 * a.real * sz)
        mfs = oqupy.MeanFieldSystem([sysf], lambda t, states, a, s=s: -0.2j * a + 1.5 * (t - s) + 0.3 * np.trace(states[0] @ sx).real)
        mf = oqupy.MeanFieldTempo(mean_field_system=mfs, bath_list=[bath], initial_state_list=[rho0], initial_field=0.2 + 0.1j, start_time=t0,
                                  parameters=par)
        d = mf.compute(end_time=t0 + 0.5, progress_type='silent')
        return np.array(d.times), np.array(d.fields), np.array(d.system_dynamics[0].states)
    bad = []
    t0 = 0.0
    ref = run(t0, 0.0)
    for tau in (3.0, -1.7, 0.25):
        got = run(t0 + tau, tau)
        if ref[0].shape != got[0].shape:
            bad.append({'tau': tau, 'number of time points': [len(ref[0]), len(got[0])]})
            continue
        dt_, df, ds = (float(np.abs(got[0] - ref[0] - tau).max()), float(np.abs(got[1] - ref[1]).max()), float(np.abs(got[2] - ref[2]).max()))
        if dt_ > 1e-9 or df > 1e-9 or ds > 1e-9:
            bad.append({'tau': tau, 'time labels not shifted by tau': dt_, 'change of the fields': df, 'change of the states': ds})
    return {'violates': bool(bad), 'detail': bad}


# thorough tier (bounded native sweeps): (function, inputs, obligation of the open finding it reproduces or None)
THOROUGH = [('shift', {'kind': k}, None) for k in ('propagators', 'controls', 'parse', 'time', 'steps', 'correlations')] + \
    [('mean_field_shift', {}, None)]
