"""Replays for C07 on the real code."""
import numpy as np
from replay.run import num


def _spec_interval(a, b, t0, dt, N):
    ia, ib = int(np.round((a - t0) / dt)), int(np.round((b - t0) / dt))
    if ia < 0 or ia > N or ib < 0 or ib > N:
        return None
    d = 1 if ia <= ib else -1
    return list(range(ia, ib + d, d))


def parse_times(m):
    from oqupy.system_dynamics import _parse_times
    N, dt, t0 = int(m['max_step']), float(num(m['dt'])), float(num(m['start_time']))
    times = m['times']
    if isinstance(times, list) and times and times[0] == 'slice':
        spec_in = slice(*times[1:])
        want = list(range(N + 1))[spec_in]
    elif isinstance(times, list) and len(times) == 2 and any(isinstance(x, dict) for x in times):
        a, b = float(num(times[0])), float(num(times[1]))
        spec_in = (a, b)
        want = _spec_interval(a, b, t0, dt, N)
    elif isinstance(times, list):
        spec_in = [int(x) for x in times]
        want = None if any(x < -(N + 1) or x > N for x in spec_in) else [x if x >= 0 else x + N + 1 for x in spec_in]
    elif isinstance(times, dict):
        spec_in = float(num(times))
        k = int(np.round((spec_in - t0) / dt))
        want = None if (k < 0 or k > N) else [k]
    else:
        spec_in = int(times)
        want = None if (spec_in < 0 or spec_in > N) else [spec_in]
    try:
        got = [int(x) for x in _parse_times(spec_in, N, dt, t0)]
    except IndexError:
        got = None
    return {'violates': got != want, 'input': repr((spec_in, N, dt, t0)), 'observed': got, 'required': want}


def _exact_pt(stored_dt=None):
    """a process tensor of a trivial environment (identity MPO tensors): correlations are
    then those of the closed system and can be computed directly"""
    import oqupy
    from oqupy.process_tensor import SimpleProcessTensor
    n = 6
    pt = SimpleProcessTensor(2, dt=stored_dt)
    for k in range(n):
        pt.set_mpo_tensor(k, np.ones((1, 1, 4)))
    pt.compute_caps()
    return pt, n


def nt_alignment(inp):
    """every list permutation / direction of the last axis: entry [n, m] must be the
    correlation of exactly (times_a[n], times_b[m]), NaN iff t_b < t_a; and dt governs the dynamics"""
    import oqupy
    from scipy.linalg import expm
    sx, sz = oqupy.operators.sigma('x'), oqupy.operators.sigma('z')
    H = 0.7 * sx + 0.2 * sz
    sys_ = oqupy.System(H)
    rho0 = oqupy.operators.spin_dm('y+')
    pt, n = _exact_pt()
    dt = 0.2
    A, B = sz, sx

    def exact(ka, kb):
        ua, ub = expm(-1j * H * dt * ka), expm(-1j * H * dt * (kb - ka))
        r = A @ (ua @ rho0 @ ua.conj().T)
        return np.trace(B @ (ub @ r @ ub.conj().T))
    bad = []
    try:
        oqupy.compute_correlations(sys_, pt, A, B, 1, 2, initial_state=rho0, start_time=0.0, dt=dt, progress_type='silent')
    except ValueError as e:
        bad.append({'dt_argument': dt, 'process_tensor_dt': None, 'observed': 'ValueError: %s' % e,
                    'required': 'the dt given by the caller governs the dynamics'})
        pt, n = _exact_pt(stored_dt=dt)
    for ta in ([1, 2], [3, 0, 2], 2):
        for tb in ([4, 3, 2, 1], [1, 2, 3, 4], [0, 5, 2], slice(None, None, -1), (1.0, 0.2), (0.0, 1.0)):
            times, corr = oqupy.compute_correlations(sys_, pt, A, B, ta, tb, time_order='ordered', initial_state=rho0,
                                                     start_time=0.0, dt=dt, progress_type='silent')
            sa = np.round(np.array(times[0]) / dt).astype(int)
            sb = np.round(np.array(times[1]) / dt).astype(int)
            for i, ka in enumerate(sa):
                for j, kb in enumerate(sb):
                    got = corr[i, j]
                    if kb < ka:
                        ok = np.isnan(got)
                    else:
                        ok = (not np.isnan(got)) and abs(got - exact(ka, kb)) < 1e-8
                    if not ok:
                        bad.append({'times_a': str(ta), 'times_b': str(tb), 'entry': [i, j], 'steps': [int(ka), int(kb)],
                                    'observed': str(got), 'required': 'NaN' if kb < ka else str(exact(ka, kb))})
    # empty selections (for either operator, either time order): an empty axis, no exception
    for order in ('ordered', 'anti'):
        for ta, tb in (([1, 2], []), ([], [1, 2]), ([1, 2], slice(2, 2)), (slice(2, 2), [1, 2]), ([], [])):
            try:
                times, corr = oqupy.compute_correlations(sys_, pt, A, B, ta, tb, time_order=order, initial_state=rho0, start_time=0.0, dt=dt,
                                                         progress_type='silent')
                if tuple(corr.shape) != (len(times[0]), len(times[1])) or 0 not in corr.shape:
                    bad.append({'times_a': str(ta), 'times_b': str(tb), 'time_order': order, 'shape': list(corr.shape)})
            except Exception as e:       # noqa
                bad.append({'times_a': str(ta), 'times_b': str(tb), 'time_order': order, 'observed': type(e).__name__ + ': ' + str(e)[:80],
                            'required': 'an array with an empty axis'})
    return {'violates': bool(bad), 'detail': bad[:3], 'n_bad_entries': len(bad)}


def nt_ordering_many_operators(inp):
    """3 and 4 operators on a closed system (trivial process tensor), every earlier operator over several steps so that out-of-order
    combinations occur: an entry is a number iff t_1 <= t_2 <= ... <= t_n, and then equals the directly computed ordered correlation"""
    import itertools
    import oqupy
    from scipy.linalg import expm
    sx, sy, sz = [oqupy.operators.sigma(c) for c in 'xyz']
    H = 0.7 * sx + 0.2 * sz
    sys_ = oqupy.System(H)
    rho0 = oqupy.operators.spin_dm('y+')
    dt = 0.2
    pt, n = _exact_pt(stored_dt=dt)
    ops_all = [sz, sx, sy, sz + 0.3 * sx]
    bad = []

    def exact(ops, steps):
        rho, t = rho0.astype(complex), 0
        for o, k in zip(ops[:-1], steps[:-1]):
            u = expm(-1j * H * dt * (k - t))
            rho = o @ (u @ rho @ u.conj().T)        # every operator acts from the left
            t = k
        u = expm(-1j * H * dt * (steps[-1] - t))
        return np.trace(ops[-1] @ (u @ rho @ u.conj().T))
    for nops, specs in ((3, [slice(0, 3), [2, 0, 1], slice(1, 4)]), (4, [slice(0, 3), slice(0, 3), [1, 3, 2], slice(3, 6)])):
        ops = ops_all[:nops]
        times, corr = oqupy.compute_correlations_nt(sys_, pt, ops, specs, ['left'] * nops, initial_state=rho0, start_time=0.0, progress_type='silent')
        steps = [np.round(np.array(t) / dt).astype(int) for t in times]
        for idx in itertools.product(*[range(len(s)) for s in steps]):
            ks = [int(steps[a][i]) for a, i in enumerate(idx)]
            got = corr[idx]
            inside = all(ks[a] <= ks[a + 1] for a in range(nops - 1))
            ok = ((not np.isnan(got)) and abs(got - exact(ops, ks)) < 1e-8) if inside else np.isnan(got)
            if not ok:
                bad.append({'operators': nops, 'steps': ks, 'observed': str(got), 'required': str(exact(ops, ks)) if inside else 'NaN'})
    return {'violates': bool(bad), 'detail': bad[:4], 'n_bad_entries': len(bad)}


def three_operators_same_step(inp):
    """<C(t) B(s) A(s)> with A and B at the SAME step must equal the two-operator correlation
    <C(t) (BA)(s)>  (both operators on the left) resp. <C(t) rho (AB)> ordering on the right"""
    import oqupy
    sx, sy, sz = [oqupy.operators.sigma(c) for c in 'xyz']
    pt, n = _exact_pt(stored_dt=0.2)
    sys_ = oqupy.System(0.7 * sx + 0.2 * sz)
    rho0 = np.array([[0.7, 0.2 - 0.1j], [0.2 + 0.1j, 0.3]])
    A, B, C = sz + 0.3 * sx, sy + 0.2 * sz, sx
    bad = []
    for s in (0, 2, 3):
        for order, prod in ((['left', 'left', 'left'], B @ A), (['right', 'right', 'left'], A @ B)):
            _, c3 = oqupy.compute_correlations_nt(sys_, pt, [A, B, C], [s, s, [s, 4]], order, initial_state=rho0, progress_type='silent')
            _, c2 = oqupy.compute_correlations_nt(sys_, pt, [prod, C], [s, [s, 4]], [order[0], 'left'], initial_state=rho0, progress_type='silent')
            err = float(np.nanmax(np.abs(c3[0, 0] - c2[0])))
            if err > 1e-9:
                bad.append({'step': s, 'ops_order': order, 'max_error': err})
    return {'violates': bool(bad), 'detail': bad[:3]}


def nt_start_time(inp):
    """the dynamics inside compute_correlations_nt use the caller's start time (explicitly time dependent system)"""
    from replay.c15 import shift
    return shift({'kind': 'correlations'})


def anti_axes(inp):
    """compute_correlations(time_order='anti') with DIFFERENT specifications for times_a and times_b: the returned axes are
    [times of A, times of B], the array is indexed [a, b], and entry [a, b] is what the multi-time routine computed for
    (B at times_b[b], then A at times_a[a])"""
    import oqupy
    from replay.c03 import _ancilla_pt
    sx, sy, sz = [oqupy.operators.sigma(c) for c in 'xyz']
    env0 = np.array([[0.6, 0.1], [0.1, 0.4]])
    pt, _ = _ancilla_pt(0.1, 6, 0.9 * np.kron(sz, sx), 0.3 * sz, env0)
    sys_ = oqupy.System(0.4 * sx + 0.1 * sz)
    A, B = sx + 0.3j * sy, sz + 0.2 * sx
    rho0 = oqupy.operators.spin_dm('y+')
    bad = []
    for ta, tb, want_a, want_b in (([5, 3], (0.1, 0.3), [0.5, 0.3], [0.1, 0.2, 0.3]), (4, [1, 2, 3, 6], [0.4], [0.1, 0.2, 0.3, 0.6])):
        times, corr = oqupy.compute_correlations(sys_, pt, A, B, ta, tb, time_order='anti', initial_state=rho0, progress_type='silent')
        t_nt, c_nt = oqupy.compute_correlations_nt(sys_, pt, [B, A], [tb, ta], ['right', 'left'], initial_state=rho0, progress_type='silent')
        same = lambda x, y: len(x) == len(y) and np.allclose(x, y)
        ok_axes = len(times) == 2 and same(times[0], want_a) and same(times[1], want_b)
        corr = np.array(corr)
        ok_shape = corr.shape == (len(want_a), len(want_b))
        ok_vals = ok_shape and np.allclose(np.nan_to_num(corr, nan=-7.0), np.nan_to_num(np.array(c_nt).T, nan=-7.0))
        if not (ok_axes and ok_shape and ok_vals):
            bad.append({'times_a': str(ta), 'times_b': str(tb), 'returned axes': [list(map(float, x)) for x in times], 'array shape': list(corr.shape),
                        'axes as required': ok_axes, 'entries as required': bool(ok_vals)})
    return {'violates': bool(bad), 'detail': bad}


def bath_closed_form(inp):
    """pure dephasing (coupling operator conserved): bath-mode occupations and two-time bath correlations computed from the
    PT-TEMPO process tensor against the displaced-oscillator closed form, for every dagg, coinciding and distinct frequencies,
    t_1 < t_2 and t_1 = t_2, zero and finite temperature"""
    import io
    import contextlib
    import oqupy
    sz = oqupy.operators.sigma('z')
    bad = []
    sy = oqupy.operators.sigma('y')
    for temp, cop in ((0.7, 0.5 * sz), (0.0, 0.5 * sz), (0.7, 0.5 * (0.6 * sy - 0.8 * sz))):
        corr = oqupy.PowerLawSD(alpha=0.2, zeta=1.0, cutoff=3.0, cutoff_type='exponential', temperature=temp)
        bath = oqupy.Bath(cop, corr)
        par = oqupy.TempoParameters(dt=0.1, dkmax=None, epsrel=1e-9)
        pt = oqupy.pt_tempo_compute(bath, 0.0, 0.8, par, progress_type='silent')
        rho = np.array([[0.6, 0.2 - 0.1j], [0.2 + 0.1j, 0.4]])
        b = oqupy.bath_dynamics.TwoTimeBathCorrelations(oqupy.System(0.8 * cop), bath, pt, initial_state=rho)
        o2 = 0.25                                   # <O^2> for O = sigma_z / 2

        def n_th(w):
            return np.exp(-w / temp) / (1 - np.exp(-w / temp)) if temp > 0 else 0.0
        for w in (0.5, 1.3, 4.0):
            for change_only in (True, False):
                t, occ = b.occupation(w, 0.1, change_only=change_only, progress_type='silent')
                want = corr.spectral_density(w) * 0.1 * o2 * (2 - 2 * np.cos(w * t)) / w ** 2 + (0 if change_only else n_th(w))
                dev = float(np.abs(occ - want).max()) if len(occ) == len(want) else float('inf')
                if dev > 2e-8 or np.abs(t - 0.1 * np.arange(len(t))).max() > 1e-12:
                    bad.append({'temperature': temp, 'diagonal coupling operator': bool(np.allclose(cop, np.diag(np.diag(cop)))), 'occupation at frequency': w, 'change_only': change_only, 'max deviation from the closed form': dev})

        def integral(w, t, s):                      # int_0^t exp(s i w u) du
            return (np.exp(s * 1j * w * t) - 1) / (s * 1j * w)
        cases = [(0.5, 0.3, 0.5, 0.3), (0.5, 0.3, 1.3, 0.6), (1.3, 0.4, 1.3, 0.8), (0.5, 0.2, 1.3, 0.7), (2.0, 0.0, 0.7, 0.5)]
        for (w1, t1, w2, t2) in cases:
            for dagg in ((1, 0), (0, 1), (1, 1), (0, 0)):
                for ip_ in (True, False):
                    for change_only in (True, False):
                        if t1 == 0.0 and not change_only:
                            continue
                        c = b.correlation(w1, t1, w2, t2, dw=(0.1, 0.2), dagg=dagg, change_only=change_only, interaction_picture=ip_,
                                          progress_type='silent')
                        g1, g2 = 0.1 * corr.spectral_density(w1) ** 0.5, 0.2 * corr.spectral_density(w2) ** 0.5
                        amp2 = (1j if dagg[0] == 1 else -1j) * g2 * integral(w2, t2, -1 if dagg[0] == 1 else 1)
                        amp1 = (1j if dagg[1] == 1 else -1j) * g1 * integral(w1, t1, -1 if dagg[1] == 1 else 1)
                        want = o2 * amp2 * amp1
                        if not change_only and w1 == w2 and dagg in ((1, 0), (0, 1)):
                            want += n_th(w1) + (1 if dagg == (0, 1) else 0)
                        if not ip_:
                            want *= np.exp(1j * ((2 * dagg[0] - 1) * w2 * t2 + (2 * dagg[1] - 1) * w1 * t1))
                        if abs(c - want) > 2e-8:
                            bad.append({'temperature': temp, 'correlation (w1,t1,w2,t2)': [w1, t1, w2, t2], 'dagg': list(dagg), 'interaction_picture': ip_,
                                        'change_only': change_only, 'got': str(complex(c)), 'closed form': str(complex(want))})
    # FRESH objects (nothing generated yet): a correlation whose latest time is one step; occupation time axes for several lengths
    temp, cop = 0.7, 0.5 * sz
    corr = oqupy.PowerLawSD(alpha=0.2, zeta=1.0, cutoff=3.0, cutoff_type='exponential', temperature=temp)
    bath = oqupy.Bath(cop, corr)
    par = oqupy.TempoParameters(dt=0.1, dkmax=None, epsrel=1e-9)
    rho = np.array([[0.6, 0.2 - 0.1j], [0.2 + 0.1j, 0.4]])
    for n in (2, 11, 12, 14):
        pt = oqupy.pt_tempo_compute(bath, 0.0, n * 0.1, par, progress_type='silent')
        for (w1, t1, w2, t2) in ((0.5, 0.1, 1.3, 0.1), (0.5, 0.0, 1.3, 0.1)):
            b = oqupy.bath_dynamics.TwoTimeBathCorrelations(oqupy.System(0.8 * cop), bath, pt, initial_state=rho)
            c = b.correlation(w1, t1, w2, t2, dw=(0.1, 0.2), dagg=(1, 0), change_only=True, interaction_picture=True, progress_type='silent')
            g1, g2 = 0.1 * corr.spectral_density(w1) ** 0.5, 0.2 * corr.spectral_density(w2) ** 0.5
            want = 0.25 * (1j * g2 * integral(w2, t2, -1)) * (-1j * g1 * integral(w1, t1, 1))
            if abs(c - want) > 2e-8:
                bad.append({'fresh object, process tensor length': n, 'correlation (w1,t1,w2,t2)': [w1, t1, w2, t2], 'got': str(complex(c)),
                            'closed form': str(complex(want))})
        b = oqupy.bath_dynamics.TwoTimeBathCorrelations(oqupy.System(0.8 * cop), bath, pt, initial_state=rho)
        t, occ = b.occupation(1.3, 0.1, change_only=True, progress_type='silent')
        if len(t) != n + 1 or len(occ) != n + 1 or np.abs(np.asarray(t)[:n + 1] - 0.1 * np.arange(n + 1)).max() > 1e-12:
            bad.append({'occupation: process tensor length': n, 'number of times': len(t), 'number of values': len(occ), 'required': n + 1})
    return {'violates': bool(bad), 'detail': bad[:6], 'number of deviations': len(bad)}


def caller_dt_conflict(inp):
    """a caller dt that differs from the time step STORED in the process tensor: announced as used; it must then govern axes and dynamics"""
    import warnings
    import oqupy
    from scipy.linalg import expm
    sx, sz = oqupy.operators.sigma('x'), oqupy.operators.sigma('z')
    H = 0.7 * sx + 0.2 * sz
    rho0 = oqupy.operators.spin_dm('y+')
    pt, n = _exact_pt(stored_dt=0.1)
    dt = 0.2
    try:
        with warnings.catch_warnings():
            warnings.simplefilter('ignore')
            times, corr = oqupy.compute_correlations(oqupy.System(H), pt, sz, sx, 1, 2, initial_state=rho0, start_time=0.0, dt=dt, progress_type='silent')
    except Exception as e:       # noqa
        return {'violates': True, 'detail': {'process_tensor.dt': 0.1, 'dt': dt, 'observed': type(e).__name__ + ': ' + str(e)[:80],
                                             'required': 'the announced time step governs time axes and dynamics'}}
    ua, ub = expm(-1j * H * dt * 1), expm(-1j * H * dt * 1)
    want = np.trace(sx @ (ub @ (sz @ (ua @ rho0 @ ua.conj().T)) @ ub.conj().T))
    ok = abs(times[0][0] - dt) < 1e-12 and abs(times[1][0] - 2 * dt) < 1e-12 and abs(corr[0, 0] - want) < 1e-8
    return {'violates': not ok, 'detail': {'times': [float(times[0][0]), float(times[1][0])], 'value': str(corr[0, 0]), 'required': str(want)}}


# thorough tier (bounded native sweeps): (function, inputs, obligation of the open finding it reproduces or None)
THOROUGH = [('nt_alignment', {}, None), ('three_operators_same_step', {}, None), ('nt_start_time', {}, None), ('anti_axes', {}, None), ('bath_closed_form', {}, None), ('nt_ordering_many_operators', {}, None), ('caller_dt_conflict', {}, 'nt/callee-accepts-the-time-step[caller-dt-differs-from-pt-dt]')]
