"""Replays for C07 on the real code."""
import numpy as np
from replay.run import num


def _spec_interval(a, b, t0, dt, N):
    ia, ib = int(np.round((a - t0) / dt)), int(np.round((b - t0) / dt))
    if ia < 0 or ia > N or ib < 0 or ib > N:
        return None
    d = 1 if ia <= ib else -1
    return list(range(ia, ib + d, d))


def parse_times(m):
    from oqupy.system_dynamics import _parse_times
    N, dt, t0 = int(m['max_step']), float(num(m['dt'])), float(num(m['start_time']))
    times = m['times']
    if isinstance(times, list) and times and times[0] == 'slice':
        spec_in = slice(*times[1:])
        want = list(range(N + 1))[spec_in]
    elif isinstance(times, list) and len(times) == 2 and any(isinstance(x, dict) for x in times):
        a, b = float(num(times[0])), float(num(times[1]))
        spec_in = (a, b)
        want = _spec_interval(a, b, t0, dt, N)
    elif isinstance(times, list):
        spec_in = [int(x) for x in times]
        want = None if any(x < -(N + 1) or x > N for x in spec_in) else [x if x >= 0 else x + N + 1 for x in spec_in]
    elif isinstance(times, dict):
        spec_in = float(num(times))
        k = int(np.round((spec_in - t0) / dt))
        want = None if (k < 0 or k > N) else [k]
    else:
        spec_in = int(times)
        want = None if (spec_in < 0 or spec_in > N) else [spec_in]
    try:
        got = [int(x) for x in _parse_times(spec_in, N, dt, t0)]
    except IndexError:
        got = None
    return {'violates': got != want, 'input': repr((spec_in, N, dt, t0)), 'observed': got, 'required': want}
