"""Replays for C07 on the real code."""
import numpy as np
from replay.run import num


def _spec_interval(a, b, t0, dt, N):
    ia, ib = int(np.round((a - t0) / dt)), int(np.round((b - t0) / dt))
    if ia < 0 or ia > N or ib < 0 or ib > N:
        return None
    d = 1 if ia <= ib else -1
    return list(range(ia, ib + d, d))


def parse_times(m):
    from oqupy.system_dynamics import _parse_times
    N, dt, t0 = int(m['max_step']), float(num(m['dt'])), float(num(m['start_time']))
    times = m['times']
    if isinstance(times, list) and times and times[0] == 'slice':
        spec_in = slice(*times[1:])
        want = list(range(N + 1))[spec_in]
    elif isinstance(times, list) and len(times) == 2 and any(isinstance(x, dict) for x in times):
        a, b = float(num(times[0])), float(num(times[1]))
        spec_in = (a, b)
        want = _spec_interval(a, b, t0, dt, N)
    elif isinstance(times, list):
        spec_in = [int(x) for x in times]
        want = None if any(x < -(N + 1) or x > N for x in spec_in) else [x if x >= 0 else x + N + 1 for x in spec_in]
    elif isinstance(times, dict):
        spec_in = float(num(times))
        k = int(np.round((spec_in - t0) / dt))
        want = None if (k < 0 or k > N) else [k]
    else:
        spec_in = int(times)
        want = None if (spec_in < 0 or spec_in > N) else [spec_in]
    try:
        got = [int(x) for x in _parse_times(spec_in, N, dt, t0)]
    except IndexError:
        got = None
    return {'violates': got != want, 'input': repr((spec_in, N, dt, t0)), 'observed': got, 'required': want}


def _exact_pt(stored_dt=None):
    """a process tensor of a trivial environment (identity MPO tensors): correlations are
    then those of the closed system and can be computed directly"""
    import oqupy
    from oqupy.process_tensor import SimpleProcessTensor
    n = 6
    pt = SimpleProcessTensor(2, dt=stored_dt)
    for k in range(n):
        pt.set_mpo_tensor(k, np.ones((1, 1, 4)))
    pt.compute_caps()
    return pt, n


def nt_alignment(inp):
    """every list permutation / direction of the last axis: entry [n, m] must be the
    correlation of exactly (times_a[n], times_b[m]), NaN iff t_b < t_a; and dt governs the dynamics"""
    import oqupy
    from scipy.linalg import expm
    sx, sz = oqupy.operators.sigma('x'), oqupy.operators.sigma('z')
    H = 0.7 * sx + 0.2 * sz
    sys_ = oqupy.System(H)
    rho0 = oqupy.operators.spin_dm('y+')
    pt, n = _exact_pt()
    dt = 0.2
    A, B = sz, sx

    def exact(ka, kb):
        ua, ub = expm(-1j * H * dt * ka), expm(-1j * H * dt * (kb - ka))
        r = A @ (ua @ rho0 @ ua.conj().T)
        return np.trace(B @ (ub @ r @ ub.conj().T))
    bad = []
    try:
        oqupy.compute_correlations(sys_, pt, A, B, 1, 2, initial_state=rho0, start_time=0.0, dt=dt, progress_type='silent')
    except ValueError as e:
        bad.append({'dt_argument': dt, 'process_tensor_dt': None, 'observed': 'ValueError: %s' % e,
                    'required': 'the dt given by the caller governs the dynamics'})
        pt, n = _exact_pt(stored_dt=dt)
    for ta in ([1, 2], [3, 0, 2], 2):
        for tb in ([4, 3, 2, 1], [1, 2, 3, 4], [0, 5, 2], slice(None, None, -1), (1.0, 0.2), (0.0, 1.0)):
            times, corr = oqupy.compute_correlations(sys_, pt, A, B, ta, tb, time_order='ordered', initial_state=rho0,
                                                     start_time=0.0, dt=dt, progress_type='silent')
            sa = np.round(np.array(times[0]) / dt).astype(int)
            sb = np.round(np.array(times[1]) / dt).astype(int)
            for i, ka in enumerate(sa):
                for j, kb in enumerate(sb):
                    got = corr[i, j]
                    if kb < ka:
                        ok = np.isnan(got)
                    else:
                        ok = (not np.isnan(got)) and abs(got - exact(ka, kb)) < 1e-8
                    if not ok:
                        bad.append({'times_a': str(ta), 'times_b': str(tb), 'entry': [i, j], 'steps': [int(ka), int(kb)],
                                    'observed': str(got), 'required': 'NaN' if kb < ka else str(exact(ka, kb))})
    return {'violates': bool(bad), 'detail': bad[:3], 'n_bad_entries': len(bad)}


def three_operators_same_step(inp):
    """<C(t) B(s) A(s)> with A and B at the SAME step must equal the two-operator correlation
    <C(t) (BA)(s)>  (both operators on the left) resp. <C(t) rho (AB)> ordering on the right"""
    import oqupy
    sx, sy, sz = [oqupy.operators.sigma(c) for c in 'xyz']
    pt, n = _exact_pt(stored_dt=0.2)
    sys_ = oqupy.System(0.7 * sx + 0.2 * sz)
    rho0 = np.array([[0.7, 0.2 - 0.1j], [0.2 + 0.1j, 0.3]])
    A, B, C = sz + 0.3 * sx, sy + 0.2 * sz, sx
    bad = []
    for s in (0, 2, 3):
        for order, prod in ((['left', 'left', 'left'], B @ A), (['right', 'right', 'left'], A @ B)):
            _, c3 = oqupy.compute_correlations_nt(sys_, pt, [A, B, C], [s, s, [s, 4]], order, initial_state=rho0, progress_type='silent')
            _, c2 = oqupy.compute_correlations_nt(sys_, pt, [prod, C], [s, [s, 4]], [order[0], 'left'], initial_state=rho0, progress_type='silent')
            err = float(np.nanmax(np.abs(c3[0, 0] - c2[0])))
            if err > 1e-9:
                bad.append({'step': s, 'ops_order': order, 'max_error': err})
    return {'violates': bool(bad), 'detail': bad[:3]}


def nt_start_time(inp):
    """the dynamics inside compute_correlations_nt use the caller's start time (explicitly time dependent system)"""
    from replay.c15 import shift
    return shift({'kind': 'correlations'})


def anti_axes(inp):
    """compute_correlations(time_order='anti') with DIFFERENT specifications for times_a and times_b: the returned axes are
    [times of A, times of B], the array is indexed [a, b], and entry [a, b] is what the multi-time routine computed for
    (B at times_b[b], then A at times_a[a])"""
    import oqupy
    from replay.c03 import _ancilla_pt
    sx, sy, sz = [oqupy.operators.sigma(c) for c in 'xyz']
    env0 = np.array([[0.6, 0.1], [0.1, 0.4]])
    pt, _ = _ancilla_pt(0.1, 6, 0.9 * np.kron(sz, sx), 0.3 * sz, env0)
    sys_ = oqupy.System(0.4 * sx + 0.1 * sz)
    A, B = sx + 0.3j * sy, sz + 0.2 * sx
    rho0 = oqupy.operators.spin_dm('y+')
    bad = []
    for ta, tb, want_a, want_b in (([5, 3], (0.1, 0.3), [0.5, 0.3], [0.1, 0.2, 0.3]), (4, [1, 2, 3, 6], [0.4], [0.1, 0.2, 0.3, 0.6])):
        times, corr = oqupy.compute_correlations(sys_, pt, A, B, ta, tb, time_order='anti', initial_state=rho0, progress_type='silent')
        t_nt, c_nt = oqupy.compute_correlations_nt(sys_, pt, [B, A], [tb, ta], ['right', 'left'], initial_state=rho0, progress_type='silent')
        same = lambda x, y: len(x) == len(y) and np.allclose(x, y)
        ok_axes = len(times) == 2 and same(times[0], want_a) and same(times[1], want_b)
        corr = np.array(corr)
        ok_shape = corr.shape == (len(want_a), len(want_b))
        ok_vals = ok_shape and np.allclose(np.nan_to_num(corr, nan=-7.0), np.nan_to_num(np.array(c_nt).T, nan=-7.0))
        if not (ok_axes and ok_shape and ok_vals):
            bad.append({'times_a': str(ta), 'times_b': str(tb), 'returned axes': [list(map(float, x)) for x in times], 'array shape': list(corr.shape),
                        'axes as required': ok_axes, 'entries as required': bool(ok_vals)})
    return {'violates': bool(bad), 'detail': bad}


# thorough tier (bounded native sweeps): (function, inputs, obligation of the open finding it reproduces or None)
THOROUGH = [('nt_alignment', {}, None), ('three_operators_same_step', {}, None), ('nt_start_time', {}, None), ('anti_axes', {}, None)]
