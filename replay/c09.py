"""Replays for C09 on the real code: field equations that are linear in time are integrated
exactly by the Heun rule, so the required field values are known in closed form."""
import numpy as np


def _mf_system(alpha=0.0, beta=1.0):
    import oqupy

    def H(t, a):
        return 0.3 * oqupy.operators.sigma('x') + 0.0 * a * oqupy.operators.sigma('z')
    sysf = oqupy.TimeDependentSystemWithField(H)

    def eom(t, states, a):
        return alpha + beta * t
    return oqupy.MeanFieldSystem([sysf], field_eom=eom)


def field_linear_time(inp):
    import oqupy
    bad = []
    for t0, dt, N in ((1.0, 0.1, 4), (0.0, 0.25, 3), (-0.5, 0.2, 5), (0.3, 0.1, 0), (0.0, 0.1, 1)):
        for ra in (True, False):
            mfs = _mf_system(0.0, 1.0)
            d = oqupy.compute_dynamics_with_field(
                mfs, initial_field=0.0 + 0j, dt=dt, num_steps=N, start_time=t0,
                initial_state_list=[oqupy.operators.spin_dm('z+')], record_all=ra, progress_type='silent')
            want_all = [((t0 + k * dt) ** 2 - t0 ** 2) / 2 for k in range(N + 1)]
            want = want_all if ra else want_all[-1:]
            got = [complex(x) for x in d.fields]
            if len(got) != len(want) or any(abs(a - b) > 1e-10 for a, b in zip(got, want)):
                bad.append({'start_time': t0, 'dt': dt, 'num_steps': N, 'record_all': ra,
                            'observed': [round(x.real, 6) for x in got], 'required': [round(x, 6) for x in want]})
    return {'violates': bool(bad), 'detail': bad[:3], 'field_eom': 'f(t, states, a) = t'}


def mean_field_shift(inp):
    from replay.c15 import mean_field_shift as f
    return f(inp)


def mean_field_methods_agree(inp):
    """MeanFieldTempo with a decoupled bath against compute_dynamics_with_field, for a field equation of motion that depends
    EXPLICITLY on time and a Hamiltonian that depends on the field, start_time != 0: same states and fields"""
    import numpy as np
    import oqupy
    sx, sz = oqupy.operators.sigma('x'), oqupy.operators.sigma('z')
    corr = oqupy.PowerLawSD(alpha=0.0, zeta=1.0, cutoff=3.0, cutoff_type='exponential', temperature=0.2)
    bath = oqupy.Bath(0.5 * sz, corr)
    par = oqupy.TempoParameters(dt=0.1, dkmax=3, epsrel=1e-10)
    rho0 = oqupy.operators.spin_dm('y+')
    t0 = 0.3
    sysf = oqupy.TimeDependentSystemWithField(lambda t, a: (0.4 + 0.3 * np.sin(2 * t)) * sx + 2.0 * a.real * sz)
    mfs = oqupy.MeanFieldSystem([sysf], lambda t, states, a: -0.2j * a + 1.5 * t ** 2 + 0.3 * np.trace(states[0] @ sx).real)
    mf = oqupy.MeanFieldTempo(mean_field_system=mfs, bath_list=[bath], initial_state_list=[rho0], initial_field=0.2 + 0.1j, start_time=t0, parameters=par)
    d1 = mf.compute(end_time=t0 + 0.6, progress_type='silent')
    d2 = oqupy.compute_dynamics_with_field(mfs, initial_field=0.2 + 0.1j, dt=0.1, num_steps=6, start_time=t0, initial_state_list=[rho0], progress_type='silent')
    ds = float(np.abs(np.array(d1.system_dynamics[0].states) - np.array(d2.system_dynamics[0].states)).max())
    df = float(np.abs(np.array(d1.fields) - np.array(d2.fields)).max())
    return {'violates': ds > 1e-8 or df > 1e-8, 'max deviation of the states': ds, 'max deviation of the fields': df}


def field_free_reduces_to_tempo(inp):
    """a system that ignores the field, with an EXPLICITLY time dependent Hamiltonian and start_time != 0: MeanFieldTempo must
    give the states of plain Tempo (same propagators at the same times)"""
    import numpy as np
    import oqupy
    sx, sz = oqupy.operators.sigma('x'), oqupy.operators.sigma('z')
    corr = oqupy.PowerLawSD(alpha=0.1, zeta=1.0, cutoff=3.0, cutoff_type='exponential', temperature=0.2)
    bath = oqupy.Bath(0.5 * sz, corr)
    par = oqupy.TempoParameters(dt=0.1, dkmax=3, epsrel=1e-8)
    h = lambda t: (0.5 + 0.8 * np.sin(3.0 * t)) * sx + 0.3 * t * sz
    rho0 = oqupy.operators.spin_dm('y+')
    t0 = 0.5
    g = lambda t: 0.05 + 0.4 * t ** 2                     # an explicitly time dependent dissipation rate
    A = lambda t: np.cos(2.0 * t) * oqupy.operators.sigma('-') + 0.5 * np.sin(3.0 * t) * sz     # an explicitly time dependent Lindblad operator
    ref = oqupy.Tempo(oqupy.TimeDependentSystem(h, gammas=[g], lindblad_operators=[A]), bath, par, rho0,
                      t0).compute(t0 + 0.6, progress_type='silent').states
    mfs = oqupy.MeanFieldSystem([oqupy.TimeDependentSystemWithField(lambda t, a: h(t), gammas=[g],
                                                                    lindblad_operators=[A])],
                                lambda t, states, a: -0.1 * a)
    mf = oqupy.MeanFieldTempo(mean_field_system=mfs, bath_list=[bath], initial_state_list=[rho0], initial_field=0.3 + 0j, start_time=t0,
                              parameters=par)
    got = mf.compute(end_time=t0 + 0.6, progress_type='silent').system_dynamics[0].states
    dev = float(np.abs(np.array(got) - np.array(ref)).max()) if len(got) == len(ref) else float('inf')
    return {'violates': dev > 1e-9, 'max deviation MeanFieldTempo vs Tempo': dev}


def lindbladian(inp):
    """system._liouvillian against  -i[H, rho] + g (A rho A^+ - 1/2 {A^+ A, rho})  on random matrices"""
    import numpy as np
    from oqupy.system import _liouvillian
    rng = np.random.default_rng(4)
    bad = []
    for d in (2, 3):
        h = rng.normal(size=(d, d)) + 1j * rng.normal(size=(d, d))
        H = h + h.conj().T
        A = rng.normal(size=(d, d)) + 1j * rng.normal(size=(d, d))
        B = rng.normal(size=(d, d)) + 1j * rng.normal(size=(d, d))
        rho = rng.normal(size=(d, d)) + 1j * rng.normal(size=(d, d))
        g1, g2 = 0.3, 0.7
        L = _liouvillian(H, [g1, g2], [A, B])
        want = -1j * (H @ rho - rho @ H)
        for g, X in ((g1, A), (g2, B)):
            Xd = X.conj().T
            want = want + g * (X @ rho @ Xd - 0.5 * (Xd @ X @ rho + rho @ Xd @ X))
        dev = float(np.abs((L @ rho.reshape(-1)).reshape(d, d) - want).max())
        if dev > 1e-12:
            bad.append({'dimension': d, 'deviation': dev})
    return {'violates': bool(bad), 'detail': bad}


# thorough tier (bounded native sweeps): (function, inputs, obligation of the open finding it reproduces or None)
THOROUGH = [('lindbladian', {}, None), ('field_linear_time', {}, None), ('field_free_reduces_to_tempo', {}, None), ('mean_field_methods_agree', {}, None), ('mean_field_shift', {}, None), ('systems_of_different_length', {}, None)]


def systems_of_different_length(inp):
    """two systems whose process tensors have different lengths (the shorter one limits the computation, whichever system it belongs
    to: same grid for both orders) or different time steps (rejected, as within one system)"""
    import warnings
    import oqupy
    warnings.filterwarnings('ignore')
    sx, sz = oqupy.operators.sigma('x'), oqupy.operators.sigma('z')
    up = oqupy.operators.spin_dm('z+')
    corr = oqupy.PowerLawSD(alpha=0.1, zeta=1, cutoff=3.0, cutoff_type='gaussian', temperature=0.5)
    bath = oqupy.Bath(0.5 * sz, corr)

    def H(t, a):
        return 0.5 * sx + 0.1 * (a + np.conj(a)) * sz

    def eom(t, states, a):
        return -1j * a - 0.1 * np.trace(states[0] @ sx) - 0.1 * np.trace(states[1] @ sx)
    mfs = oqupy.MeanFieldSystem([oqupy.TimeDependentSystemWithField(H), oqupy.TimeDependentSystemWithField(H)], eom)
    p01 = oqupy.TempoParameters(dt=0.1, dkmax=3, epsrel=1e-4)
    p02 = oqupy.TempoParameters(dt=0.2, dkmax=3, epsrel=1e-4)
    pt6 = oqupy.PtTempo(bath, 0.0, 0.6, p01).get_process_tensor(progress_type='silent')
    pt4 = oqupy.PtTempo(bath, 0.0, 0.4, p01).get_process_tensor(progress_type='silent')
    ptb = oqupy.PtTempo(bath, 0.0, 0.8, p02).get_process_tensor(progress_type='silent')

    def run(pts):
        try:
            d = oqupy.compute_dynamics_with_field(mfs, 1.0 + 0j, initial_state_list=[up, up], process_tensor_list=pts, progress_type='silent')
            return [round(float(t), 10) for t in d.times]
        except Exception as e:       # noqa
            return '%s: %s' % (type(e).__name__, str(e)[:80])
    bad = []
    want = [round(0.1 * k, 10) for k in range(5)]
    r1, r2 = run([pt4, pt6]), run([pt6, pt4])
    if r1 != want or r2 != want:
        bad.append({'process tensors of 4 and 6 steps': r1, 'of 6 and 4 steps': r2, 'required grid (both orders)': want})
    r3 = run([pt4, ptb])
    if not isinstance(r3, str):
        bad.append({'process tensors with dt = 0.1 and dt = 0.2': 'accepted', 'both systems labelled on': r3})
    return {'violates': bool(bad), 'detail': bad}


def field_linear_time_and_lengths(inp):
    """obligations about several systems: the one-system field replay, then systems whose process tensors differ in length / time step"""
    r = field_linear_time(inp)
    if r.get('violates'):
        return r
    return systems_of_different_length(inp)
