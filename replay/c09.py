"""Replays for C09 on the real code: field equations that are linear in time are integrated
exactly by the Heun rule, so the required field values are known in closed form."""
import numpy as np


def _mf_system(alpha=0.0, beta=1.0):
    import oqupy

    def H(t, a):
        return 0.3 * oqupy.operators.sigma('x') + 0.0 * a * oqupy.operators.sigma('z')
    sysf = oqupy.TimeDependentSystemWithField(H)

    def eom(t, states, a):
        return alpha + beta * t
    return oqupy.MeanFieldSystem([sysf], field_eom=eom)


def field_linear_time(inp):
    import oqupy
    bad = []
    for t0, dt, N in ((1.0, 0.1, 4), (0.0, 0.25, 3), (-0.5, 0.2, 5)):
        for ra in (True, False):
            mfs = _mf_system(0.0, 1.0)
            d = oqupy.compute_dynamics_with_field(
                mfs, initial_field=0.0 + 0j, dt=dt, num_steps=N, start_time=t0,
                initial_state_list=[oqupy.operators.spin_dm('z+')], record_all=ra, progress_type='silent')
            want_all = [((t0 + k * dt) ** 2 - t0 ** 2) / 2 for k in range(N + 1)]
            want = want_all if ra else want_all[-1:]
            got = [complex(x) for x in d.fields]
            if len(got) != len(want) or any(abs(a - b) > 1e-10 for a, b in zip(got, want)):
                bad.append({'start_time': t0, 'dt': dt, 'num_steps': N, 'record_all': ra,
                            'observed': [round(x.real, 6) for x in got], 'required': [round(x, 6) for x in want]})
    return {'violates': bool(bad), 'detail': bad[:3], 'field_eom': 'f(t, states, a) = t'}


# thorough tier (bounded native sweeps): (function, inputs, obligation of the open finding it reproduces or None)
THOROUGH = [('field_linear_time', {}, None)]
