"""Replays for C03 on the real code: process tensors built by hand from a finite ancilla
environment with a known joint evolution."""
import numpy as np
from scipy.linalg import expm


def _ancilla_pt(dt, n, Hint, Henv, env0, d=2, e=2, close_last_bond=False):
    """PT of a system coupled to one ancilla: joint unitary U = exp(-i (Hint + 1 x Henv) dt)
    applied between the system half-steps.  MPO tensor legs: (past bond, future bond, in, out);
    bond = vectorised ancilla state (row-major vec), in/out = vectorised system state."""
    import oqupy
    from oqupy.process_tensor import SimpleProcessTensor
    U = expm(-1j * (Hint + np.kron(np.eye(d), Henv)) * dt)
    # superoperator on vec(rho_SE) with rho_SE indexed (s, e; s', e'), row-major vec: U (x) U*
    S = np.kron(U, U.conj()).reshape(d, e, d, e, d, e, d, e)      # (s_o,e_o,s'_o,e'_o ; s_i,e_i,s'_i,e'_i)
    # mpo[b_in=(e_i,e'_i), b_out=(e_o,e'_o), in=(s_i,s'_i), out=(s_o,s'_o)]
    M = S.transpose(5, 7, 1, 3, 4, 6, 0, 2).reshape(e * e, e * e, d * d, d * d)
    pt = SimpleProcessTensor(d, dt=dt)
    first = np.einsum('b,bcio->cio', env0.reshape(-1), M)[None, ...]
    cap = np.eye(e).reshape(-1)
    for k in range(n):
        t = first if k == 0 else M
        if close_last_bond and k == n - 1:
            t = np.einsum('bcio,c->bio', t, cap)[:, None, :, :]     # final bond of dimension 1 (as PT-TEMPO produces)
        pt.set_mpo_tensor(k, t)
    # caps: trace over the ancilla at every step
    for k in range(n + 1):
        pt.set_cap_tensor(k, np.array([1.0]) if (k == 0 or (close_last_bond and k == n)) else cap)
    return pt, U


def _exact(H, U, rho0, env0, dt, n, d=2, e=2, pre=None, post=None):
    h = expm(-1j * H * dt / 2)
    hs = np.kron(h, np.eye(e))
    R = np.kron(rho0, env0)
    out = []
    for k in range(n + 1):
        if pre and k in pre:
            R = _apply_sys(pre[k], R, d, e)
        out.append(np.einsum('sese->ss' if False else 'aebe->ab', R.reshape(d, e, d, e)))
        if k == n:
            break
        if post and k in post:
            R = _apply_sys(post[k], R, d, e)
        R = hs @ R @ hs.conj().T
        R = U @ R @ U.conj().T
        R = hs @ R @ hs.conj().T
    return out


def _apply_sys(sup, R, d, e):
    T = R.reshape(d, e, d, e).transpose(0, 2, 1, 3).reshape(d * d, e * e)
    T = sup @ T
    return T.reshape(d, d, e, e).transpose(0, 2, 1, 3).reshape(d * e, d * e)


def exact_ancilla(inp):
    import oqupy
    rng = np.random.default_rng(5)
    sx, sy, sz = [oqupy.operators.sigma(c) for c in 'xyz']
    dt, n = 0.15, 5
    Hint = 0.8 * np.kron(sz, sx) + 0.3 * np.kron(sx, sz)
    Henv = 0.5 * sz
    env0 = np.array([[0.7, 0.2j], [-0.2j, 0.3]])
    rho0 = oqupy.operators.spin_dm('y+')
    H = 0.4 * sx + 0.1 * sy
    pt, U = _ancilla_pt(dt, n, Hint, Henv, env0)
    kick = oqupy.operators.left_right_super(expm(-0.3j * sy), expm(0.3j * sy))
    damp = oqupy.operators.left_right_super(np.diag([1.0, 0.6]), np.diag([1.0, 0.6]))
    bad = []
    for label, pre, post in (('no controls', None, None), ('pre@2 post@3', {2: kick}, {3: damp}), ('pre@0 pre@5', {0: damp, 5: kick}, None)):
        ctl = oqupy.Control(2)
        for k, s in (pre or {}).items():
            ctl.add_single(k, s, post=False)
        for k, s in (post or {}).items():
            ctl.add_single(k, s, post=True)
        dyn = oqupy.compute_dynamics(oqupy.System(H), initial_state=rho0, process_tensor=pt, control=ctl, progress_type='silent')
        ref = _exact(H, U, rho0, env0, dt, n, pre=pre, post=post)
        err = max(np.abs(np.array(a) - b).max() for a, b in zip(dyn.states, ref))
        if err > 1e-10 or len(dyn.states) != n + 1:
            bad.append({'case': label, 'max_error': float(err)})
        # only the final state recorded: the same joint evolution, controls included
        fin = oqupy.compute_dynamics(oqupy.System(H), initial_state=rho0, process_tensor=pt, control=ctl, record_all=False, progress_type='silent')
        errf = float(np.abs(np.array(fin.states[-1]) - ref[-1]).max())
        if errf > 1e-10 or len(fin.states) != 1:
            bad.append({'case': label + ' (record_all=False)', 'max_error_of_final_state': errf, 'states_returned': len(fin.states)})
    # the same environment stored in a transformed basis: every combination of in/out transforms
    rng2 = np.random.default_rng(9)
    from oqupy.process_tensor import SimpleProcessTensor
    for use_in, use_out in ((True, True), (True, False), (False, True)):
        A = rng2.normal(size=(4, 4)) + 1j * rng2.normal(size=(4, 4))     # in-transform  (acts as sum_j t[..j..] Tin[i,j])
        B = rng2.normal(size=(4, 4)) + 1j * rng2.normal(size=(4, 4))     # out-transform (acts as sum_p t[..p] Tout[p,o])
        Ainv, Binv = np.linalg.inv(A), np.linalg.inv(B)
        q = SimpleProcessTensor(2, dt=dt, transform_in=A if use_in else None, transform_out=B if use_out else None)
        for k in range(n):
            t = np.array(pt.get_mpo_tensor(k))
            if use_in:
                t = np.einsum('abip,ji->abjp', t, Ainv)       # stored tensor t' with sum_j t'[..j..] A[i,j] = t[..i..]
            if use_out:
                t = np.einsum('abjp,po->abjo', t, Binv)
            q.set_mpo_tensor(k, t)
        for k in range(n + 1):
            q.set_cap_tensor(k, pt.get_cap_tensor(k))
        dyn = oqupy.compute_dynamics(oqupy.System(H), initial_state=rho0, process_tensor=q, progress_type='silent')
        ref = _exact(H, U, rho0, env0, dt, n)
        err = max(np.abs(np.array(a) - b).max() for a, b in zip(dyn.states, ref))
        if err > 1e-8:
            bad.append({'case': 'transform_in=%s transform_out=%s' % (use_in, use_out), 'max_error': float(err)})
    return {'violates': bool(bad), 'detail': bad}


def file_view_equals_simple(inp):
    from replay.c16 import file_view_equals_simple as f
    return f(inp)


def order_of_environments(inp):
    """two ancilla environments coupled through non-commuting system operators: [A,B] vs [B,A]"""
    import oqupy
    sx, sz = oqupy.operators.sigma('x'), oqupy.operators.sigma('z')
    dt, n = 0.2, 4
    env0 = np.array([[0.6, 0.1], [0.1, 0.4]])
    ptz, _ = _ancilla_pt(dt, n, 0.9 * np.kron(sz, sx), 0.3 * sz, env0)
    ptx, _ = _ancilla_pt(dt, n, 0.9 * np.kron(sx, sx), 0.3 * sz, env0)
    sys_ = oqupy.System(0.2 * sz)
    rho0 = oqupy.operators.spin_dm('y+')
    a = oqupy.compute_dynamics(sys_, initial_state=rho0, process_tensor=[ptz, ptx], progress_type='silent')
    b = oqupy.compute_dynamics(sys_, initial_state=rho0, process_tensor=[ptx, ptz], progress_type='silent')
    diff = float(np.abs(a.states - b.states).max())
    # commuting pair (same coupling operator): must agree
    ptz2, _ = _ancilla_pt(dt, n, 0.5 * np.kron(sz, sz), 0.1 * sx, env0)
    c = oqupy.compute_dynamics(sys_, initial_state=rho0, process_tensor=[ptz, ptz2], progress_type='silent')
    d = oqupy.compute_dynamics(sys_, initial_state=rho0, process_tensor=[ptz2, ptz], progress_type='silent')
    diff_comm = float(np.abs(c.states - d.states).max())
    return {'violates': diff > 1e-8, 'max_difference_non_commuting': diff, 'max_difference_commuting_couplings': diff_comm}


def set_after_get(inp):
    """a rank-3 (delta) process tensor whose steps are read (contracted) and then replaced through set_mpo_tensor on the
    SAME object must be contracted with the NEW tensors afterwards"""
    import oqupy
    from oqupy.process_tensor import SimpleProcessTensor
    dt, n, d = 0.2, 4, 2
    rng = np.random.default_rng(5)
    sx, sz = oqupy.operators.sigma('x'), oqupy.operators.sigma('z')

    def tensors(seed):
        # pure-dephasing ancilla: U diagonal in the system basis -> rank-3 tensors t[b_in, b_out, s] (delta between in and out)
        r = np.random.default_rng(seed)
        return [r.normal(size=(1 if k == 0 else 3, 1 if k == n - 1 else 3, d * d)) + 1j * r.normal(size=(1 if k == 0 else 3, 1 if k == n - 1 else 3, d * d))
                for k in range(n)]

    def fill(pt, ts):
        for k, t in enumerate(ts):
            pt.set_mpo_tensor(k, t)
        for k in range(n + 1):
            pt.set_cap_tensor(k, np.array([1.0]) if k in (0, n) else np.ones(3))
    rho0 = oqupy.operators.spin_dm('x+')
    sys_ = oqupy.System(0.3 * sx)
    A, B = tensors(1), tensors(2)
    pt = SimpleProcessTensor(d, dt=dt)
    fill(pt, A)
    oqupy.compute_dynamics(sys_, initial_state=rho0, process_tensor=pt, progress_type='silent')      # every step is read
    fill(pt, B)                                                                                      # ... and then replaced
    got = oqupy.compute_dynamics(sys_, initial_state=rho0, process_tensor=pt, progress_type='silent').states
    fresh = SimpleProcessTensor(d, dt=dt)
    fill(fresh, B)
    want = oqupy.compute_dynamics(sys_, initial_state=rho0, process_tensor=fresh, progress_type='silent').states
    dev = float(np.abs(np.array(got) - np.array(want)).max())
    return {'violates': dev > 1e-10, 'max_deviation_from_a_fresh_object_with_the_new_tensors': dev}


def superoperator_helpers(inp):
    """oqupy.operators: vec(A rho B) = left_right_super(A, B) vec(rho) (row-major), left/right_super, commutator, acommutator"""
    import numpy as np
    import oqupy.operators as op
    rng = np.random.default_rng(3)
    bad = []
    for d in (2, 3):
        A = rng.normal(size=(d, d)) + 1j * rng.normal(size=(d, d))
        B = rng.normal(size=(d, d)) + 1j * rng.normal(size=(d, d))
        rho = rng.normal(size=(d, d)) + 1j * rng.normal(size=(d, d))
        v = rho.reshape(-1)
        want = {'left_super': A @ rho, 'right_super': rho @ A, 'left_right_super': A @ rho @ B, 'commutator': A @ rho - rho @ A,
                'acommutator': A @ rho + rho @ A}
        got = {'left_super': op.left_super(A) @ v, 'right_super': op.right_super(A) @ v, 'left_right_super': op.left_right_super(A, B) @ v,
               'commutator': op.commutator(A) @ v, 'acommutator': op.acommutator(A) @ v}
        for k in want:
            dev = float(np.abs(got[k].reshape(d, d) - want[k]).max())
            if dev > 1e-12:
                bad.append({'helper': k, 'dimension': d, 'deviation': dev})
    return {'violates': bool(bad), 'detail': bad}


def lindbladian(inp):
    """system._liouvillian against  -i[H, rho] + g (A rho A^+ - 1/2 {A^+ A, rho})  on random matrices"""
    import numpy as np
    from oqupy.system import _liouvillian
    rng = np.random.default_rng(4)
    bad = []
    for d in (2, 3):
        h = rng.normal(size=(d, d)) + 1j * rng.normal(size=(d, d))
        H = h + h.conj().T
        A = rng.normal(size=(d, d)) + 1j * rng.normal(size=(d, d))
        B = rng.normal(size=(d, d)) + 1j * rng.normal(size=(d, d))
        rho = rng.normal(size=(d, d)) + 1j * rng.normal(size=(d, d))
        g1, g2 = 0.3, 0.7
        L = _liouvillian(H, [g1, g2], [A, B])
        want = -1j * (H @ rho - rho @ H)
        for g, X in ((g1, A), (g2, B)):
            Xd = X.conj().T
            want = want + g * (X @ rho @ Xd - 0.5 * (Xd @ X @ rho + rho @ Xd @ X))
        dev = float(np.abs((L @ rho.reshape(-1)).reshape(d, d) - want).max())
        if dev > 1e-12:
            bad.append({'dimension': d, 'deviation': dev})
    return {'violates': bool(bad), 'detail': bad}


# thorough tier (bounded native sweeps): (function, inputs, obligation of the open finding it reproduces or None)
def create_delta_spec(inp):
    from replay.c01 import create_delta_spec as f
    return f(inp)


def rank3_with_transforms(inp):
    """a hand-built process tensor with classical memory written once as rank-3 (delta) tensors in the Pauli basis WITH in/out transforms
    and once as the identical rank-4 tensors without transforms: same states at every step (in-memory and file-backed), the state at
    step 0 is the initial state, traces stay 1"""
    import oqupy
    from oqupy.process_tensor import SimpleProcessTensor, FileProcessTensor
    sig = oqupy.operators.sigma
    P = [np.eye(2), sig('x'), sig('y'), sig('z')]
    tin = np.array([(p.T).reshape(4) / np.sqrt(2) for p in P]).T
    tout = np.array([p.reshape(4) / np.sqrt(2) for p in P])
    n = 4
    trans = np.array([[0.7, 0.3], [0.4, 0.6]])
    lam = np.array([[1, 0.9, 0.5, 0.45], [1, 0.2, 0.2, 0.6]])
    p0 = np.array([0.25, 0.75])
    T = np.einsum('ab,ak->abk', trans, lam)

    def build(cls, rank3):
        kw = dict(dt=0.1, transform_in=tin if rank3 else None, transform_out=tout if rank3 else None)
        pt = SimpleProcessTensor(2, **kw) if cls == 'simple' else FileProcessTensor('write', hilbert_space_dimension=2, **kw)
        for k in range(n):
            t = T.copy()
            if k == 0:
                t = np.einsum('a,abk->bk', p0, t)[None]
            if k == n - 1:
                t = t.sum(axis=1)[:, None, :]
            if not rank3:
                t = np.einsum('abk,ik,ko->abio', t, tin, tout)
            pt.set_mpo_tensor(k, np.array(t, dtype=complex))
        pt.compute_caps()
        return pt
    H = np.array([[0.3, 0.2 - 0.4j], [0.2 + 0.4j, -0.1]])
    rho0 = np.array([[0.7, 0.2 - 0.1j], [0.2 + 0.1j, 0.3]])
    bad = []
    for cls in ('simple', 'file'):
        res = {}
        for rank3 in (True, False):
            pt = build(cls, rank3)
            res[rank3] = oqupy.compute_dynamics(oqupy.System(H), initial_state=rho0, process_tensor=pt, progress_type='silent').states
            if cls == 'file':
                pt.remove()
        dev = float(np.abs(res[True] - res[False]).max())
        tr = [float(np.trace(x).real) for x in res[True]]
        if dev > 1e-9 or abs(res[True][0] - rho0).max() > 1e-12 or max(abs(t - 1) for t in tr) > 1e-9:
            bad.append({'process tensor': cls, 'rank-3 with transforms vs identical rank-4': dev, 'traces of the rank-3 result': [round(t, 4) for t in tr]})
    return {'violates': bool(bad), 'detail': bad}


def pt_accessor(inp):
    """what get_mpo_tensor hands out, natively: the ancilla scenarios (rank-4, no transforms), the rank-3 / transform scenarios
    (non-symmetric complex transforms, in memory and file-backed) and, for the history obligations, read-replace-read"""
    funcs = [rank3_with_transforms, set_after_get if inp.get('history') else exact_ancilla]
    if inp.get('history'):
        funcs.append(exact_ancilla)
    out = {'violates': False, 'detail': []}
    for f in funcs:
        r = f(inp)
        if r.get('violates'):
            out['violates'] = True
            out['detail'].append({f.__name__: r.get('detail')})
    return out


THOROUGH = [('lindbladian', {}, None), ('superoperator_helpers', {}, None), ('exact_ancilla', {}, None), ('set_after_get', {}, None), ('rank3_with_transforms', {}, None), ('order_of_environments', {}, 'c03/order-independent[non-commuting-environments]')]
