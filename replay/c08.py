"""Replays for C08 on the real code: adjoint gradient against central finite differences of the
objective computed with the forward dynamics."""
import numpy as np


def _setup(two_envs):
    import oqupy
    from replay.c03 import _ancilla_pt
    sx, sy, sz = [oqupy.operators.sigma(c) for c in 'xyz']
    dt, n = 0.2, 4
    env0 = np.array([[0.6, 0.1], [0.1, 0.4]])
    # (a complex Hermitian coupling: the MPO tensors are then NOT symmetric in their system legs)
    ptz, _ = _ancilla_pt(dt, n, 0.9 * np.kron(sz, sx) + 0.5 * np.kron(sy, sz), 0.3 * sz, env0, close_last_bond=True)
    ptx, _ = _ancilla_pt(dt, n, 0.7 * np.kron(sx, sx), 0.2 * sz, env0, close_last_bond=True)
    pts = [ptz, ptx] if two_envs else [ptz]

    def ham(a, b):
        return 0.5 * a * sx + 0.5 * b * sy
    psys = oqupy.ParameterizedSystem(ham)
    rho0 = oqupy.operators.spin_dm('z+')
    target = oqupy.operators.spin_dm('y-')
    rng = np.random.default_rng(2)
    params = rng.normal(size=(2 * n, 2))
    return oqupy, psys, pts, rho0, target, params, dt, n


def _objective(oqupy, psys, pts, rho0, target, params, dt):
    from oqupy.gradient import compute_gradient_and_dynamics
    _, dyn = compute_gradient_and_dynamics(system=psys, initial_state=rho0, target_derivative=target.T, process_tensors=pts,
                                           parameters=[tuple(p) for p in params], dt=dt, progress_type='silent')
    return np.trace(target @ dyn.states[-1]).real, dyn


def gradient_vs_finite_difference(inp):
    bad = []
    out = {}
    for two, partly_constant in ((False, False), (True, False), (False, True)):
        oqupy, psys, pts, rho0, target, params, dt, n = _setup(two)
        if partly_constant:
            # one parameter keeps its value over each full step while the other changes between the half steps
            params[1::2, 1] = params[0::2, 1]
        res = oqupy.state_gradient(system=psys, initial_state=rho0, target_derivative=target.T, process_tensors=pts,
                                   parameters=params, progress_type='silent')
        grad = np.array(res['gradient']).real
        fd = np.zeros_like(grad)
        h = 1e-5
        for i in range(params.shape[0]):
            for j in range(params.shape[1]):
                p1, p2 = params.copy(), params.copy()
                p1[i, j] += h
                p2[i, j] -= h
                fd[i, j] = (_objective(oqupy, psys, pts, rho0, target, p1, dt)[0] - _objective(oqupy, psys, pts, rho0, target, p2, dt)[0]) / (2 * h)
        err = float(np.abs(grad - fd).max())
        tag = '%d env%s' % (2 if two else 1, ', one parameter constant over each step' if partly_constant else '')
        out['max|grad - finite difference| (%s)' % tag] = err
        out['max|grad| (%s)' % tag] = float(np.abs(fd).max())
        # reported dynamics = forward dynamics of the same piecewise constant controls
        _, dyn = _objective(oqupy, psys, pts, rho0, target, params, dt)
        derr = float(np.abs(np.array(res['dynamics'].states) - np.array(dyn.states)).max())
        ferr = float(np.abs(np.array(res['final_state']) - np.array(dyn.states[-1])).max())
        if err > 1e-6 or derr > 1e-10 or ferr > 1e-10:
            bad.append({'environments': 2 if two else 1, 'one parameter constant over each step': partly_constant, 'max_gradient_error': err, 'dynamics_mismatch': derr, 'final_state is not the last state': ferr})
    return {'violates': bool(bad), 'detail': bad, **out}


def gradient_two_time_grids(inp):
    """the same ParameterizedSystem object used for gradients on two time grids (numerical
    propagator derivatives): the second gradient must equal the one of a fresh system object"""
    import oqupy
    from replay.c03 import _ancilla_pt
    sx, sy, sz = [oqupy.operators.sigma(c) for c in 'xyz']
    env0 = np.array([[0.6, 0.1], [0.1, 0.4]])

    def mk():
        return oqupy.ParameterizedSystem(lambda a, b: 0.5 * a * sx + 0.5 * b * sy)
    rho0 = oqupy.operators.spin_dm('z+')
    target = oqupy.operators.spin_dm('y-')
    levels = np.array([[0.4, -0.3], [0.9, 0.2]])
    out = {}
    shared = mk()
    bad = []
    for dt, n in ((0.2, 3), (0.1, 4)):
        pt, _ = _ancilla_pt(dt, n, 0.9 * np.kron(sz, sx), 0.3 * sz, env0, close_last_bond=True)
        params = np.array([levels[k % 2] for k in range(2 * n)])
        g_shared = np.array(oqupy.state_gradient(shared, rho0, target.T, [pt], params, progress_type='silent')['gradient'])
        g_fresh = np.array(oqupy.state_gradient(mk(), rho0, target.T, [pt], params, progress_type='silent')['gradient'])
        err = float(np.abs(g_shared - g_fresh).max())
        if err > 1e-9:
            bad.append({'dt': dt, 'max_difference_to_fresh_system_object': err, 'max_gradient': float(np.abs(g_fresh).max())})
    return {'violates': bool(bad), 'detail': bad}


def gradient_user_derivatives(inp):
    """the same system with USER-SUPPLIED propagator derivatives (exact, by a complex-step-free central difference of expm) and
    parameters that differ between the two half steps: the gradient must equal the one obtained with the built-in derivatives"""
    from scipy.linalg import expm
    oqupy, psys, pts, rho0, target, params, dt, n = _setup(False)
    sx, sy = oqupy.operators.sigma('x'), oqupy.operators.sigma('y')

    def ham(a, b):
        return 0.5 * a * sx + 0.5 * b * sy

    def user_derivs(dt_, p):
        h = 1e-6
        out = []
        for i in range(2):
            q1, q2 = np.array(p, dtype=float), np.array(p, dtype=float)
            q1[i] += h
            q2[i] -= h
            L1 = oqupy.ParameterizedSystem(ham).liouvillian(*q1)
            L2 = oqupy.ParameterizedSystem(ham).liouvillian(*q2)
            out.append((expm(L1 * dt_ / 2) - expm(L2 * dt_ / 2)) / (2 * h))
        return out
    usys = oqupy.ParameterizedSystem(ham, propagator_derivatives=user_derivs)
    ref = np.array(oqupy.state_gradient(system=psys, initial_state=rho0, target_derivative=target.T, process_tensors=pts, parameters=params,
                                        progress_type='silent')['gradient'])
    got = np.array(oqupy.state_gradient(system=usys, initial_state=rho0, target_derivative=target.T, process_tensors=pts, parameters=params,
                                        progress_type='silent')['gradient'])
    dev = np.abs(got - ref).max(axis=1)
    return {'violates': bool(dev.max() > 1e-6), 'max deviation per half-step row (user-supplied vs built-in derivatives)': [float(x) for x in dev]}


# thorough tier (bounded native sweeps): (function, inputs, obligation of the open finding it reproduces or None)
def gradient_with_caps(inp):
    """process tensors that are CLOSED BY THEIR CAPS (exact ancilla environment whose final trace is kept in the cap tensors, not
    absorbed into the last MPO tensor), and a second environment that is LONGER than the first (the gradient then runs over fewer steps
    than that process tensor has): adjoint gradient of state_gradient against central finite differences of the forward dynamics"""
    import oqupy
    from replay.c03 import _ancilla_pt
    sx, sy, sz = [oqupy.operators.sigma(c) for c in 'xyz']
    dt = 0.2
    env0 = np.array([[0.6, 0.1], [0.1, 0.4]])

    def ham(a, b):
        return 0.5 * a * sx + 0.5 * b * sy
    psys = oqupy.ParameterizedSystem(ham)
    rho0, target = oqupy.operators.spin_dm('z+'), oqupy.operators.spin_dm('y-')
    rng = np.random.default_rng(5)
    bad = []
    for label, lens, closed in (('caps carry the trace', (3,), False), ('second environment longer than the first', (3, 5), True),
                                ('caps carry the trace, second environment longer', (2, 4), False)):
        pts = []
        for k, L in enumerate(lens):
            Hint = 0.9 * np.kron(sz, sx) + 0.5 * np.kron(sy, sz) if k == 0 else 0.7 * np.kron(sx, sx)
            pts.append(_ancilla_pt(dt, L, Hint, 0.3 * sz, env0, close_last_bond=closed)[0])
        n = lens[0]
        params = rng.normal(size=(2 * n, 2))

        def objective(p):
            d = oqupy.state_gradient(system=psys, initial_state=rho0, target_derivative=target.T, process_tensors=pts, parameters=p,
                                     progress_type='silent')['dynamics']
            return np.trace(target @ d.states[-1]).real
        try:
            g = np.array(oqupy.state_gradient(system=psys, initial_state=rho0, target_derivative=target.T, process_tensors=pts, parameters=params,
                                              progress_type='silent')['gradient']).real
        except Exception as e:       # noqa
            bad.append({'case': label, 'process tensor lengths': list(lens), 'exception': type(e).__name__ + ': ' + str(e)[:100]})
            continue
        fd, h = np.zeros_like(g), 1e-5
        for a in range(params.shape[0]):
            for b in range(params.shape[1]):
                p1, p2 = params.copy(), params.copy()
                p1[a, b] += h
                p2[a, b] -= h
                fd[a, b] = (objective(p1) - objective(p2)) / (2 * h)
        err = float(np.abs(g - fd).max())
        if err > 1e-6:
            bad.append({'case': label, 'process tensor lengths': list(lens), 'max|grad - finite difference|': err, 'max|grad|': float(np.abs(fd).max())})
    return {'violates': bool(bad), 'detail': bad[:4]}


THOROUGH = [('gradient_vs_finite_difference', {}, None), ('gradient_two_time_grids', {}, None), ('gradient_user_derivatives', {}, None), ('gradient_with_caps', {}, None)]
