"""Replays for C17 on the real code: flag protocol on real HDF5 files, including a writer
process that dies (os._exit) at chosen points."""
import os
import subprocess
import sys
import tempfile
import warnings
import numpy as np

WRITER = r'''
import sys, os, numpy as np
sys.path.insert(0, os.environ["REPLAY_REPO"])
from oqupy.process_tensor import FileProcessTensor
fn, crash_at = sys.argv[1], int(sys.argv[2])
soft = len(sys.argv) > 3


def main():
    pt = FileProcessTensor("write", fn, hilbert_space_dimension=2, dt=0.1)
    state = {"point": 0}

    def cp():
        if state["point"] == crash_at:
            pt._f.flush()
            if soft:
                raise RuntimeError("the writer fails here (exception: finalisers and atexit handlers still run)")
            os._exit(9)          # the writer dies here: no close(), no atexit handlers
        state["point"] += 1
    cp()
    for k in range(3):
        pt.set_mpo_tensor(k, np.ones((1, 1, 4, 4)) * (k + 1)); cp()
    for k in range(4):
        pt.set_cap_tensor(k, np.ones((1,))); cp()
    pt.close()


try:
    main()
except RuntimeError:
    import gc
    gc.collect()
    sys.exit(3)
'''


EXPORTER = r'''
import sys, os, numpy as np
sys.path.insert(0, os.environ["REPLAY_REPO"])
from oqupy.process_tensor import SimpleProcessTensor, FileProcessTensor
fn, crash_at = sys.argv[1], int(sys.argv[2])
count = {"n": 0}


def failing(real):
    def f(self, *a, **k):
        r = real(self, *a, **k)
        self._f.flush()
        if count["n"] == crash_at:
            raise OSError("the writer fails right after this file operation (disk full / interrupt)")
        count["n"] += 1
        return r
    return f


for name in ("set_initial_tensor", "set_mpo_tensor", "set_cap_tensor"):
    setattr(FileProcessTensor, name, failing(getattr(FileProcessTensor, name)))
pt = SimpleProcessTensor(2, dt=0.1)
for k in range(3):
    pt.set_mpo_tensor(k, np.ones((1, 1, 4, 4)) * (k + 1))
for k in range(4):
    pt.set_cap_tensor(k, np.ones((1,)))
try:
    pt.export(fn)
except OSError:
    import gc
    gc.collect()
    sys.exit(3)
'''


def _open_status(fn):
    from oqupy.process_tensor import FileProcessTensor
    with warnings.catch_warnings(record=True) as w:
        warnings.simplefilter('always')
        try:
            f = FileProcessTensor('read', fn)
        except Exception as e:
            return 'fails:' + type(e).__name__
        warned = any('corrupt' in str(x.message) for x in w)
        n = len(f)
        f.close()
        return ('warns' if warned else 'silent') + ':len=%d' % n


def file_protocol(inp):
    import oqupy
    repo = os.path.dirname(os.path.dirname(oqupy.__file__))
    d = tempfile.mkdtemp(prefix='c17_')
    bad = []
    try:
        # crash points
        for crash_at in range(0, 8):
            fn = os.path.join(d, 'crash%d.h5' % crash_at)
            subprocess.run([sys.executable, '-c', WRITER, fn, str(crash_at)], env=dict(os.environ, REPLAY_REPO=repo),
                           capture_output=True, timeout=120)
            if not os.path.exists(fn):
                continue
            st = _open_status(fn)
            if st.startswith('silent'):
                bad.append({'writer_killed_at_point': crash_at, 'reader': st})
        # soft death: the writer raises (object finalisers run, interpreter exits normally)
        for crash_at in range(0, 8):
            fn = os.path.join(d, 'soft%d.h5' % crash_at)
            subprocess.run([sys.executable, '-c', WRITER, fn, str(crash_at), 'soft'], env=dict(os.environ, REPLAY_REPO=repo),
                           capture_output=True, timeout=120)
            if not os.path.exists(fn):
                continue
            st = _open_status(fn)
            if st.startswith('silent'):
                bad.append({'writer_failed_with_exception_at_point': crash_at, 'reader': st})
        # SimpleProcessTensor.export() interrupted by an exception right after its k-th file operation
        for crash_at in range(0, 8):
            fn = os.path.join(d, 'export%d.h5' % crash_at)
            subprocess.run([sys.executable, '-c', EXPORTER, fn, str(crash_at)], env=dict(os.environ, REPLAY_REPO=repo),
                           capture_output=True, timeout=120)
            if not os.path.exists(fn):
                continue
            st = _open_status(fn)
            if st.startswith('silent'):
                bad.append({'export_failed_with_exception_after_file_operation': crash_at, 'reader': st})
        fn = os.path.join(d, 'export_ok.h5')
        subprocess.run([sys.executable, '-c', EXPORTER, fn, '99'], env=dict(os.environ, REPLAY_REPO=repo), capture_output=True, timeout=120)
        if _open_status(fn) != 'silent:len=3':
            bad.append({'complete_export': _open_status(fn), 'required': 'silent:len=3'})
        # clean close
        fn = os.path.join(d, 'clean.h5')
        subprocess.run([sys.executable, '-c', WRITER, fn, '99'], env=dict(os.environ, REPLAY_REPO=repo), capture_output=True, timeout=120)
        st = _open_status(fn)
        if st != 'silent:len=3':
            bad.append({'cleanly_closed_file': st, 'required': 'silent:len=3'})
        # exclusive create / overwrite / remove guard
        from oqupy.process_tensor import FileProcessTensor
        try:
            FileProcessTensor('write', fn, hilbert_space_dimension=2)
            bad.append('mode write overwrote an existing file')
        except (FileExistsError, OSError):
            pass
        if _open_status(fn) != 'silent:len=3':
            bad.append('existing file damaged by a refused create')
        r = FileProcessTensor('read', fn)
        try:
            r.remove()
            bad.append('a read-mode object removed the file')
        except FileExistsError:
            pass
        if not os.path.exists(fn):
            bad.append('file gone after refused remove')
        o = FileProcessTensor('overwrite', fn, hilbert_space_dimension=2)
        o.remove()
        if os.path.exists(fn):
            bad.append('overwrite-mode object could not remove its file')
    finally:
        for f in os.listdir(d):
            os.remove(os.path.join(d, f))
        os.rmdir(d)
    return {'violates': bool(bad), 'detail': bad[:5]}


# thorough tier (bounded native sweeps): (function, inputs, obligation of the open finding it reproduces or None)
THOROUGH = [('file_protocol', {}, None)]
