"""Replays for C19 on the real code: inject a failure, then look for live timer threads."""
import io
import threading
import time
import contextlib
import numpy as np


def _alive_timers():
    return [t for t in threading.enumerate() if isinstance(t, threading.Timer) and t.is_alive()]


class FailAt:
    """callable that raises at its n-th call after being armed (state is shared through a
    class-level dict so that copies of the object made by the library still fail)"""
    STATE = {}

    def __init__(self, n, ret):
        self.key = len(FailAt.STATE)
        FailAt.STATE[self.key] = {'n': n, 'c': 0, 'armed': False}
        self.ret = ret

    @property
    def armed(self):
        return FailAt.STATE[self.key]['armed']

    @armed.setter
    def armed(self, v):
        FailAt.STATE[self.key]['armed'] = v

    def __call__(self, *a):
        st = FailAt.STATE[self.key]
        if st['armed']:
            st['c'] += 1
            if st['c'] == st['n']:
                raise RuntimeError('injected failure')
        return self.ret(*a)


def _run(api, progress_type, n_fail=None):
    import oqupy
    sx, sz = oqupy.operators.sigma('x'), oqupy.operators.sigma('z')
    rho = oqupy.operators.spin_dm('z+')
    if api in ('compute_dynamics', 'Tempo', 'gradient'):
        ham = FailAt(5, lambda t: 0.3 * sx + 0.1 * t * sz)
        sys_ = oqupy.TimeDependentSystem(ham)
        if api == 'compute_dynamics':
            ham.armed = True
            oqupy.compute_dynamics(sys_, initial_state=rho, dt=0.1, num_steps=6, progress_type=progress_type)
        elif api == 'Tempo':
            from replay.c14 import _bath, _params
            t = oqupy.Tempo(sys_, _bath(), _params(), rho, 0.0)
            ham.armed = True
            t.compute(0.6, progress_type=progress_type)
        else:
            from replay.c14 import _bath, _params
            pt = oqupy.pt_tempo_compute(_bath(), 0.0, 0.4, _params(), progress_type='silent')
            f = FailAt(3, lambda p: 0.3 * p * sx)
            psys = oqupy.ParameterizedSystem(f)
            f.armed = True
            oqupy.state_gradient(psys, rho, rho.T, [pt], np.ones((8, 1)), progress_type=progress_type)
    elif api == 'compute_dynamics_with_field':
        eom = FailAt(n_fail or 4, lambda t, s, a: -0.1j * a)
        sysf = oqupy.TimeDependentSystemWithField(lambda t, a: 0.3 * sx + a.real * sz)
        mfs = oqupy.MeanFieldSystem([sysf], field_eom=eom)
        eom.armed = True
        oqupy.compute_dynamics_with_field(mfs, initial_field=0.1 + 0j, dt=0.1, num_steps=6,
                                          initial_state_list=[rho], progress_type=progress_type)
    elif api == 'PtTempo':
        # a user correlation function that fails at its n-th evaluation: n = 1 is inside the back end's initialize() (the first
        # influence tensors), larger n inside the step loop
        corrf = FailAt(n_fail or 1, lambda t: np.exp(-2.0 * abs(t)) * (1.0 - 0.5j * np.sign(t)))
        bath = oqupy.Bath(0.5 * sz, oqupy.CustomCorrelations(corrf))
        par = oqupy.TempoParameters(dt=0.1, dkmax=3, epsrel=1e-3)
        p = oqupy.PtTempo(bath, 0.0, 0.6, par)
        corrf.armed = True
        p.compute(progress_type=progress_type)
    else:
        raise KeyError(api)


def leak(inp):
    api = inp.get('api')
    if 'PtTempo' in str(inp.get('obligation', '')) + str(inp.get('target', '')):
        api = 'PtTempo'
    api = {'GibbsTempo': 'Tempo', 'PtTebd': 'Tempo'}.get(api, api)
    leaks = []
    cases = (('bar', None), ('bar', 2), ('bar', 6), ('simple', None), ('silent', None))
    if api == 'PtTempo':
        cases = (('bar', 1), ('bar', 1500), ('bar', 4000), ('simple', 1), ('silent', 1))
    for ptype, nf in cases:
        before = set(_alive_timers())
        buf = io.StringIO()
        failed = False
        with contextlib.redirect_stdout(buf):
            try:
                _run(api, ptype, nf)
            except RuntimeError:
                failed = True
        time.sleep(0.05)
        left = [t for t in _alive_timers() if t not in before]
        if left:
            leaks.append({'progress_type': ptype, 'alive_timer_threads': len(left), 'injected_failure_raised': failed})
            for t in left:
                t.cancel()
    return {'violates': bool(leaks), 'api': api, 'detail': leaks}


def timer_race(inp):
    """force the interleaving  callback: cancel() | caller: exit() | callback: re-arm
    with a scripted Timer substituted for oqupy.util.Timer (two real threads)."""
    import oqupy.util as U

    class ScriptedTimer:
        instances = []
        hook = None

        def __init__(self, interval, fn):
            self.fn, self.armed = fn, False
            ScriptedTimer.instances.append(self)

        def start(self):
            self.armed = True

        def cancel(self):
            self.armed = False
            h, ScriptedTimer.hook = ScriptedTimer.hook, None
            if h is not None:
                h()
    orig = U.Timer
    U.Timer = ScriptedTimer
    try:
        buf = io.StringIO()
        pb = U.ProgressBar(10)
        pb._file = buf
        with contextlib.redirect_stdout(buf):
            pb.enter()
            pb.update(1)
            fired = pb._timer                      # this timer now "fires": its callback runs on another thread
            fired.armed = False
            go_exit, exit_done = threading.Event(), threading.Event()

            def hook():                            # runs inside the callback's cancel()
                go_exit.set()
                exit_done.wait(0.5)                # let the caller's exit() run (as far as it can)
            ScriptedTimer.hook = hook
            cb = threading.Thread(target=fired.fn)
            cb.start()
            go_exit.wait(2.0)
            pb.exit()
            exit_done.set()
            cb.join(5.0)
        armed = [t for t in ScriptedTimer.instances if t.armed]
        return {'violates': bool(armed), 'armed_timers_after_exit_returned': len(armed),
                'interleaving': 'callback: self._timer.cancel() | caller: exit() | callback: self._timer = Timer(...); start()'}
    finally:
        U.Timer = orig


def _race(leave_kind, interleaving):
    """leave_kind: 'exit' | 'context-exception' | 'context-normal'
    interleaving: 'callback-first'  callback runs its cancel(), then the caller leaves, then the callback continues
                  'caller-first'    the caller is inside its cancelling action when the timer fires: the callback
                                    starts (and may block on a lock) and only continues after the caller has left"""
    import oqupy.util as U

    class ScriptedTimer:
        instances = []
        hook = None

        ctor_hook = None

        def __init__(self, interval, fn):
            self.fn, self.armed = fn, False
            ScriptedTimer.instances.append(self)
            h, ScriptedTimer.ctor_hook = ScriptedTimer.ctor_hook, None
            if h is not None:
                h()

        def start(self):
            self.armed = True

        def cancel(self):
            self.armed = False
            h, ScriptedTimer.hook = ScriptedTimer.hook, None
            if h is not None:
                h()
    orig = U.Timer
    U.Timer = ScriptedTimer
    try:
        buf = io.StringIO()
        pb = U.ProgressBar(10)
        pb._file = buf

        def leave():
            if leave_kind == 'exit':
                pb.exit()
            elif leave_kind == 'context-normal':
                pb.__exit__(None, None, None)
            else:
                e = RuntimeError('injected failure')
                pb.__exit__(RuntimeError, e, None)
        with contextlib.redirect_stdout(buf):
            pb.enter()
            pb.update(1)
            fired = pb._timer
            fired.armed = False
            if interleaving in ('callback-first', 'callback-at-rearm', 'callback-before-lock'):
                go, done = threading.Event(), threading.Event()

                def hook():
                    go.set()
                    done.wait(0.5)
                if interleaving == 'callback-first':
                    ScriptedTimer.hook = hook              # the callback pauses inside its cancel()
                elif interleaving == 'callback-at-rearm':
                    ScriptedTimer.ctor_hook = hook         # ... or when it creates the next timer (just before start())
                else:
                    # ... or just before it takes the bar's lock (after whatever it checked without the lock)
                    real_lock = pb._lock

                    class PausingLock:
                        armed = True

                        def __enter__(self_):
                            if PausingLock.armed and threading.current_thread() is not threading.main_thread():
                                PausingLock.armed = False
                                hook()
                            return real_lock.__enter__()

                        def __exit__(self_, *a):
                            return real_lock.__exit__(*a)

                        def acquire(self_, *a, **k):
                            return real_lock.acquire(*a, **k)

                        def release(self_):
                            return real_lock.release()
                    pb._lock = PausingLock()
                cb = threading.Thread(target=fired.fn)
                cb.start()
                go.wait(2.0)
                leave()
                done.set()
                cb.join(5.0)
            else:
                holder = {}

                def hook():            # runs inside the caller's cancel()
                    holder['cb'] = threading.Thread(target=fired.fn)
                    holder['cb'].start()
                    time.sleep(0.3)    # the callback has started; with a lock it now waits for the caller
                ScriptedTimer.hook = hook
                leave()
                if 'cb' in holder:
                    holder['cb'].join(5.0)
        armed = [t for t in ScriptedTimer.instances if t.armed]
        return len(armed)
    finally:
        U.Timer = orig


_old_timer_race = timer_race


def timer_race(inp):
    bad = []
    for kind in ('exit', 'context-normal', 'context-exception'):
        for inter in ('callback-first', 'callback-at-rearm', 'callback-before-lock', 'caller-first'):
            n = _race(kind, inter)
            if n:
                bad.append({'caller_leaves_by': kind, 'interleaving': inter, 'armed_timers_after_the_caller_left': n})
    return {'violates': bool(bad), 'detail': bad}


def enter_failure(inp):
    """a ProgressBar whose terminal output fails while the reporter is ENTERED (closed stream / a step count that cannot be
    formatted): the with statement never calls __exit__, so no timer thread may be left alive"""
    import threading
    from oqupy import util

    class Broken(io.StringIO):
        def __init__(self, fail_from):
            super().__init__()
            self.n, self.fail_from = 0, fail_from

        def write(self, s):
            self.n += 1
            if self.n >= self.fail_from:
                raise ValueError('I/O operation on closed file')
            return super().write(s)
    leaks = []
    for what in ('stream fails at first write', 'stream fails at second write', 'max_value is a float'):
        before = set(_alive_timers())
        bar = util.ProgressBar(10 if 'float' not in what else 2.0, 'title')
        bar._file = Broken(1 if 'first' in what else 2) if 'stream' in what else io.StringIO()
        raised = False
        try:
            with bar as b:
                pass
        except Exception:       # noqa
            raised = True
        time.sleep(1.3)         # a re-arming timer would fire and re-arm in this time
        left = [t for t in _alive_timers() if t not in before]
        if left:
            leaks.append({'case': what, 'alive_timer_threads_after_the_with_statement_ended': len(left), 'with statement raised': raised})
            for t in left:
                t.cancel()
            bar._closed = True
    return {'violates': bool(leaks), 'detail': leaks}


def stale_write(inp):
    """a timer callback that is ALREADY RUNNING (it has started to write its status line to a slow stream) when the caller leaves:
    after exit() / the with statement has returned nothing may be written any more.  Both kinds of callback: the one armed by
    enter() and the one re-armed by update().  Scripted Timer (the callback is run on a real second thread); the stream blocks
    writes of non-main threads until released or 0.6 s have passed."""
    import threading
    import oqupy.util as U

    class ScriptedTimer:
        instances = []

        def __init__(self, interval, fn):
            self.fn, self.armed = fn, False
            ScriptedTimer.instances.append(self)

        def start(self):
            self.armed = True

        def cancel(self):
            self.armed = False

    class SlowStream(io.StringIO):
        def __init__(self):
            super().__init__()
            self.in_write, self.log = threading.Event(), []

        def write(self, text):
            if threading.current_thread() is not threading.main_thread():
                self.in_write.set()
                time.sleep(0.6)
            self.log.append((time.monotonic(), threading.current_thread() is threading.main_thread(), text))
            return super().write(text)
    bad = []
    orig = U.Timer
    U.Timer = ScriptedTimer
    try:
        for which in ('timer armed by enter()', 'timer re-armed by update()'):
            for leave in ('exit', 'context'):
                ScriptedTimer.instances = []
                stream = SlowStream()
                pb = U.ProgressBar(10)
                pb._file = stream
                pb.enter()
                if which.endswith('update()'):
                    pb.update(1)
                fired = pb._timer                       # this timer fires now: its callback runs on a second thread
                fired.armed = False
                cb = threading.Thread(target=fired.fn)
                cb.start()
                if not stream.in_write.wait(2.0):
                    cb.join(2.0)
                    continue                            # the callback wrote nothing at all (closed?): nothing to check
                if leave == 'exit':
                    pb.exit()
                else:
                    pb.__exit__(None, None, None)
                left_at = time.monotonic()
                cb.join(5.0)
                late = [t for (t, is_main, text) in stream.log if not is_main and t > left_at]
                if late or cb.is_alive():
                    bad.append({'callback': which, 'caller leaves by': leave, 'writes by the timer thread after the caller had left': len(late),
                                'seconds after': [round(t - left_at, 3) for t in late][:3]})
    finally:
        U.Timer = orig
    return {'violates': bool(bad), 'detail': bad}


# thorough tier (bounded native sweeps): (function, inputs, obligation of the open finding it reproduces or None)
THOROUGH = [('timer_race', {}, None), ('enter_failure', {}, None), ('stale_write', {}, None)]
