"""Replays for C05 on the real code: Hermitian coupling operators with repeated eigenvalues,
written in rotated bases."""
import numpy as np


def _haar(d, rng):
    z = rng.normal(size=(d, d)) + 1j * rng.normal(size=(d, d))
    q, r = np.linalg.qr(z)
    return q * (np.diag(r) / np.abs(np.diag(r)))


def bath_eigensystem(inp):
    import oqupy
    rng = np.random.default_rng(11)
    corr = oqupy.PowerLawSD(alpha=0.1, zeta=1, cutoff=3.0, cutoff_type='exponential', temperature=0.0)
    bad = []
    cases = 0
    for spectrum in ([0, 0, 1], [1, 1, -0.5], [0.5, -0.5], [1, 1, 1, 2], [0, 0, 0, 0], [2, 2, -1, -1, 0.3]):
        for trial in range(6):
            d = len(spectrum)
            V = _haar(d, rng)
            O = V @ np.diag(spectrum) @ V.conj().T
            O = (O + O.conj().T) / 2
            cases += 1
            try:
                b = oqupy.Bath(O, corr)
            except AssertionError as e:
                bad.append({'spectrum': spectrum, 'trial': trial, 'observed': 'AssertionError (Hermitian operator rejected)'})
                continue
            U, D = b.unitary_transform, b.coupling_operator
            nonunit = float(np.abs(U.conj().T @ U - np.eye(d)).max())
            imag = float(np.abs(np.diag(D).imag).max())
            rec = float(np.abs(U @ D @ U.conj().T - O).max())
            offd = float(np.abs(D - np.diag(np.diag(D))).max())
            if nonunit > 1e-9 or imag > 1e-9 or rec > 1e-9 or offd > 1e-9:
                bad.append({'spectrum': spectrum, 'trial': trial, '|U^H U - 1|': nonunit, '|Im eigenvalues|': imag, '|U D U^H - O|': rec,
                            'off-diagonal part of the "diagonalised" operator': offd})
    # sparse non-diagonal Hermitian operators (zeros next to the main diagonal, couplings between distant levels)
    for O in (np.array([[0, 0, 1.0], [0, 0.5, 0], [1.0, 0, 0]]), np.array([[0.2, 0, 0, 1j], [0, -0.1, 0, 0], [0, 0, 0.3, 0], [-1j, 0, 0, 0.0]]),
              np.array([[0, 0, 0.3, 0], [0, 1.0, 0, 0.2], [0.3, 0, 0, 0], [0, 0.2, 0, -1.0]])):
        cases += 1
        b = oqupy.Bath(O, corr)
        U, D = b.unitary_transform, b.coupling_operator
        rec = float(np.abs(U @ D @ U.conj().T - O).max())
        offd = float(np.abs(D - np.diag(np.diag(D))).max())
        if rec > 1e-9 or offd > 1e-9 or float(np.abs(U.conj().T @ U - np.eye(len(O))).max()) > 1e-9:
            bad.append({'operator': O.tolist(), '|U D U^H - O|': rec, 'off-diagonal part of the "diagonalised" operator': offd})
    return {'violates': bool(bad), 'cases': cases, 'detail': bad[:4], 'n_bad': len(bad)}


def basis_covariance(inp):
    """simulating (V H V^+, V O V^+, V rho0 V^+) must give V rho(t) V^+, for unique in {False, True}"""
    import oqupy
    rng = np.random.default_rng(21)
    corr = oqupy.PowerLawSD(alpha=0.15, zeta=1, cutoff=3.0, cutoff_type='exponential', temperature=0.2)
    par = oqupy.TempoParameters(dt=0.15, dkmax=3, epsrel=1e-8)
    bad = []
    for spectrum in ([0.5, -0.5], [1.0, 1.0, 0.0]):
        d = len(spectrum)
        O = np.diag(spectrum)
        h = rng.normal(size=(d, d)) + 1j * rng.normal(size=(d, d))
        H = (h + h.conj().T) / 4
        a = rng.normal(size=(d, d)) + 1j * rng.normal(size=(d, d))
        rho0 = a @ a.conj().T
        rho0 /= np.trace(rho0)
        V = _haar(d, rng)
        for unique in (False, True):
            ref = oqupy.Tempo(oqupy.System(H), oqupy.Bath(O, corr), par, rho0, 0.0, unique=unique).compute(0.6, progress_type='silent').states
            OV = V @ O @ V.conj().T
            rot = oqupy.Tempo(oqupy.System(V @ H @ V.conj().T), oqupy.Bath((OV + OV.conj().T) / 2, corr), par, V @ rho0 @ V.conj().T, 0.0,
                              unique=unique).compute(0.6, progress_type='silent').states
            err = max(float(np.abs(r - V @ s @ V.conj().T).max()) for r, s in zip(rot, ref))
            if err > 1e-6:
                bad.append({'spectrum': spectrum, 'unique': unique, 'max_deviation_from_covariance': err})
    return {'violates': bool(bad), 'detail': bad}

def basis_covariance_pt(inp):
    """PT-TEMPO + compute_dynamics: simulating (V H V^+, V O V^+, V rho0 V^+) must give V rho(t) V^+ for a generic COMPLEX unitary V"""
    import oqupy
    rng = np.random.default_rng(33)
    corr = oqupy.PowerLawSD(alpha=0.15, zeta=1, cutoff=3.0, cutoff_type='exponential', temperature=0.2)
    par = oqupy.TempoParameters(dt=0.15, dkmax=3, epsrel=1e-8)
    bad = []
    for spectrum in ([0.5, -0.5], [1.0, 0.3, -0.4]):
        d = len(spectrum)
        O = np.diag(spectrum)
        h = rng.normal(size=(d, d)) + 1j * rng.normal(size=(d, d))
        H = (h + h.conj().T) / 4
        a = rng.normal(size=(d, d)) + 1j * rng.normal(size=(d, d))
        rho0 = a @ a.conj().T
        rho0 /= np.trace(rho0)
        V = _haar(d, rng)

        def run(Hs, Os, r0, file_backed=False):
            # the in-memory and the file-backed process tensor are built by two different constructors of PtTempo
            pt = oqupy.PtTempo(oqupy.Bath((Os + Os.conj().T) / 2, corr), 0.0, 0.6, par,
                               process_tensor_file=True if file_backed else None).get_process_tensor(progress_type='silent')
            try:
                return oqupy.compute_dynamics(oqupy.System(Hs), initial_state=r0, process_tensor=pt, progress_type='silent').states
            finally:
                if file_backed:
                    pt.close()
                    pt.remove()
        ref = run(H, O, rho0)
        for file_backed in (False, True):
            rot = run(V @ H @ V.conj().T, V @ O @ V.conj().T, V @ rho0 @ V.conj().T, file_backed)
            err = max(float(np.abs(r - V @ s @ V.conj().T).max()) for r, s in zip(rot, ref))
            if err > 1e-6:
                bad.append({'spectrum': spectrum, 'process_tensor': 'file' if file_backed else 'in memory', 'max_deviation_from_covariance': err})
    return {'violates': bool(bad), 'detail': bad}



def superoperator_helpers(inp):
    """oqupy.operators: vec(A rho B) = left_right_super(A, B) vec(rho) (row-major), left/right_super, commutator, acommutator"""
    import numpy as np
    import oqupy.operators as op
    rng = np.random.default_rng(3)
    bad = []
    for d in (2, 3):
        A = rng.normal(size=(d, d)) + 1j * rng.normal(size=(d, d))
        B = rng.normal(size=(d, d)) + 1j * rng.normal(size=(d, d))
        rho = rng.normal(size=(d, d)) + 1j * rng.normal(size=(d, d))
        v = rho.reshape(-1)
        want = {'left_super': A @ rho, 'right_super': rho @ A, 'left_right_super': A @ rho @ B, 'commutator': A @ rho - rho @ A,
                'acommutator': A @ rho + rho @ A}
        got = {'left_super': op.left_super(A) @ v, 'right_super': op.right_super(A) @ v, 'left_right_super': op.left_right_super(A, B) @ v,
               'commutator': op.commutator(A) @ v, 'acommutator': op.acommutator(A) @ v}
        for k in want:
            dev = float(np.abs(got[k].reshape(d, d) - want[k]).max())
            if dev > 1e-12:
                bad.append({'helper': k, 'dimension': d, 'deviation': dev})
    return {'violates': bool(bad), 'detail': bad}


# thorough tier (bounded native sweeps): (function, inputs, obligation of the open finding it reproduces or None)
THOROUGH = [('superoperator_helpers', {}, None), ('bath_eigensystem', {}, None), ('basis_covariance', {}, None), ('basis_covariance_pt', {}, None)]
