"""Replays for C13 on the real code."""
import numpy as np
from replay.run import num


class _P:
    def __init__(self, dt):
        self.dt = dt


class _Stub:
    def __init__(self, start, dt):
        self._start_time = start
        self._parameters = _P(dt)


def _steps_real(target, start, end, dt):
    import oqupy.tempo as T
    if 'MeanField' in (target or ''):
        return T.MeanFieldTempo._get_num_step(_Stub(start, dt), 0, end)
    return T.Tempo._get_num_step(_Stub(start, dt), 0, end)


def steps_search(inp):
    """The proof obligation was refuted in the standard model of floating point (fresh
    relative error per operation); doubles realising it are searched for natively on the
    decimal lattice the property quantifies over (dt literal, end = literal of m*dt)."""
    target = inp.get('target')
    from fractions import Fraction
    for dts in ('0.1', '0.01', '0.05', '0.2', '0.3', '0.7', '0.025', '0.04', '0.125', '0.15'):
        dt = float(dts)
        for start in (0.0, 1.0, -0.5):
            for m in range(1, 1001):
                end_lit = Fraction(dts) * m + Fraction(start)
                end = float(end_lit)           # the decimal literal a user would write
                got = _steps_real(target, start, end, dt)
                q = (Fraction(end) - Fraction(start)) / Fraction(dt)
                near = round(q)
                if abs(q - near) <= Fraction(8, 2 ** 53) * max(1, q) and got != near:
                    return {'violates': True, 'input': {'start_time': start, 'end_time': end, 'dt': dt},
                            'observed_steps': int(got), 'required_steps': int(near)}
                if abs(q - near) >= Fraction(1, 10 ** 6) and got != q.numerator // q.denominator:
                    return {'violates': True, 'input': {'start_time': start, 'end_time': end, 'dt': dt},
                            'observed_steps': int(got), 'required_steps': int(q.numerator // q.denominator)}
    # ends just below a grid point (clearly off-grid: the spec demands the floor)
    for dts in ('0.05', '0.1', '0.01'):
        dt = float(dts)
        for start in (0.0, 1.0):
            for m in (5, 50, 200, 1000, 5000):
                for f in (3e-8, 1e-7, 1e-6, 1e-5, 1e-4, 1e-3):
                    end = start + (m - f) * dt
                    got = _steps_real(target, start, end, dt)
                    q = (Fraction(end) - Fraction(start)) / Fraction(dt)
                    near = round(q)
                    if abs(q - near) >= Fraction(1, 10 ** 6) and got != q.numerator // q.denominator:
                        return {'violates': True, 'input': {'start_time': start, 'end_time': end, 'dt': dt},
                                'observed_steps': int(got), 'required_steps': int(q.numerator // q.denominator)}
    # other time units (dt from 1e-9 to 1e3): an off-grid end is floored whatever the unit
    for dt in (2e-9, 1e-6, 3e-4, 2.5, 1e3):
        for start in (0.0, 7 * dt):
            for mf in (2.6, 9.75, 100.5, 3.2):
                end = start + mf * dt
                got = _steps_real(target, start, end, dt)
                q = (Fraction(end) - Fraction(start)) / Fraction(dt)
                if abs(q - round(q)) >= Fraction(1, 10 ** 6) and got != q.numerator // q.denominator:
                    return {'violates': True, 'input': {'start_time': start, 'end_time': end, 'dt': dt},
                            'observed_steps': int(got), 'required_steps': int(q.numerator // q.denominator)}
    # large offsets: start_time many steps away from zero (the literal of start + m dt is then rounded by many units of the step fraction)
    for dts, starts in (('0.001', ('1000000', '123456.789', '-250000')), ('0.1', ('100000000', '-31415926.5')), ('1e-06', ('1000', '0.5'))):
        dt = float(dts)
        for ss in starts:
            start = float(ss)
            for m in (1, 2, 3, 4, 7, 10, 99, 100, 250, 999, 1000):
                end = float(Fraction(dts) * m + Fraction(ss))
                got = _steps_real(target, start, end, dt)
                if got != m:
                    return {'violates': True, 'input': {'start_time': start, 'end_time': end, 'dt': dt}, 'observed_steps': int(got), 'required_steps': m}
                end2 = float(Fraction(dts) * m + Fraction(ss) + Fraction(dts) * Fraction(2, 5))      # clearly off-grid: floor
                got2 = _steps_real(target, start, end2, dt)
                if got2 != m:
                    return {'violates': True, 'input': {'start_time': start, 'end_time': end2, 'dt': dt}, 'observed_steps': int(got2), 'required_steps': m}
    return {'violates': False, 'searched': 'dt in 10 literals x start in 3 x m<=1000, ends just below grid points, dt from 1e-9 to 1e3, large offsets'}


def compute_dynamics_times(inp):
    """time labels / number of states of compute_dynamics for record_all in {True, False}"""
    import oqupy
    m = inp.get('model') or {}
    sys_ = oqupy.System(0.5 * oqupy.operators.sigma('x'))
    rho = oqupy.operators.spin_dm('z+')
    cases = []
    n_model = m.get('num_steps')
    for ra in (False, True):
        for N in sorted({0, 1, 5, int(n_model) if isinstance(n_model, int) and 0 <= n_model < 50 else 3}):
            for t0, dt in ((0.0, 0.1), (0.3, 0.25)):
                d = oqupy.compute_dynamics(sys_, initial_state=rho, dt=dt, num_steps=N, start_time=t0,
                                           record_all=ra, progress_type='silent')
                want = [t0 + k * dt for k in range(N + 1)] if ra else [t0 + N * dt]
                got = [float(x) for x in d.times]
                if len(got) != len(want) or any(abs(a - b) > 1e-12 for a, b in zip(got, want)) \
                        or len(d.states) != len(want):
                    return {'violates': True, 'input': {'record_all': ra, 'num_steps': N, 'start_time': t0, 'dt': dt},
                            'observed_times': got, 'required_times': want}
                cases.append((ra, N, t0, dt))
    return {'violates': False, 'cases': len(cases)}


def dynamics_add(inp):
    """Dynamics.add / Dynamics(times, states) with times in any order: times sorted, every state keeps its time"""
    import itertools
    import oqupy
    bad = []
    for perm in itertools.permutations([0.0, 0.1, 0.25, 0.4]):
        d = oqupy.Dynamics()
        for t in perm:
            d.add(t, np.array([[t, 0.0], [0.0, 1.0 - t]]))
        ts = [float(x) for x in d.times]
        ok = ts == sorted(ts) and all(abs(complex(s[0, 0]).real - t) < 1e-12 for t, s in zip(ts, d.states))
        d2 = oqupy.Dynamics(times=list(perm), states=[np.array([[t, 0.0], [0.0, 1.0 - t]]) for t in perm])
        ts2 = [float(x) for x in d2.times]
        ok2 = ts2 == sorted(ts2) and all(abs(complex(s[0, 0]).real - t) < 1e-12 for t, s in zip(ts2, d2.states))
        if not (ok and ok2):
            bad.append({'insertion order of the times': list(perm), 'times': ts, 'state labels': [float(complex(s[0, 0]).real) for s in d.states]})
    return {'violates': bool(bad), 'detail': bad[:3], 'n_bad': len(bad)}


def mean_field_dynamics_add(inp):
    """MeanFieldDynamics filled in arbitrary time order (constructor and add): times sorted, the field and every system's state stay
    with their time"""
    import itertools
    import numpy as np
    from oqupy.dynamics import MeanFieldDynamics
    bad = []
    base_t = [0.0, 0.1, 0.2, 0.3]
    for nsys in (1, 2, 3):
        for perm in itertools.permutations(range(4)):
            def st(k, j):
                return np.array([[k + 1.0, 0.1 * j], [0.1 * j, -(k + 1.0)]], dtype=complex)
            for how in ('add', 'constructor'):
                if how == 'add':
                    d = MeanFieldDynamics()
                    for k in perm:
                        d.add(base_t[k], [st(k, j) for j in range(nsys)], (k + 1) * (1 + 2j))
                else:
                    d = MeanFieldDynamics(times=[base_t[k] for k in perm], system_states_list=[[st(k, j) for j in range(nsys)] for k in perm],
                                          fields=[(k + 1) * (1 + 2j) for k in perm])
                ok = list(d.times) == base_t and all(abs(d.fields[k] - (k + 1) * (1 + 2j)) < 1e-12 for k in range(4)) and len(d.system_dynamics) == nsys
                for j in range(nsys if ok else 0):
                    sd = d.system_dynamics[j]
                    ok = ok and list(sd.times) == base_t and all(np.allclose(sd.states[k], st(k, j)) for k in range(4))
                if not ok:
                    bad.append({'systems': nsys, 'order of insertion': list(perm), 'filled by': how})
    return {'violates': bool(bad), 'detail': bad[:4], 'n_bad': len(bad)}


def dynamics_expectations(inp):
    """Dynamics.expectations: entry j is Tr(O rho_j) of the state stored with time j (states added out of order), trace for O = None,
    real part iff real=True"""
    import numpy as np
    from oqupy.dynamics import Dynamics
    rng = np.random.default_rng(2)
    ts = [0.3, 0.0, 0.2, 0.1]
    sts = {t: rng.normal(size=(2, 2)) + 1j * rng.normal(size=(2, 2)) for t in ts}
    d = Dynamics()
    for t in ts:
        d.add(t, sts[t])
    op = rng.normal(size=(2, 2)) + 1j * rng.normal(size=(2, 2))
    bad = []
    for o in (None, op):
        for real in (False, True):
            t, e = d.expectations(o, real=real)
            want = [np.trace((np.eye(2) if o is None else o) @ sts[x]) for x in sorted(ts)]
            want = np.real(want) if real else np.array(want)
            if list(t) != sorted(ts) or np.iscomplexobj(e) == real or np.abs(np.array(e) - want).max() > 1e-12:
                bad.append({'operator given': o is not None, 'real': real})
    return {'violates': bool(bad), 'detail': bad}


def api_time_grid(inp):
    """Tempo / PtTempo built through their constructors with start_time != 0: states labelled start_time + k dt, process tensor of
    exactly the number of whole steps"""
    import numpy as np
    import oqupy
    sz, sx = oqupy.operators.sigma('z'), oqupy.operators.sigma('x')
    corr = oqupy.PowerLawSD(alpha=0.1, zeta=1.0, cutoff=3.0, cutoff_type='exponential', temperature=0.2)
    bath = oqupy.Bath(0.5 * sz, corr)
    par = oqupy.TempoParameters(dt=0.1, dkmax=3, epsrel=1e-6)
    bad = []
    for t0 in (0.7, -1.3):
        d = oqupy.Tempo(oqupy.System(0.3 * sx), bath, par, oqupy.operators.spin_dm('z+'), t0).compute(t0 + 0.5, progress_type='silent')
        want = t0 + 0.1 * np.arange(6)
        if len(d.times) != 6 or np.abs(np.array(d.times) - want).max() > 1e-12:
            bad.append({'Tempo start_time': t0, 'times': [float(x) for x in d.times]})
        pt = oqupy.PtTempo(bath, t0, t0 + 0.5, par).get_process_tensor(progress_type='silent')
        if len(pt) != 5:
            bad.append({'PtTempo start_time': t0, 'length': len(pt)})
    return {'violates': bool(bad), 'detail': bad}


# thorough tier (bounded native sweeps): (function, inputs, obligation of the open finding it reproduces or None)
THOROUGH = [('steps_search', {}, None), ('compute_dynamics_times', {}, None), ('dynamics_add', {}, None), ('mean_field_dynamics_add', {}, None), ('dynamics_expectations', {}, None), ('api_time_grid', {}, None)]
