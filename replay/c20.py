"""Replays for C20 on the real code: usage histories on shared correlations objects against
freshly constructed equal objects, and caller-array frames / memory-layout independence."""
import copy
import numpy as np


def _params(cls):
    if cls == 'CustomSD':
        return {'j_function': (lambda w: 0.3 * w), 'cutoff': 2.0, 'cutoff_type': 'exponential', 'temperature': 0.4}
    if cls == 'PowerLawSD':
        return {'alpha': 0.15, 'zeta': 1.5, 'cutoff': 2.0, 'cutoff_type': 'exponential', 'temperature': 0.4}
    return {'correlation_function': (lambda t: (1.0 - 0.5j * np.sign(t)) * np.exp(-abs(t)))}


_CHANGED = {'j_function': (lambda w: 0.1 * w ** 2), 'cutoff': 3.5, 'cutoff_type': 'gaussian', 'temperature': 1.3,
            'alpha': 0.4, 'zeta': 3.0, 'correlation_function': (lambda t: 2.0 * np.exp(-2 * abs(t)))}


def _call(o, meth):
    if meth in ('correlation', 'eta_function'):
        return complex(getattr(o, meth)(0.35))
    return complex(o.correlation_2d_integral(0.1, 0.2, shape='square'))


def history(inp):
    """the history named by the obligation, for every (class, method, attribute) or the one given"""
    import oqupy
    ob = inp.get('obligation', '')
    info = inp.get('info') or {}
    kinds = {'memo/consistent': 'memo', 'attrs/consistent': 'attrs', 'alias/copy-independent': 'alias', 'reuse/same-as-fresh': 'reuse',
             'alias/deepcopy-independent': 'deepcopy'}
    kind = next((v for k, v in kinds.items() if ob.startswith(k)), None)
    classes = [info['class']] if info.get('class') else ['CustomSD', 'PowerLawSD', 'CustomCorrelations']
    bad, n = [], 0
    for cls in classes:
        C = getattr(oqupy, cls)
        meths = [info['method']] if info.get('method') else ['correlation', 'correlation_2d_integral'] + (['eta_function'] if cls != 'CustomCorrelations' else [])
        attrs = [info['attribute']] if info.get('attribute') else list(_params(cls))
        for meth in meths:
            for attr in (attrs if kind != 'reuse' else [None]):
                for k in ([kind] if kind else ['memo', 'attrs', 'alias', 'reuse', 'deepcopy']):
                    p = _params(cls)
                    o = C(**p)
                    n += 1
                    if k == 'reuse':
                        getattr(o, 'eta_function' if (meth == 'correlation_2d_integral' and cls != 'CustomCorrelations') else meth)(0.7) \
                            if meth != 'correlation_2d_integral' or cls != 'CustomCorrelations' else o.correlation_2d_integral(0.2, 0.4)
                        got, want = _call(o, meth), _call(C(**p), meth)
                    elif k == 'deepcopy':
                        c2 = copy.deepcopy(o)
                        v = _CHANGED[attr]
                        setattr(o, attr, np.vectorize(v) if callable(v) else v)
                        got, want = _call(c2, meth), _call(C(**p), meth)
                    elif k == 'alias':
                        b = oqupy.Bath(oqupy.operators.sigma('z'), o)
                        v = _CHANGED[attr]
                        setattr(o, attr, np.vectorize(v) if callable(v) else v)
                        got, want = _call(b.correlations, meth), _call(C(**p), meth)
                    else:
                        if k == 'memo':
                            _call(o, meth)
                        v = _CHANGED[attr]
                        setattr(o, attr, np.vectorize(v) if callable(v) else v)
                        p2 = dict(p)
                        p2[attr] = v
                        got, want = _call(o, meth), _call(C(**p2), meth)
                    if abs(got - want) > 1e-9 * max(1.0, abs(want)):
                        bad.append({'history': k, 'class': cls, 'method': meth, 'attribute': attr, 'observed': str(got),
                                    'freshly constructed equal object': str(want)})
    return {'violates': bool(bad), 'histories_run': n, 'detail': bad[:8]}


# ---------------------------------------------------------------------------------
# caller arrays: frames and memory-layout independence on the real code
def _variant(a, kind):
    a = np.array(a, dtype=complex)
    if kind == 'C':
        return np.ascontiguousarray(a)
    if kind == 'F':
        return np.asfortranarray(a) if a.ndim > 1 else a.copy()
    if kind == 'T':                       # a transposed view: rho.T of the C-ordered transpose
        return np.ascontiguousarray(a.T).T
    if kind == 'S':
        big = np.zeros(tuple(2 * n for n in a.shape), dtype=complex)
        v = big[tuple(slice(None, None, 2) for _ in a.shape)]
        v[...] = a
        return v
    if kind == 'RO':
        b = np.ascontiguousarray(a)
        b.setflags(write=False)
        return b
    raise KeyError(kind)


def _state(arrs):
    return [(x.tobytes(), x.shape, x.strides, x.flags.writeable) for x in arrs]


def _apis():
    import oqupy
    from oqupy import util
    sz, sx = oqupy.operators.sigma('z'), oqupy.operators.sigma('x')
    rho = np.array([[0.7, 0.1 - 0.2j], [0.1 + 0.2j, 0.3]])
    corr = oqupy.PowerLawSD(alpha=0.1, zeta=1, cutoff=2.0, temperature=0.3)

    def result_arrays(r):
        if isinstance(r, np.ndarray):
            return [np.array(r)]
        if isinstance(r, (list, tuple)):
            return [a for x in r for a in result_arrays(x)]
        return []
    A = {}
    A['_check_hamiltonian'] = ([sx + 0.3 * sz], lambda h: oqupy.system._check_hamiltonian(h))
    A['System'] = ([sx + 0.3 * sz, sz], lambda h, l: (lambda s: [s.hamiltonian, s.liouvillian()])(oqupy.System(h, [0.1], [l])))
    A['_check_gammas_lindblad_operators'] = ([sz, sx], lambda a, b: oqupy.system._check_gammas_lindblad_operators([0.1, 0.2], [a, b])[1])
    A['Bath'] = ([0.5 * sx + 0.2 * sz], lambda o: (lambda b: [b.coupling_operator, b.unitary_transform, b.coupling_comm])(oqupy.Bath(o, corr)))
    A['add_singleton'] = ([np.arange(6.0).reshape(2, 3)], lambda t: util.add_singleton(t, 1))
    A['AugmentedMPS'] = ([rho, sz @ rho @ sz], lambda a, b: oqupy.AugmentedMPS([a, b]).gammas)

    def dyn(r0):
        s = oqupy.System(0.4 * sx)
        return oqupy.compute_dynamics(s, initial_state=r0, dt=0.1, num_steps=3, progress_type='silent').states
    A['compute_dynamics'] = ([rho], dyn)

    def dynf(r0):
        sysf = oqupy.TimeDependentSystemWithField(lambda t, a: 0.4 * sx + 0.1 * np.real(a) * sz)
        mf = oqupy.MeanFieldSystem([sysf], field_eom=lambda t, states, field: -0.1j * field + 0.05 * np.trace(states[0] @ sx))
        return oqupy.compute_dynamics_with_field(mf, initial_field=0.3 + 0j, initial_state_list=[r0], dt=0.1, num_steps=3,
                                                 progress_type='silent').system_dynamics[0].states
    A['compute_dynamics_with_field'] = ([rho], dynf)

    def tempo(r0, op):
        t = oqupy.Tempo(oqupy.System(0.4 * sx), oqupy.Bath(op, corr), oqupy.TempoParameters(dt=0.1, dkmax=3, epsrel=1e-6), r0, 0.0)
        return t.compute(0.3, progress_type='silent').states
    A['Tempo'] = ([rho, 0.5 * sz], tempo)

    def grad(r0, tgt, params):
        from replay.c08 import _setup
        _, psys, pts, _, _, _, dt, n = _setup(False)
        res = oqupy.state_gradient(system=psys, initial_state=r0, target_derivative=tgt, process_tensors=pts,
                                   parameters=params.real if np.iscomplexobj(params) else params, progress_type='silent')
        return [np.array(res['gradient']), np.array(res['dynamics'].states[-1])]
    A['gradient'] = ([rho, np.array([[0.5, 0.5j], [-0.5j, 0.5]]), np.linspace(-1, 1, 16).reshape(8, 2)], grad)
    return A, result_arrays


def arrays(inp):
    """every API on C-ordered, Fortran-ordered, transposed, strided and read-only copies of the same values:
    caller arrays bitwise unchanged (data, shape, strides, flags), same outcome for every layout"""
    tgt = (inp.get('target') or inp.get('obligation') or '')
    A, result_arrays = _apis()
    names = [n for n in A if ('arr/' + n + '[') in tgt] or list(A)
    bad = []
    for n in names:
        vals, f = A[n]
        ref = None
        for kind in ('C', 'F', 'T', 'S', 'RO'):
            args = [_variant(v, kind) for v in vals]
            before = _state(args)
            try:
                out = ('ok', result_arrays(f(*args)))
            except Exception as e:        # noqa
                out = ('raise', type(e).__name__ + ': ' + str(e)[:80])
            if _state(args) != before:
                bad.append({'api': n, 'layout': kind, 'caller array changed': True})
            if ref is None:
                ref = out
            elif out[0] != ref[0] or (out[0] == 'ok' and (len(out[1]) != len(ref[1]) or any(
                    a.shape != b.shape or not np.allclose(a, b, atol=1e-12) for a, b in zip(out[1], ref[1])))):
                bad.append({'api': n, 'layout': kind, 'outcome': out[1] if out[0] == 'raise' else 'different values',
                            'outcome for C-ordered input': ref[1] if ref[0] == 'raise' else 'values'})
    # objects built from caller arrays must not follow later in-place changes of those arrays
    import oqupy
    sz, sx = oqupy.operators.sigma('z'), oqupy.operators.sigma('x')
    rho = np.array([[0.7, 0.1 - 0.2j], [0.1 + 0.2j, 0.3]])
    corr = oqupy.PowerLawSD(alpha=0.1, zeta=1, cutoff=2.0, temperature=0.3)
    builders = {
        'System': ([sx + 0.3 * sz, oqupy.operators.sigma('-')], lambda h, l: oqupy.System(h, [0.1], [l]),
                   lambda o: [o.hamiltonian] + list(o.lindblad_operators) + [_liou(o)]),
        '_check_gammas_lindblad_operators': ([sz, sx], lambda a, b: oqupy.System(0.1 * sz, [0.1, 0.2], [a, b]),
                                             lambda o: list(o.lindblad_operators) + [_liou(o)]),
        '_check_hamiltonian': ([sx + 0.3 * sz], lambda h: oqupy.System(h), lambda o: [o.hamiltonian, _liou(o)]),
        'Bath': ([0.5 * sx + 0.2 * sz], lambda op: oqupy.Bath(op, corr), lambda o: [o.coupling_operator, o.unitary_transform]),
        'AugmentedMPS': ([rho, sz @ rho @ sz], lambda a, b: oqupy.AugmentedMPS([a, b]), lambda o: list(o.gammas)),
    }
    for n in names:
        if n not in builders:
            continue
        vals, build, probe = builders[n]
        for kind in ('C', 'F'):
            args = [_variant(v, kind) for v in vals]
            obj = build(*args)
            before = [np.array(x) for x in probe(obj)]
            for a in args:
                try:
                    a *= 2.0
                    a += 1.0
                except ValueError:
                    bad.append({'api': n, 'layout': kind, 'caller array was made read-only by the call': True})
            after = [np.array(x) for x in probe(obj)]
            if any(x.shape != y.shape or not np.array_equal(x, y) for x, y in zip(before, after)):
                bad.append({'api': n, 'layout': kind, 'object follows later in-place changes of the caller array': True})
    return {'violates': bool(bad), 'apis': names, 'detail': bad[:6]}


def stored_arrays(inp):
    """library objects and RESULTS built from complex128 caller arrays (no dtype conversion needed, so only an explicit copy
    separates them) must not follow later in-place changes of those arrays"""
    import oqupy
    from oqupy import dynamics as D, process_tensor as P, mps_mpo as M, control as Ctl
    rng = np.random.default_rng(3)

    def c(*shape):
        return np.ascontiguousarray(rng.normal(size=shape) + 1j * rng.normal(size=shape))
    sx, sz = oqupy.operators.sigma('x'), oqupy.operators.sigma('z')
    sites = {}

    def s_parse():
        a = c(2, 2)
        out, _ = D._parse_state(a, None)
        return [a], lambda: [out]
    sites['_parse_state'] = s_parse

    def s_dynadd():
        a = c(2, 2)
        d = D.Dynamics()
        d.add(0.0, a)
        return [a], lambda: [d.states[0]]
    sites['Dynamics.add'] = s_dynadd

    def s_dynctor():
        a = c(2, 2)
        d = D.Dynamics(times=[0.0], states=[a])
        return [a], lambda: [d.states[0]]
    sites['Dynamics'] = s_dynctor

    def s_cd():
        rho = np.array([[0.7, 0.1 - 0.2j], [0.1 + 0.2j, 0.3]])
        d = oqupy.compute_dynamics(oqupy.System(0.3 * sx + 0.1 * sz), initial_state=rho, dt=0.1, num_steps=3, progress_type='silent')
        return [rho], lambda: list(d.states)
    sites['compute_dynamics result'] = s_cd

    def s_cdf():
        rho = np.array([[0.7, 0.1 - 0.2j], [0.1 + 0.2j, 0.3]])
        sysf = oqupy.TimeDependentSystemWithField(lambda t, a: 0.3 * sx + a.real * sz)
        mfs = oqupy.MeanFieldSystem([sysf, sysf], field_eom=lambda t, st, a: -0.1j * a)
        d = oqupy.compute_dynamics_with_field(mfs, initial_field=0.1 + 0j, dt=0.1, num_steps=2, initial_state_list=[rho, rho],
                                              progress_type='silent')
        return [rho], lambda: [x for sd in d.system_dynamics for x in sd.states]
    sites['compute_dynamics_with_field result'] = s_cdf

    def s_tempo(layout):
        def f():
            sz_ = oqupy.operators.sigma('z')
            corr = oqupy.PowerLawSD(alpha=0.1, zeta=1.0, cutoff=3.0, cutoff_type='exponential', temperature=0.2)
            rho = np.array([[0.7, 0.1 - 0.2j], [0.1 + 0.2j, 0.3]])
            rho = np.asfortranarray(rho) if layout == 'F' else rho
            t = oqupy.Tempo(oqupy.System(0.3 * sx), oqupy.Bath(0.5 * sz_, corr), oqupy.TempoParameters(dt=0.1, dkmax=3, epsrel=1e-6), rho, 0.0)
            ref = np.array(rho)
            calls = []

            def probe():
                # first probe (before the caller changes its array): the state given to the constructor; second probe (after): the
                # first state of the dynamics that is computed THEN -- it must still be the constructor's state
                calls.append(1)
                return [ref] if len(calls) == 1 else [np.array(t.compute(0.2, progress_type='silent').states[0])]
            return [rho], probe
        return f
    sites['Tempo initial state (C-ordered)'] = s_tempo('C')
    sites['Tempo initial state (Fortran-ordered)'] = s_tempo('F')

    def s_pt(which):
        def f():
            pt = P.SimpleProcessTensor(hilbert_space_dimension=2)
            if which == 'initial':
                a = c(1, 4)
                pt.set_initial_tensor(a)
                return [a], lambda: [pt.get_initial_tensor()]
            if which == 'mpo':
                a = c(1, 1, 4, 4)
                pt.set_mpo_tensor(0, a)
                return [a], lambda: [pt.get_mpo_tensor(0, transformed=False)]
            a = c(1)
            pt.set_cap_tensor(0, a)
            return [a], lambda: [pt.get_cap_tensor(0)]
        return f
    sites['SimpleProcessTensor.set_initial_tensor'] = s_pt('initial')
    sites['SimpleProcessTensor.set_mpo_tensor'] = s_pt('mpo')
    sites['SimpleProcessTensor.set_cap_tensor'] = s_pt('cap')

    def s_ptctor():
        a, b = c(4, 3), c(3, 4)
        pt = P.SimpleProcessTensor(hilbert_space_dimension=2, transform_in=a, transform_out=b)
        return [a, b], lambda: [pt.transform_in, pt.transform_out]
    sites['SimpleProcessTensor.__init__'] = s_ptctor

    def s_gate():
        a, b = c(4, 4, 3), c(3, 4, 4)
        g = M.Gate([0, 1], [a, b])
        return [a, b], lambda: list(g.tensors)
    sites['Gate'] = s_gate

    def s_cc():
        a = c(4, 4)
        cc = Ctl.ChainControl([2, 2])
        cc.add_single_site_control(a, 0, 1)
        return [a], lambda: [x for x in cc.get_single_site_controls(1, False) if x is not None]
    sites['ChainControl.add_single_site_control'] = s_cc

    def s_ctl(time, post):
        def f():
            a = c(4, 4)
            ct = Ctl.Control(2)
            ct.add_single(time, a, post=post)
            return [a], lambda: [x for x in ct.get_controls(3, dt=0.1, start_time=0.0) if x is not None]
        return f
    sites['Control.add_single[step]'] = s_ctl(3, False)
    sites['Control.add_single[step] post'] = s_ctl(3, True)
    sites['Control.add_single[time]'] = s_ctl(0.3, False)
    sites['Control.add_single[time] post'] = s_ctl(0.3, True)
    tgt = inp.get('target') or ''
    names = [n for n in sites if ('[' + n + ',') in tgt] or list(sites)
    if 'Control.add_single' in tgt and 'ChainControl' not in tgt:
        names = [n for n in sites if n.startswith('Control.add_single')]
    if '_tempo_physical_input_parse' in tgt:
        names = ['Tempo initial state (C-ordered)', 'Tempo initial state (Fortran-ordered)']
    if any(n in ('_parse_state', 'Dynamics.add') for n in names):
        names += [n for n in ('Dynamics', 'compute_dynamics result', 'compute_dynamics_with_field result') if n not in names]
    bad = []
    for n in names:
        try:
            args, probe = sites[n]()
            before = [np.array(x) for x in probe()]
            for a in args:
                a *= 2.0
                a += 1.0
            after = [np.array(x) for x in probe()]
        except Exception as e:      # noqa
            bad.append({'site': n, 'unexpected exception': type(e).__name__ + ': ' + str(e)[:120]})
            continue
        if any(x.shape != y.shape or not np.array_equal(x, y) for x, y in zip(before, after)):
            bad.append({'site': n, 'what is kept follows later in-place changes of the caller array': True})
    return {'violates': bool(bad), 'sites': names, 'detail': bad[:8]}


def _liou(system):
    # computed from the stored operators, bypassing the per-object memo
    from oqupy.system import _liouvillian
    return _liouvillian(system._hamiltonian, system._gammas, system._lindblad_operators)


def parameterized_system_reuse(inp):
    """one ParameterizedSystem used for propagators / derivatives with dt1 and then with dt2 (equal parameter rows) must answer
    like a freshly constructed equal system"""
    import oqupy
    sx, sy, sz = [oqupy.operators.sigma(c) for c in 'xyz']

    def mk():
        return oqupy.ParameterizedSystem(lambda a, b: 0.5 * a * sx + 0.5 * b * sy + 0.1 * sz, gammas=[lambda a, b: 0.05 + 0.01 * a ** 2],
                                         lindblad_operators=[lambda a, b: sz])
    params = np.array([[0.3, -0.2], [0.3, -0.2], [0.7, 0.1], [0.3, -0.2]])
    bad = []
    for accessor in ('get_propagators', 'get_propagator_derivatives'):
        used, fresh = mk(), mk()
        f1 = getattr(used, accessor)(0.2, params)
        [f1(k) for k in range(2)]
        a = getattr(used, accessor)(0.4, params)
        b = getattr(fresh, accessor)(0.4, params)
        for k in range(2):
            xa, xb = a(k), b(k)
            dev = max(float(np.abs(np.array(u) - np.array(v)).max()) for u, v in zip(xa, xb))
            if dev > 1e-8:
                bad.append({'accessor': accessor, 'step': k, 'max deviation from a fresh equal system': dev})
    return {'violates': bool(bad), 'detail': bad[:4]}


# thorough tier (bounded native sweeps): (function, inputs, obligation of the open finding it reproduces or None)
THOROUGH = [('history', {}, None), ('arrays', {}, None), ('stored_arrays', {}, None), ('parameterized_system_reuse', {}, None), ('pt_tebd_snapshot', {}, None), ('parameterized_system_lists', {}, None)]


def pt_tebd_snapshot(inp):
    """a PtTebd object answers for the parameters and the chain it was BUILT with: the caller changes parameters.dt / epsrel / order
    (public setters) or extends the chain (add_site_hamiltonian) after construction -- before the first compute() and between two
    compute() calls -- and times and states must equal those of an untouched run"""
    import oqupy
    from oqupy import operators as op
    sx, sz = op.sigma('x'), op.sigma('z')

    def chain_():
        chain = oqupy.SystemChain([2, 2])
        chain.add_site_hamiltonian(0, 0.3 * sx)
        chain.add_site_hamiltonian(1, 0.3 * sx)
        chain.add_nn_hamiltonian(0, 0.4 * sz, sz)
        return chain

    def make(parameters, chain=None):
        mps = oqupy.AugmentedMPS([op.spin_dm('z+'), op.spin_dm('x+')])
        return oqupy.PtTebd(mps, chain or chain_(), [None, None], parameters, dynamics_sites=[0])
    ref = make(oqupy.PtTebdParameters(dt=0.1, order=2, epsrel=1e-8)).compute(6, progress_type='silent')
    rt, rs = np.array(ref['time']), ref['dynamics'][0].states
    bad = []

    def compare(label, res):
        t, s = np.array(res['time']), res['dynamics'][0].states
        dt_ = float(np.abs(t - rt).max()) if len(t) == len(rt) else float('inf')
        ds = float(np.abs(s - rs).max()) if s.shape == rs.shape else float('inf')
        if dt_ > 1e-12 or ds > 1e-9:
            bad.append({'history': label, 'times deviate by': dt_, 'states deviate by': ds, 'times': [round(float(x), 6) for x in t]})
    for attr, val in (('dt', 0.3), ('order', 1), ('epsrel', 1e-2)):
        par = oqupy.PtTebdParameters(dt=0.1, order=2, epsrel=1e-8)
        tebd = make(par)
        tebd.compute(3, progress_type='silent')
        setattr(par, attr, val)
        compare('compute(3); parameters.%s = %r; compute(6)' % (attr, val), tebd.compute(6, progress_type='silent'))
        par = oqupy.PtTebdParameters(dt=0.1, order=2, epsrel=1e-8)
        tebd = make(par)
        setattr(par, attr, val)
        compare('PtTebd(...); parameters.%s = %r; compute(6)' % (attr, val), tebd.compute(6, progress_type='silent'))
    par = oqupy.PtTebdParameters(dt=0.1, order=2, epsrel=1e-8)
    chain = chain_()
    tebd = make(par, chain)
    chain.add_site_hamiltonian(0, 2.0 * sz)
    compare('PtTebd(...); chain.add_site_hamiltonian(0, ..); compute(6)', tebd.compute(6, progress_type='silent'))
    return {'violates': bool(bad), 'detail': bad[:4]}


def parameterized_system_lists(inp):
    """ParameterizedSystem(h, gammas=g, lindblad_operators=l): editing the caller's lists g / l afterwards must not change the system"""
    import oqupy
    sx, sz = oqupy.operators.sigma('x'), oqupy.operators.sigma('z')
    g = [lambda a: 0.1 + 0 * a]
    l = [lambda a: sz + 0 * a]
    ps = oqupy.ParameterizedSystem(lambda a: 0.5 * a * sx, gammas=g, lindblad_operators=l)
    before = np.array(ps.liouvillian(0.3))
    g[0] = lambda a: 5.0 + 0 * a
    l[0] = lambda a: sx + 0 * a
    after = np.array(ps.liouvillian(0.3))
    dev = float(np.abs(after - before).max())
    return {'violates': dev > 1e-12, 'detail': {'liouvillian changed by': dev, 'history': 'ParameterizedSystem(.., gammas=g, ..); g[0] = other; l[0] = other'}}
