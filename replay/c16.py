"""Replays for C16 on the real code: export / import round trip of hand-built process tensors."""
import os
import shutil
import tempfile
import numpy as np


def _build(dt, transforms, initial):
    from oqupy.process_tensor import SimpleProcessTensor
    rng = np.random.default_rng(3)
    tin = rng.normal(size=(4, 4)) if transforms in (True, 'in-only') else None
    tout = rng.normal(size=(4, 4)) if transforms in (True, 'out-only') else None
    pt = SimpleProcessTensor(2, dt=dt, transform_in=tin, transform_out=tout, name='nm', description='ds')
    pt.set_mpo_tensor(0, rng.normal(size=(1, 3, 4)))          # rank 3
    pt.set_mpo_tensor(1, rng.normal(size=(3, 2, 4, 4)))       # rank 4
    pt.set_mpo_tensor(2, rng.normal(size=(2, 1, 4)))
    pt.compute_caps()
    if initial:
        pt.set_initial_tensor(rng.normal(size=(4, 3)))
    return pt


def _same(a, b):
    if a is None or b is None:
        return a is None and b is None
    a, b = np.array(a), np.array(b)
    return a.shape == b.shape and np.allclose(a, b)


def roundtrip(inp):
    from oqupy.process_tensor import import_process_tensor
    bad = []
    d = tempfile.mkdtemp(prefix='c16_')
    try:
        k = 0
        for dt in (0.1, None):
            for transforms in (False, True, 'in-only', 'out-only'):
                for initial in (False, True):
                    pt = _build(dt, transforms, initial)
                    fn = os.path.join(d, 'pt%d.h5' % k)
                    k += 1
                    try:
                        pt.export(fn)
                        for kind in ('file', 'simple'):
                            q = import_process_tensor(fn, kind)
                            what = []
                            if len(q) != len(pt):
                                what.append('length')
                            if q.dt != pt.dt or q.hilbert_space_dimension != 2 or q.name != 'nm' or q.description != 'ds':
                                what.append('metadata')
                            if not _same(q.transform_in, pt.transform_in) or not _same(q.transform_out, pt.transform_out):
                                what.append('transforms')
                            if not _same(q.get_initial_tensor(), pt.get_initial_tensor()):
                                what.append('initial tensor: %r vs %r' % (q.get_initial_tensor() if q.get_initial_tensor() is None else 'array', 'None' if pt.get_initial_tensor() is None else 'array'))
                            for s in range(len(pt)):
                                if not _same(q.get_mpo_tensor(s), pt.get_mpo_tensor(s)):
                                    what.append('mpo %d' % s)
                            for s in range(len(pt) + 1):
                                if not _same(q.get_cap_tensor(s), pt.get_cap_tensor(s)):
                                    what.append('cap %d' % s)
                            if q.get_cap_tensor(len(pt) + 1) is not None:
                                what.append('extra cap')
                            if kind == 'file':
                                q.close()
                            if what:
                                bad.append({'dt': dt, 'transforms': transforms, 'initial': initial, 'import_type': kind, 'differs': what[:4]})
                    except Exception as e:      # noqa
                        bad.append({'dt': dt, 'transforms': transforms, 'initial': initial, 'unexpected exception': type(e).__name__ + ': ' + str(e)[:100]})
    finally:
        for f in os.listdir(d):
            os.remove(os.path.join(d, f))
        os.rmdir(d)
    return {'violates': bool(bad), 'detail': bad[:4]}


def file_view_equals_simple(inp):
    """a hand-built process tensor with COMPLEX transforms (rank-3 and rank-4 MPO tensors), exported and imported as file-backed and as
    in-memory object: the transformed MPO tensors, the caps and the dynamics computed from either import equal those of the original"""
    import oqupy
    from oqupy.process_tensor import SimpleProcessTensor, import_process_tensor
    rng = np.random.default_rng(9)

    def c(*shape):
        return rng.normal(size=shape) + 1j * rng.normal(size=shape)
    bad = []
    d = tempfile.mkdtemp(prefix='c16_')
    try:
        for k, (with_in, with_out) in enumerate(((True, True), (True, False), (False, True))):
            tin = c(4, 4) if with_in else None
            tout = c(4, 4) if with_out else None
            pt = SimpleProcessTensor(2, dt=0.1, transform_in=tin, transform_out=tout, name='nm', description='ds')
            pt.set_mpo_tensor(0, c(1, 2, 4))
            pt.set_mpo_tensor(1, c(2, 3, 4, 4))
            pt.set_mpo_tensor(2, c(3, 1, 4))
            pt.compute_caps()
            fn = os.path.join(d, 'v%d.h5' % k)
            pt.export(fn)
            rho0 = np.array([[0.7, 0.1 - 0.2j], [0.1 + 0.2j, 0.3]])
            sysm = oqupy.System(0.3 * oqupy.operators.sigma('x'))
            ref = oqupy.compute_dynamics(sysm, initial_state=rho0, process_tensor=pt, progress_type='silent').states
            for kind in ('file', 'simple'):
                q = import_process_tensor(fn, kind)
                what = []
                for s_ in range(3):
                    if not _same(q.get_mpo_tensor(s_), pt.get_mpo_tensor(s_)):
                        what.append('transformed mpo tensor %d' % s_)
                    def as_map(t):
                        # a rank-3 tensor stands for the rank-4 one with a delta between input and output leg (documented)
                        t = np.array(t)
                        if t.ndim == 3:
                            e = np.zeros(t.shape + (t.shape[2],), dtype=t.dtype)
                            for x in range(t.shape[2]):
                                e[:, :, x, x] = t[:, :, x]
                            return e
                        return t
                    if not _same(as_map(q.get_mpo_tensor(s_, transformed=False)), as_map(pt.get_mpo_tensor(s_, transformed=False))):
                        what.append('raw mpo tensor %d' % s_)
                got = oqupy.compute_dynamics(sysm, initial_state=rho0, process_tensor=q, progress_type='silent').states
                if np.abs(np.array(got) - np.array(ref)).max() > 1e-10:
                    what.append('dynamics')
                if kind == 'file':
                    q.close()
                if what:
                    bad.append({'transform_in': with_in, 'transform_out': with_out, 'import_type': kind, 'differs': what[:4]})
    finally:
        for f in os.listdir(d):
            os.remove(os.path.join(d, f))
        os.rmdir(d)
    return {'violates': bool(bad), 'detail': bad[:4]}


def rename_then_import(inp):
    """name / description assigned AFTER a file-backed process tensor was created must come back from an import"""
    import oqupy
    from oqupy.process_tensor import FileProcessTensor, import_process_tensor
    bad = []
    d = tempfile.mkdtemp(prefix='c16_')
    try:
        for k, (nm, ds) in enumerate((('second name', None), (None, 'second description'), ('second name', 'second description'))):
            fn = os.path.join(d, 'pt%d.hdf5' % k)
            pt = FileProcessTensor(mode='write', filename=fn, hilbert_space_dimension=2, dt=0.1, name='first name', description='first description')
            pt.set_mpo_tensor(0, np.ones((1, 1, 4, 4)))
            pt.set_cap_tensor(0, np.array([1.0]))
            pt.set_cap_tensor(1, np.array([1.0]))
            if nm is not None:
                pt.name = nm
            if ds is not None:
                pt.description = ds
            want = (pt.name, pt.description)
            pt.close()
            for kind in ('file', 'simple'):
                q = import_process_tensor(fn, kind)
                got = (q.name, q.description)
                if kind == 'file':
                    q.close()
                if got != want:
                    bad.append({'assigned': {'name': nm, 'description': ds}, 'import': kind, 'read back': got, 'required': want})
    finally:
        shutil.rmtree(d, ignore_errors=True)
    return {'violates': bool(bad), 'detail': bad[:4]}


# thorough tier (bounded native sweeps): (function, inputs, obligation of the open finding it reproduces or None)
def create_delta_spec(inp):
    from replay.c01 import create_delta_spec as f
    return f(inp)


THOROUGH = [('roundtrip', {}, None), ('rename_then_import', {}, None), ('file_view_equals_simple', {}, None)]
