"""Replays for C16 on the real code: export / import round trip of hand-built process tensors."""
import os
import shutil
import tempfile
import numpy as np


def _build(dt, transforms, initial):
    from oqupy.process_tensor import SimpleProcessTensor
    rng = np.random.default_rng(3)
    tin = rng.normal(size=(4, 4)) if transforms in (True, 'in-only') else None
    tout = rng.normal(size=(4, 4)) if transforms in (True, 'out-only') else None
    pt = SimpleProcessTensor(2, dt=dt, transform_in=tin, transform_out=tout, name='nm', description='ds')
    pt.set_mpo_tensor(0, rng.normal(size=(1, 3, 4)))          # rank 3
    pt.set_mpo_tensor(1, rng.normal(size=(3, 2, 4, 4)))       # rank 4
    pt.set_mpo_tensor(2, rng.normal(size=(2, 1, 4)))
    pt.compute_caps()
    if initial:
        pt.set_initial_tensor(rng.normal(size=(4, 3)))
    return pt


def _same(a, b):
    if a is None or b is None:
        return a is None and b is None
    a, b = np.array(a), np.array(b)
    return a.shape == b.shape and np.allclose(a, b)


def roundtrip(inp):
    from oqupy.process_tensor import import_process_tensor
    bad = []
    d = tempfile.mkdtemp(prefix='c16_')
    try:
        k = 0
        for dt in (0.1, None):
            for transforms in (False, True, 'in-only', 'out-only'):
                for initial in (False, True):
                    pt = _build(dt, transforms, initial)
                    fn = os.path.join(d, 'pt%d.h5' % k)
                    k += 1
                    try:
                        pt.export(fn)
                        for kind in ('file', 'simple'):
                            q = import_process_tensor(fn, kind)
                            what = []
                            if len(q) != len(pt):
                                what.append('length')
                            if q.dt != pt.dt or q.hilbert_space_dimension != 2 or q.name != 'nm' or q.description != 'ds':
                                what.append('metadata')
                            if not _same(q.transform_in, pt.transform_in) or not _same(q.transform_out, pt.transform_out):
                                what.append('transforms')
                            if not _same(q.get_initial_tensor(), pt.get_initial_tensor()):
                                what.append('initial tensor: %r vs %r' % (q.get_initial_tensor() if q.get_initial_tensor() is None else 'array', 'None' if pt.get_initial_tensor() is None else 'array'))
                            for s in range(len(pt)):
                                if not _same(q.get_mpo_tensor(s), pt.get_mpo_tensor(s)):
                                    what.append('mpo %d' % s)
                            for s in range(len(pt) + 1):
                                if not _same(q.get_cap_tensor(s), pt.get_cap_tensor(s)):
                                    what.append('cap %d' % s)
                            if q.get_cap_tensor(len(pt) + 1) is not None:
                                what.append('extra cap')
                            if kind == 'file':
                                q.close()
                            if what:
                                bad.append({'dt': dt, 'transforms': transforms, 'initial': initial, 'import_type': kind, 'differs': what[:4]})
                    except Exception as e:      # noqa
                        bad.append({'dt': dt, 'transforms': transforms, 'initial': initial, 'unexpected exception': type(e).__name__ + ': ' + str(e)[:100]})
    finally:
        for f in os.listdir(d):
            os.remove(os.path.join(d, f))
        os.rmdir(d)
    return {'violates': bool(bad), 'detail': bad[:4]}


def rename_then_import(inp):
    """name / description assigned AFTER a file-backed process tensor was created must come back from an import"""
    import oqupy
    from oqupy.process_tensor import FileProcessTensor, import_process_tensor
    bad = []
    d = tempfile.mkdtemp(prefix='c16_')
    try:
        for k, (nm, ds) in enumerate((('second name', None), (None, 'second description'), ('second name', 'second description'))):
            fn = os.path.join(d, 'pt%d.hdf5' % k)
            pt = FileProcessTensor(mode='write', filename=fn, hilbert_space_dimension=2, dt=0.1, name='first name', description='first description')
            pt.set_mpo_tensor(0, np.ones((1, 1, 4, 4)))
            pt.set_cap_tensor(0, np.array([1.0]))
            pt.set_cap_tensor(1, np.array([1.0]))
            if nm is not None:
                pt.name = nm
            if ds is not None:
                pt.description = ds
            want = (pt.name, pt.description)
            pt.close()
            for kind in ('file', 'simple'):
                q = import_process_tensor(fn, kind)
                got = (q.name, q.description)
                if kind == 'file':
                    q.close()
                if got != want:
                    bad.append({'assigned': {'name': nm, 'description': ds}, 'import': kind, 'read back': got, 'required': want})
    finally:
        shutil.rmtree(d, ignore_errors=True)
    return {'violates': bool(bad), 'detail': bad[:4]}


# thorough tier (bounded native sweeps): (function, inputs, obligation of the open finding it reproduces or None)
THOROUGH = [('roundtrip', {}, None), ('rename_then_import', {}, None)]
