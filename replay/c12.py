"""Replays for C12 on the real code: 2-D integrals of a correlations object against direct
numerical integration of its own correlation function."""
import numpy as np
from scipy import integrate


def _direct(corr, shape, delta, t1, t2=None):
    if t2 is None:
        t2 = t1 + delta
    hi = {'square': lambda x: delta, 'rectangle': lambda x: delta, 'upper-triangle': lambda x: x - t1}[shape]
    re = integrate.dblquad(lambda y, x: np.real(corr.correlation(x - y)), t1, t2, lambda x: 0.0, hi, epsrel=1e-8)[0]
    im = integrate.dblquad(lambda y, x: np.imag(corr.correlation(x - y)), t1, t2, lambda x: 0.0, hi, epsrel=1e-8)[0]
    return re + 1j * im


def cells_vs_quadrature(inp):
    import oqupy
    which = inp.get('obligation', '')
    bad, checked = [], 0
    objs = [oqupy.PowerLawSD(alpha=0.3, zeta=1.0, cutoff=2.0, cutoff_type='exponential', temperature=0.0),
            oqupy.PowerLawSD(alpha=0.2, zeta=3.0, cutoff=1.5, cutoff_type='gaussian', temperature=0.7),
            # hard cutoff with a temperature far below the cutoff frequency (cutoff / T = 80)
            oqupy.PowerLawSD(alpha=0.25, zeta=1.0, cutoff=4.0, cutoff_type='hard', temperature=0.05),
            # a bath given by its autocorrelation function (two damped modes; C(-t) = conj C(t), Im C != 0)
            oqupy.CustomCorrelations(lambda t: 0.4 * np.exp(-0.3 * abs(t) - 1.1j * t) + 0.15 * np.exp(-0.8 * abs(t) - 2.3j * t))]
    if 'time_1 != 0' in which:
        cases = [('upper-triangle', 0.1, 0.3, None)]
    else:
        cases = [('upper-triangle', 0.1, 0.0, None), ('square', 0.1, 0.3, None), ('rectangle', 0.1, 0.3, 0.55), ('square', 0.2, 0.2, None),
                 # cells off the TEMPO grid that straddle the diagonal (tau = x - y changes sign inside the cell)
                 ('square', 0.1, 0.04, None), ('rectangle', 0.1, 0.02, 0.07), ('rectangle', 0.2, 0.05, 0.3)]
    # cheap clauses first (a broken correlation function can make the direct quadrature very slow)
    for c in objs:
        if abs(c.correlation(-0.4) - np.conj(c.correlation(0.4))) > 1e-8:
            bad.append({'conj symmetry': 'C(-tau) != conj C(tau)', 'C(-0.4)': str(c.correlation(-0.4)), 'C(0.4)': str(c.correlation(0.4))})
        n, d = 4, 0.1
        total = n * c.correlation_2d_integral(d, 0.0, shape='upper-triangle') + sum(
            (n - k) * c.correlation_2d_integral(d, k * d, shape='square') for k in range(1, n))
        whole = c.correlation_2d_integral(n * d, 0.0, shape='upper-triangle')
        if abs(total - whole) > 1e-7:
            bad.append({'tiling': str(total), 'whole triangle': str(whole)})
        if c.correlation_2d_integral(d, 0.0, shape='upper-triangle').real <= 0:
            bad.append({'triangle real part': 'not positive'})
    if bad:
        return {'violates': True, 'checked': checked, 'detail': bad[:3]}
    for c in objs:
        for shape, d, t1, t2 in cases:
            kw = {'time_2': t2} if t2 is not None else {}
            got = c.correlation_2d_integral(d, t1, shape=shape, epsrel=1e-9, **kw)
            want = _direct(c, shape, d, t1, t2)
            checked += 1
            if abs(got - want) > 1e-6 * max(1.0, abs(want)):
                bad.append({'shape': shape, 'delta': d, 'time_1': t1, 'time_2': t2, 'temperature': getattr(c, 'temperature', None),
                            'observed': str(complex(got)), 'required (direct integration of its own C)': str(complex(want))})
    return {'violates': bool(bad), 'checked': checked, 'detail': bad[:3]}


# thorough tier (bounded native sweeps): (function, inputs, obligation of the open finding it reproduces or None)
THOROUGH = [('cells_vs_quadrature', {}, None), ('cells_vs_quadrature', {'obligation': 'cell/triangle[time_1 != 0]'}, 'cell/triangle[time_1 != 0]')]
