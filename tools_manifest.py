#!/usr/bin/env python3
"""Regenerate MANIFEST.json from the contract modules (CLAIMS table below)."""
import json, os
HERE = os.path.dirname(os.path.abspath(__file__))
props = [json.loads(l) for l in open(os.path.join(HERE, 'properties.jsonl'))]
claims = json.load(open(os.path.join(HERE, 'claims.json')))
BASE = "cd /repo && /venv/bin/python -m pytest -ra -q -p no:cacheprovider --timeout=900 --continue-on-collection-errors"
m = {"version": 1, "setup_cmd": "cd /verif && ./setup.sh",
     "hooks": {"guard": "OQUPY_VERIF", "enable": "no hooks: contracts are sidecar files under /verif/contracts, /repo is parsed (ast) on every run and never annotated",
               "baseline_off_cmd": BASE, "source_commits": [], "add_only": True},
     "engines": [
        {"name": "pyvc", "path": "pyvc/", "serves_properties": sorted(claims['claimed'].keys()),
         "kind_free_text": "self-built deductive verifier for a Python subset: AST of /repo -> path-wise symbolic execution with loop invariants and modular callee contracts -> verification conditions discharged by z3 (cvc5 for unknowns)"},
        {"name": "tnnorm", "path": "pyvc/tnnorm.py", "serves_properties": [p for p in ("C03", "C05", "C08", "C10", "C14", "C16") if p in claims['claimed']],
         "kind_free_text": "second back end: decides equality of tensor-network (multilinear) expressions built by the real code against einsum specifications, for free tensor symbols of all sizes (normal form + matching; reshape legs for split/flatten/kron)"},
        {"name": "npalias", "path": "pyvc/npalias.py", "serves_properties": [p for p in ("C20",) if p in claims['claimed']],
         "kind_free_text": "ownership / aliasing domain for numpy arrays (buffer identity, object identity, memory layout, WRITEABLE flag) interpreted by pyvc; frame, freshness and layout obligations are predicates over its event log"},
        {"name": "cas", "path": "pyvc/cas.py", "serves_properties": [p for p in ("C12",) if p in claims['claimed']],
         "kind_free_text": "sympy back end for the kernel identities of the spectral-density integrands extracted from the real closures"},
        {"name": "rg", "path": "pyvc/rg.py", "serves_properties": [p for p in ("C19",) if p in claims['claimed']],
         "kind_free_text": "thread-modular (Owicki-Gries / monitor) obligations for util.ProgressBar at statement granularity, discharged by z3"},
        {"name": "replay", "path": "replay/", "serves_properties": sorted(claims['claimed'].keys()),
         "kind_free_text": "turns solver counter-models into concrete inputs and runs the real code under /venv/bin/python; the same functions on their built-in finite input sets are the BOUNDED native sweeps of the thorough tier (and the bounded stand-in of the quick tier when a target is undecided); never counted as proved"}],
     "checks": [], "not_applicable": [], "notes": claims.get('notes', '')}
for p in props:
    pid = p['id']
    c = claims['claimed'].get(pid)
    if c is None:
        m['not_applicable'].append({"property_id": pid, "reason": claims['not_applicable'].get(pid, 'check not built yet (framework under construction); see DESIGN.md section 4')})
        continue
    m['checks'].append({
        "property_id": pid,
        "quick_cmd": "./check %s --tier quick" % pid,
        "thorough_cmd": "./check %s --tier thorough" % pid,
        "evidence_file": "/verif/evidence/%s.json" % pid,
        "replay_cmd_template": "./check %s --replay {path}" % pid,
        "engine": c.get('engine', 'pyvc'),
        "level_claimed": {"category": c.get('category', 'proof'), "text": c['text'], "design_ref": "DESIGN.md section 4, " + pid},
        "level_note": c['note'],
        "technique": c.get('technique', 'contract-based deductive verification: sidecar contracts on the real functions, VCs generated from the AST of /repo on every run, discharged by z3/cvc5')})
json.dump(m, open(os.path.join(HERE, 'MANIFEST.json'), 'w'), indent=1)
print('checks:', [c['property_id'] for c in m['checks']])
