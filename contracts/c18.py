"""C18 — control operations act at the stated time, side of measurement and order.

Comp([o_1..o_k]) = o_k @ ... @ o_1  ("applied in insertion order", since a superoperator is
applied as sup @ vec).  `@` is an uninterpreted, NON-commutative function; the only law used
is the unit law for np.identity (syntactic).
"""
import z3
from .common import *
from . import dyn

PROP = 'C18'
IntS, RealS, BoolS = z3.IntSort(), z3.RealSort(), z3.BoolSort()
MatMul = z3.Function('matmul', V, V, V)


def is_identity(x):
    return is_z3(x) and x.num_args() >= 1 and x.decl().name().startswith('lib_numpy_identity')


def matmul_hook(ip, a, b):
    """unit law, applied syntactically"""
    if is_identity(b):
        return a
    if is_identity(a):
        return b
    r = MatMul(a, b)
    ip.add_pc(r != NONE)          # a matrix product is an array, never None
    return r


def sym_map_v(name, keysort):
    has = z3.Function(name + '_has', keysort, BoolS)
    get = z3.Function(name + '_get', keysort, V)
    return SymMap(lambda k: has(to_z3(k)), lambda k: get(to_z3(k))), has, get


def control_obj(ip, repo, n_time_pre=0, n_time_post=0):
    """a Control object in an arbitrary reachable state: any set of step controls; a
    case-split number (0..2 per side) of float-time controls."""
    spre, hpre, gpre = sym_map_v('stepctl_pre', IntS)
    spost, hpost, gpost = sym_map_v('stepctl_post', IntS)
    tvals = {}
    tctl = {}
    ctimes = {}
    for side, n in (('pre', n_time_pre), ('post', n_time_post)):
        ts = [Real('tc_%s_%d' % (side, i)) for i in range(n)]
        for a, b in zip(ts, ts[1:]):
            ip.assume(a < b, 'representation invariant: control times sorted and distinct')
        ops = [Vc('tcop_%s_%d' % (side, i)) for i in range(n)]
        for o in ops:
            ip.assume(o != NONE)
        tvals[side] = (ts, ops)
        m = SymMap()
        for t, o in zip(ts, ops):
            m.set(t, o)
        tctl[side] = m
        ctimes[side] = Seq.from_list(ts, 'ndarray') if ts else Seq(0, lambda i: z3.RealVal(0), 'ndarray')
    dim = Int('dimension')
    # built by the real constructor, then put into an arbitrary reachable state of its tables
    o = mkobj_init(ip, repo, 'control.Control', [dim], _step_controls={'pre': spre, 'post': spost},
                   _time_controls=tctl, _control_times=ctimes)
    return o, {'pre': (hpre, gpre), 'post': (hpost, gpost)}, tvals


# ---- K1: add_single (int key)
def scen_add_int(ip, repo):
    o, maps, _ = control_obj(ip, repo)
    time, op, post = Int('time'), Vc('op'), Bool('post')
    ip.assume(op != NONE)
    for side in ('pre', 'post'):
        h, g = maps[side]
        k = Int('anykey')
    return {'args': [o, time, op, post], 'o': o, 'maps': maps, 'time': time, 'op': op, 'post': post,
            'inputs': {'time': time, 'post': post}}


def post_add_int(ip, ctx, out):
    if not expect_no_other_exception(ip, out):
        return
    o, maps, time, op, post = ctx['o'], ctx['maps'], ctx['time'], ctx['op'], ctx['post']
    key = fresh_int('key')
    for side in ('pre', 'post'):
        h, g = maps[side]
        new = o.fields['_step_controls'][side]
        hit = z3.And(key == time, post == (side == 'post'))
        # composed: the new operation acts AFTER what was stored (new @ existing)
        want = z3.If(h(time), MatMul(op, g(time)), op)
        ip.prove('ctrl/add-composes[%s]' % side, z3.Implies(hit, z3.And(new.has(key), new.get(key) == want)))
        ip.prove('ctrl/add-frame[%s]' % side, z3.Implies(z3.Not(hit),
                 z3.And(new.has(key) == h(key), z3.Implies(h(key), new.get(key) == g(key)))))


def scen_add_bad(ip, repo):
    o, maps, _ = control_obj(ip, repo)
    return {'args': [o, 'noon', Vc('op'), False], 'inputs': {}}


def post_add_bad(ip, ctx, out):
    ip.prove('ctrl/type-error', z3.BoolVal(out.raised('TypeError')))


# ---- K2: get_controls
def scen_get(npre, npost):
    def scen(ip, repo):
        o, maps, tvals = control_obj(ip, repo, npre, npost)
        step = Int('step')
        dt, t0 = Real('dt'), Real('start_time')
        ip.assume(dt > 0)
        for side in ('pre', 'post'):
            h, g = maps[side]
            ip.assume(z3.Implies(h(step), g(step) != NONE), 'stored operations are arrays, not None')
        return {'args': [o, step], 'kwargs': {'dt': dt, 'start_time': t0}, 'maps': maps, 'tvals': tvals,
                'step': step, 'dt': dt, 't0': t0, 'dim': o.fields['_dimension'],
                'inputs': {'step': step, 'dt': dt, 'start_time': t0,
                           'times_pre': tvals['pre'][0], 'times_post': tvals['post'][0]}}
    return scen


def _spec_side(ctx, side):
    """(is_none Bool, value) of the documented composition for one side"""
    h, g = ctx['maps'][side]
    ts, ops = ctx['tvals'][side]
    step, dt, t0 = ctx['step'], ctx['dt'], ctx['t0']
    hits = [round_half_even((t - t0) / dt) == step for t in ts]
    # float-time controls landing on this step, composed in ascending time order
    acc = None            # python None or z3 V ; build as nested If over which ones hit
    val = z3.Const('UNUSED', V)
    anyhit = z3.BoolVal(False)
    comp = None
    # comp_k = composition of the hitting ones among the first k (ascending)
    comp_expr = None
    have = z3.BoolVal(False)
    for hit, op in zip(hits, ops):
        if comp_expr is None:
            new_expr = op
        else:
            new_expr = z3.If(have, MatMul(op, comp_expr), op)
        comp_expr = new_expr if comp_expr is None else z3.If(hit, new_expr, comp_expr)
        have = z3.Or(have, hit)
    return hits, have, comp_expr


def post_get(ip, ctx, out):
    if not expect_no_other_exception(ip, out):
        return
    pre, post = out.value
    step = ctx['step']
    for side, got in (('pre', pre), ('post', post)):
        h, g = ctx['maps'][side]
        hits, have_t, comp_t = _spec_side(ctx, side)
        none_expected = z3.And(z3.Not(h(step)), z3.Not(have_t))
        got_z = NONE if got is None else got
        ip.prove('ctrl/get-none-iff-nothing[%s]' % side, (got_z == NONE) == none_expected)
        if comp_t is None:
            want = g(step)
        elif side == 'pre':
            # pre: float-time controls first, then the step control
            want = z3.If(h(step), z3.If(have_t, MatMul(g(step), comp_t), g(step)), comp_t)
        else:
            # post: the step control first, then float-time controls
            # (relative order of the two kinds is not part of the property; stated as the code documents)
            want = None
        if want is not None:
            ip.prove('ctrl/get[%s]' % side, z3.Implies(z3.Not(none_expected), got_z == want))
        else:
            # post side: step control first, then the time controls in ascending order
            ts, ops = ctx['tvals'][side]
            acc = g(step)
            have = h(step)
            for hit, op in zip(hits, ops):
                acc = z3.If(hit, z3.If(have, MatMul(op, acc), op), acc)
                have = z3.Or(have, hit)
            ip.prove('ctrl/get[%s]' % side, z3.Implies(z3.Not(none_expected), got_z == acc))
        # "several controls added for the same step act in the order in which they were added", also when one was given by step number and
        # the other by float time: the object does not record that order (ghost: which of the two was added first); with ONE float-time
        # control landing on the step the required composition is  later @ earlier
        ts_, ops_ = ctx['tvals'][side]
        if len(ops_) == 1:
            float_first = z3.Bool('ghost_float_time_control_was_added_first_' + side)
            both = z3.And(h(step), hits[0])
            req = z3.If(float_first, MatMul(g(step), ops_[0]), MatMul(ops_[0], g(step)))
            ip.prove('ctrl/order-of-addition[step-and-float-time-at-one-step]', z3.Implies(both, got_z == req),
                     {'side': side, 'the code composes': 'float-time first (pre) / step first (post), whatever the order of the add_single calls'})


# ---- history: a look-up on one time grid must not influence a later look-up on another grid
def invoke_get_twice(ip, repo, fref, ctx):
    o = ctx['args'][0]
    step1, dt1, t1 = Int('earlier_step'), Real('earlier_dt'), Real('earlier_start_time')
    ip.add_pc(dt1 > 0)
    try:
        ip.call(fref, [o, step1], {'dt': dt1, 'start_time': t1})
    except PyRaise:
        pass
    ip.log[:] = [e for e in ip.log if e[0] != 'print']
    return ip.call(fref, ctx['args'], ctx['kwargs'])


def invoke_add_then_get(ip, repo, fref, ctx):
    """get, then add a step control, then get again: the newly added control must be seen"""
    o = ctx['args'][0]
    step = ctx['step']
    ip.call(fref, ctx['args'], ctx['kwargs'])
    new_op = Vc('added_later')
    ip.add_pc(new_op != NONE)
    ip.call(ip.getattr(o, 'add_single'), [step, new_op], {})
    # account for it in the ghost tables the specification reads
    h, g = ctx['maps']['pre']
    ctx['added_later'] = new_op
    return ip.call(fref, ctx['args'], ctx['kwargs'])


def post_get_after_add(ip, ctx, out):
    if not expect_no_other_exception(ip, out):
        return
    pre, post = out.value
    h, g = ctx['maps']['pre']
    step = ctx['step']
    new = ctx['added_later']
    hits, have_t, comp_t = _spec_side(ctx, 'pre')
    stored = z3.If(h(step), MatMul(new, g(step)), new)
    want = stored if comp_t is None else z3.If(have_t, MatMul(stored, comp_t), stored)
    got = NONE if pre is None else pre
    ip.prove('ctrl/get-sees-later-additions', got == want)


# ---- K3: chain controls
CompF = z3.Function('CompUpTo', IntS, IntS, V)      # (k entries processed, site) -> composed op / NONE
AnyF = z3.Function('AnyUpTo', IntS, BoolS)
E_contr = z3.Function('entry_contr', IntS, V)
E_site = z3.Function('entry_site', IntS, IntS)
E_step = z3.Function('entry_step', IntS, IntS)


def chain_registry():
    R = Registry()
    R.matmul = matmul_hook

    def template(ip, frame, k):
        g = ip.ghost['chain']
        step, L = g['step'], g['L']
        s = fresh_int('site')
        # definitional axioms of the ghost composition at k (insertion order: later acts later)
        def defs(site):
            hit = z3.And(E_step(k) == step, E_site(k) == site)
            return CompF(k + 1, site) == z3.If(hit, z3.If(CompF(k, site) == NONE, E_contr(k),
                                                          MatMul(E_contr(k), CompF(k, site))), CompF(k, site))
        ip.ghost['chain']['defs'] = defs
        ip.ghost['chain']['k'] = k
        ip.assume(AnyF(k + 1) == z3.Or(AnyF(k), E_step(k) == step), 'definition of AnyUpTo')
        ip.assume(z3.Not(AnyF(0)), 'definition of AnyUpTo(0)')
        interp = ip

        def fn(site):
            interp.add_pc(defs(site))               # instance of the definition at the read index
            interp.add_pc(CompF(0, site) == NONE)
            return CompF(k, site)
        return {'controls': Seq(L, fn, 'list'), 'empty': z3.Not(AnyF(k))}
    R.invariants[('control.ChainControl.get_single_site_controls', 0)] = LoopInv(template, 'chain-loop')
    return R


def scen_chain(post_flag):
    def scen(ip, repo):
        L, n, step = Int('L'), Int('n_entries'), Int('step')
        ip.assume(z3.And(L >= 1, n >= 0))
        entries = Seq(n, lambda i: {'contr': E_contr(i), 'site': E_site(i), 'step': E_step(i), 'name': None}, 'list')
        j = Int('j')
        ip.assume(z3.ForAll([j], z3.Implies(z3.And(j >= 0, j < n), z3.And(E_site(j) >= 0, E_site(j) < L, E_contr(j) != NONE))),
                  'representation invariant of ChainControl: 0 <= site < len, stored arrays not None (add_single_site_control asserts site < len; negative sites index from the end and are not modelled)')
        hs = Seq(L, lambda i: z3.IntVal(2), 'ndarray')
        o = mkobj(repo, 'control.ChainControl', _hs_dims=hs,
                  _single_site_controls_pre=entries if not post_flag else Seq(0, lambda i: {}, 'list'),
                  _single_site_controls_post=entries if post_flag else Seq(0, lambda i: {}, 'list'))
        ip.ghost['chain'] = {'step': step, 'L': L, 'n': n}
        return {'args': [o, step, post_flag], 'L': L, 'n': n, 'step': step, 'inputs': {'L': L, 'n': n, 'step': step}}
    return scen


def post_chain(ip, ctx, out):
    if not expect_no_other_exception(ip, out):
        return
    n, L, step = ctx['n'], ctx['L'], ctx['step']
    g = ip.ghost['chain']
    if out.value is None:
        ip.prove('chain/none-iff-nothing', z3.Not(AnyF(n)))
        return
    ip.prove('chain/none-iff-nothing', AnyF(n))
    s = fresh_int('s')
    got = out.value.fn(s)
    got = NONE if got is None else got
    ip.prove('chain/get', z3.Implies(z3.And(s >= 0, s < L), got == CompF(n, s)))


# ---- K4: compute_dynamics schedule (pre before the record, post after, once per step)
def post_cd_schedule(ip, ctx, out):
    g = ctx['g']
    N, ra = g['num_steps'], g['record_all']
    if not out.returned:
        return ip.prove('path-accounted', z3.BoolVal(True))
    from pyvc.lib import as_seq
    states = as_seq(out.value.fields['states'])
    j = fresh_int('j')
    ip.prove('dyn/record', z3.Implies(z3.And(ra, j >= 0, j <= N), states.fn(j) == dyn.recorded(j, dyn.Xf(j))))
    ip.prove('dyn/record-final-only', z3.Implies(z3.Not(ra), states.fn(0) == dyn.recorded(N, dyn.Xf(N))))
    fetched = [e[1] for e in ip.log if e[0] == 'get_controls']
    ip.prove('dyn/controls-fetched-once-per-iteration', z3.BoolVal(len(fetched) <= 2))


def replay_ctrl(ob):
    if 'order-of-addition' in ob['name']:
        return {'func': 'mixed_specification_order', 'inputs': {}}
    return {'func': 'control_order', 'inputs': {'obligation': ob['name'], 'model': ob.get('model')}}


def replay_chain(ob):
    return {'func': 'chain_order', 'inputs': {'obligation': ob['name'], 'model': ob.get('model')}}


def targets(tier='quick'):
    R = Registry()
    R.matmul = matmul_hook

    # a conversion / copy of a control superoperator to the library's complex dtype keeps its VALUE (whether the stored array is the
    # caller's object or a copy is C20's business: arr/store[Control.add_single...]); assumed for np.array / asarray / copy
    @model
    def m_same_value(ip, args, kw):
        return args[0]
    for nm in ('array', 'asarray', 'copy', 'ascontiguousarray'):
        R.lib_models['numpy.' + nm] = m_same_value
    T = []
    T.append(Target('ctrl/add[int]', 'control.Control.add_single', scen_add_int, post_add_int, R, PROP, replay=replay_ctrl))
    T.append(Target('ctrl/add[badtype]', 'control.Control.add_single', scen_add_bad, post_add_bad, R, PROP))
    for npre, npost in ((0, 0), (1, 0), (2, 0), (0, 1), (0, 2), (1, 1), (2, 2)):
        T.append(Target('ctrl/get[%d,%d]' % (npre, npost), 'control.Control.get_controls', scen_get(npre, npost),
                        post_get, R, PROP, replay=replay_ctrl, max_paths=3000))
    for npre, npost in ((1, 0), (0, 1)):
        T.append(Target('ctrl/get-after-earlier-lookup[%d,%d]' % (npre, npost), 'control.Control.get_controls', scen_get(npre, npost),
                        post_get, R, PROP, invoke=invoke_get_twice, replay=replay_ctrl, max_paths=6000))
    for npre in (0, 1):
        T.append(Target('ctrl/get-add-get[%d]' % npre, 'control.Control.get_controls', scen_get(npre, 0),
                        post_get_after_add, R, PROP, invoke=invoke_add_then_get, replay=replay_ctrl, max_paths=6000))
    RC = chain_registry()
    for pf in (False, True):
        T.append(Target('chain/get[post=%s]' % pf, 'control.ChainControl.get_single_site_controls', scen_chain(pf),
                        post_chain, RC, PROP, replay=replay_chain))
    RD = dyn.cd_registry()
    for ne in (0, 1):
        T.append(Target('dyn/schedule[envs=%d]' % ne, 'system_dynamics.compute_dynamics',
                        lambda ip, repo, ne=ne: dyn.cd_scenario(ip, repo, num_envs=ne), post_cd_schedule, RD, PROP,
                        replay=lambda ob: {'func': 'float_time_controls' if 'get_controls' in ob['name'] else 'dynamics_with_controls', 'inputs': {'obligation': ob['name']}}))
    # PT-TEBD: where the chain controls sit inside a step (half chain propagator, process tensors, half chain propagator,
    # pre controls, record, post controls): the state-machine contract of C14, discharged here as well
    from . import c14
    RTB = c14.tebd_registry()
    for fresh in (True, False):
        t = Target('tebd/step-structure[%s]' % ('fresh' if fresh else 'continue'), 'pt_tebd.PtTebd.compute', c14.scen_tebd(fresh), c14.post_tebd, RTB, PROP,
                   replay=lambda ob: {'func': 'tebd_controls', 'inputs': {'obligation': ob['name']}})
        T.append(t)
    return T


META = {'level': 'proof', 'explanation': '', 'trusted_base': [], 'clauses': []}
