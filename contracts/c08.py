"""C08 — the adjoint gradient equals the derivative of the objective (wiring and bookkeeping)."""
import z3
from .common import *
from . import wire, grad, dyn

PROP = 'C08'


def post_grad(ip, ctx, out):
    """reported dynamics = forward recurrence of the property; list alignment of the adjoint tensors"""
    g = ctx['g']
    N, ra = g['num_steps'], g['record_all']
    if not out.returned:
        return ip.prove('path-accounted', z3.BoolVal(True))
    from pyvc.lib import as_seq
    derivs, dynamics = out.value
    derivs = as_seq(derivs)
    states, times = as_seq(dynamics.fields['states']), as_seq(dynamics.fields['times'])
    j = fresh_int('j')
    ip.prove('grad/forward-equals-dynamics', z3.And(
        states.length == z3.If(ra, N + 1, 1),
        z3.Implies(z3.And(ra, j >= 0, j <= N), states.fn(j) == dyn.recorded(j, dyn.Xf(j))),
        z3.Implies(z3.Not(ra), states.fn(0) == dyn.recorded(N, dyn.Xf(N)))))
    ip.prove('grad/times', z3.And(z3.Implies(z3.And(ra, j >= 0, j <= N), times.fn(j) == g['start_time'] + z3.ToReal(j) * g['dt']),
                                  z3.Implies(z3.Not(ra), times.fn(0) == g['start_time'] + z3.ToReal(N) * g['dt'])))
    n = fresh_int('n')
    # entry n belongs to step n (after the final reversal); the last one is still a Node copy
    want = z3.If(n == N - 1, grad.Repl(grad.dv(n)), grad.GetTensor(grad.dv(n)))
    ip.prove('grad/list-alignment', z3.And(derivs.length == N, z3.Implies(z3.And(n >= 0, n < N), derivs.fn(n) == want)))


def targets(tier='quick'):
    T = []
    for E in (1, 2, 3):
        T.append(wire.WireTarget('bp/swap[envs=%d]' % E, 'system_dynamics._get_pt_mpos_backprop', wire.build_backprop(E), wire.check_backprop, PROP))
    for E in (1, 2, 3):
        T.append(wire.BackwardStepTarget(E, PROP))
    T.append(wire.CombineTarget(PROP))
    RG = grad.grad_registry()
    for ne in (0, 1, 2):
        T.append(Target('grad/bookkeeping[envs=%d]' % ne, 'gradient.compute_gradient_and_dynamics', grad.grad_scenario(ne), post_grad, RG, PROP,
                        max_paths=6000, replay=lambda ob: {'func': 'gradient_with_caps' if 'caps' in ob['name'] else 'gradient_vs_finite_difference',
                                                           'inputs': {'obligation': ob['name']}}))
    return T


META = {'level': 'proof', 'explanation': '', 'trusted_base': [], 'clauses': []}


# ---- parameter rows <-> half steps (param/rows), chain-rule indexing (chain/indexing)
IntS, RealS = z3.IntSort(), z3.RealSort()
Par = z3.Function('Par', IntS, IntS, RealS)


def scen_props(M, which):
    def scen(ip, repo):
        N, step, dt = Int('N'), Int('step'), Real('dt')
        ip.assume(z3.And(N >= 1, step >= 0, step < N))
        params = Seq(2 * N, lambda r: [Par(r, c) for c in range(M)], 'ndarray')
        H = user_callable('H_of_params', raises=False)
        pd_user = user_callable('user_prop_derivs', raises=False) if which == 'derivs-user' else None
        ip.ghost['M'] = M
        o = mkobj_init(ip, repo, 'system.ParameterizedSystem', args=[H], kwargs={'propagator_derivatives': pd_user},
                       _hamiltonian=H, _gammas=[], _lindblad_operators=[], _propagator_derivatives=pd_user, _number_of_parameters=M,
                       _dimension=Int('dim'))
        return {'o': o, 'params': params, 'step': step, 'dt': dt, 'M': M, 'which': which, 'inputs': {'step': step, 'N': N}}
    return scen


def props_registry():
    R = Registry()

    @model
    def m_liou(ip, args, kw):
        return uf('Liouvillian', args[0])

    @model
    def m_halfstep(ip, args, kw):
        dt = args[1]

        @model
        def pd(ip2, a2, k2):
            return uf('numeric_prop_derivs', dt, *a2[0])
        return pd
    R.models['system._liouvillian'] = m_liou
    R.models['system.ParameterizedSystem.halfstep_propagator_derivative'] = m_halfstep

    # helpers of the constructor (argument inspection, trial evaluation of the Hamiltonian)
    @model
    def m_argspec(ip, args, kw):
        return Obj('ArgSpec', {'args': ['p%d' % i for i in range(ip.ghost['M'])]})

    @model
    def m_ident(ip, args, kw):
        return args[0]

    @model
    def m_noop(ip, args, kw):
        return None

    @model
    def m_check_gl(ip, args, kw):
        return [], []
    # element-wise comparisons of parameter rows (lists of reals), so that a body that takes a short cut when two half steps have
    # "the same" parameters is decided instead of being outside the subset
    def _row(v):
        if isinstance(v, Seq):
            raise Unsupported('comparison of whole parameter arrays')
        return [to_real(x) for x in v]

    @model
    def m_equal(ip, args, kw):
        a, b = _row(args[0]), _row(args[1])
        if len(a) != len(b):
            raise Unsupported('broadcast comparison')
        return Obj('BoolRow', {'items': [x == y for x, y in zip(a, b)]})

    @model
    def m_row_any(ip, args, kw):
        return z3.Or(args[0].fields['items']) if args[0].fields['items'] else z3.BoolVal(False)

    @model
    def m_row_all(ip, args, kw):
        return z3.And(args[0].fields['items']) if args[0].fields['items'] else z3.BoolVal(True)

    @model
    def m_array_equal(ip, args, kw):
        a, b = _row(args[0]), _row(args[1])
        return z3.And([x == y for x, y in zip(a, b)]) if len(a) == len(b) else z3.BoolVal(False)
    R.lib_models['numpy.equal'] = m_equal
    R.lib_models['numpy.array_equal'] = m_array_equal
    R.models['BoolRow.any'] = m_row_any
    R.models['BoolRow.all'] = m_row_all
    R.lib_models['numpy.any'] = m_row_any
    R.lib_models['numpy.all'] = m_row_all
    R.lib_models['inspect.getfullargspec'] = m_argspec
    R.lib_models['numpy.vectorize'] = m_ident
    R.models['system._check_hamiltonian'] = m_noop
    R.models['system._check_parameterized_gammas_lindblad_operators'] = m_check_gl
    return R


def invoke_props(ip, repo, fref, ctx):
    f = ip.call(fref, [ctx['o'], ctx['dt'], ctx['params']], {})
    return ip.call(f, [ctx['step']], {})


def post_props(ip, ctx, out):
    if not expect_no_other_exception(ip, out):
        return
    a, b = out.value
    step, dt, M = ctx['step'], ctx['dt'], ctx['M']
    row = lambda r: [Par(r, c) for c in range(M)]
    if ctx['which'] == 'props':
        def P(r):
            return uf('lib_scipy_linalg_expm', uf('div', uf('mul', uf('Liouvillian', uf('H_of_params', *row(r))), dt), z3.RealVal(2)))
        ip.prove('param/rows[propagators]', z3.And(a == P(2 * step), b == P(2 * step + 1)))
    elif ctx['which'] == 'derivs-user':
        ip.prove('param/rows[user derivatives]', z3.And(a == uf('user_prop_derivs', dt, row(2 * step)), b == uf('user_prop_derivs', dt, row(2 * step + 1))))
    else:
        ip.prove('param/rows[numerical derivatives]', z3.And(a == uf('numeric_prop_derivs', dt, *row(2 * step)), b == uf('numeric_prop_derivs', dt, *row(2 * step + 1))))


# chain rule indexing
Adj = z3.Function('adjoint_tensor', IntS, V)
P1c, P2c = z3.Function('P1c', IntS, V), z3.Function('P2c', IntS, V)
dP1 = z3.Function('dP1', IntS, IntS, V)
dP2 = z3.Function('dP2', IntS, IntS, V)
Tr = z3.Function('attr_T', V, V)
Comb = z3.Function('combine_derivs', V, V, V, V)


class G2:
    def __init__(self, fn):
        self.fn = fn


def chain_registry(M):
    R = Registry()
    from . import dyn
    dyn.make_progress_models(R)

    @model
    def m_zeros(ip, args, kw):
        return Obj('G2Obj', {'grid': G2(lambda i, j: uf('zero'))})

    @model
    def g_getrow(ip, args, kw):
        return Obj('G2Row', {'g': args[0], 'row': to_int(args[1])})

    @model
    def r_set(ip, args, kw):
        rowobj, col, val = args
        g = rowobj.fields['g'].fields['grid']
        old, r, c = g.fn, rowobj.fields['row'], to_int(col)
        g.fn = lambda i, j: z3.If(z3.And(i == r, j == c), val, old(i, j))

    @model
    def m_combine(ip, args, kw):
        return Comb(*args)
    R.lib_models['numpy.zeros'] = m_zeros
    R.models['G2Obj.__getitem__'] = g_getrow
    R.models['G2Row.__setitem__'] = r_set
    R.models['gradient._chain_rule.<locals>.combine_derivs'] = m_combine
    import re
    # (the same helper hoisted to module level / given a leading underscore keeps this contract)
    R.models.patterns.append((re.compile(r'^gradient\.(_chain_rule\.<locals>\.)?_?combine_derivs$'), m_combine))

    @model
    def m_node_outside_contract(ip, args, kw):
        # inside this target the combination of (adjoint, pre, post) is a callee under contract (chain/wiring); a tensor network
        # built here means the code combines them some other way: not decided by this contract
        raise Unsupported('_chain_rule builds a tensor network outside the helper whose contract this target uses')
    R.lib_models['tensornetwork.Node'] = m_node_outside_contract

    def cell(i2, j):
        i = i2 / 2
        return z3.If(i2 % 2 == 0, Comb(Adj(i), Tr(dP1(i, j)), Tr(P2c(i))), Comb(Adj(i), Tr(P1c(i)), Tr(dP2(i, j))))

    def template(ip, frame, k):
        def eq(ip_, have, want):
            a, b = fresh_int('row'), fresh_int('col')
            return z3.Implies(z3.And(a >= 0, b >= 0, b < M), have.fn(a, b) == want.fn(a, b))
        return {'@facts': [k >= 0],
                'total_derivs.grid': Custom(G2(lambda i, j: z3.If(z3.And(i >= 0, i < 2 * k, j >= 0, j < M), cell(i, j), uf('zero'))), eq)}
    R.invariants[('gradient._chain_rule', 0)] = LoopInv(template, 'chain-rule-loop')
    R.cell = cell
    return R


def scen_chain(M):
    def scen(ip, repo):
        N = Int('N')
        ip.assume(N >= 0)

        @model
        def props(ip2, a2, k2):
            return P1c(to_int(a2[0])), P2c(to_int(a2[0]))

        @model
        def dprops(ip2, a2, k2):
            i = to_int(a2[0])
            return [dP1(i, j) for j in range(M)], [dP2(i, j) for j in range(M)]
        adj = Seq(N, lambda i: Adj(i), 'list')
        return {'args': [], 'kwargs': {'adjoint_tensor': adj, 'dprop_dparam': dprops, 'propagators': props, 'num_steps': N,
                                       'num_parameters': M, 'progress_type': 'silent'}, 'N': N, 'M': M, 'inputs': {'N': N}}
    return scen


def post_chain(M, R):
    def post(ip, ctx, out):
        if not expect_no_other_exception(ip, out):
            return
        g = out.value.fields['grid']
        a, b = fresh_int('row'), fresh_int('col')
        ip.prove('chain/indexing', z3.Implies(z3.And(a >= 0, a < 2 * ctx['N'], b >= 0, b < M), g.fn(a, b) == R.cell(a, b)))
    return post


_t0 = targets


def targets(tier='quick'):
    T = _t0(tier)
    RP = props_registry()
    for M in (1, 2, 3):
        T.append(Target('param/rows[M=%d]' % M, 'system.ParameterizedSystem.get_propagators', scen_props(M, 'props'), post_props, RP, PROP, invoke=invoke_props,
                        replay=lambda ob: {'func': 'gradient_vs_finite_difference', 'inputs': {'obligation': ob['name']}}))
        T.append(Target('param/rows-derivs-user[M=%d]' % M, 'system.ParameterizedSystem.get_propagator_derivatives', scen_props(M, 'derivs-user'), post_props, RP, PROP, invoke=invoke_props,
                        replay=lambda ob: {'func': 'gradient_user_derivatives', 'inputs': {'obligation': ob['name']}}))
        T.append(Target('param/rows-derivs-numeric[M=%d]' % M, 'system.ParameterizedSystem.get_propagator_derivatives', scen_props(M, 'derivs-num'), post_props, RP, PROP, invoke=invoke_props,
                        replay=lambda ob: {'func': 'gradient_vs_finite_difference', 'inputs': {'obligation': ob['name']}}))
        RC = chain_registry(M)
        T.append(Target('chain/indexing[M=%d]' % M, 'gradient._chain_rule', scen_chain(M), post_chain(M, RC), RC, PROP,
                        replay=lambda ob: {'func': 'gradient_vs_finite_difference', 'inputs': {'obligation': ob['name']}}))
    return T


# ---- history: derivatives handed to the chain rule depend on (dt, parameters) of THIS call only
def hist_registry():
    R = props_registry()
    R.models.pop('system.ParameterizedSystem.halfstep_propagator_derivative')

    @model
    def m_argspec(ip, args, kw):
        return Obj('ArgSpec', {'args': ['p%d' % i for i in range(ip.ghost['M'])]})

    @model
    def m_ident(ip, args, kw):
        return args[0]

    @model
    def m_noop(ip, args, kw):
        return None

    @model
    def m_check_gl(ip, args, kw):
        return [], []

    @model
    def m_jacobian(ip, args, kw):
        fun = args[0]

        @model
        def J(ip2, a2, k2):
            # the numerical Jacobian of `fun` at x: a functional of fun, represented by the value
            # expression of fun at x (captures everything fun closes over, e.g. the time step)
            val = ip2.call(fun, [a2[0]], {})
            return uf('Jacobian_of', val)
        return J
    # element-wise comparisons of parameter rows (lists of reals), so that a body that takes a short cut when two half steps have
    # "the same" parameters is decided instead of being outside the subset
    def _row(v):
        if isinstance(v, Seq):
            raise Unsupported('comparison of whole parameter arrays')
        return [to_real(x) for x in v]

    @model
    def m_equal(ip, args, kw):
        a, b = _row(args[0]), _row(args[1])
        if len(a) != len(b):
            raise Unsupported('broadcast comparison')
        return Obj('BoolRow', {'items': [x == y for x, y in zip(a, b)]})

    @model
    def m_row_any(ip, args, kw):
        return z3.Or(args[0].fields['items']) if args[0].fields['items'] else z3.BoolVal(False)

    @model
    def m_row_all(ip, args, kw):
        return z3.And(args[0].fields['items']) if args[0].fields['items'] else z3.BoolVal(True)

    @model
    def m_array_equal(ip, args, kw):
        a, b = _row(args[0]), _row(args[1])
        return z3.And([x == y for x, y in zip(a, b)]) if len(a) == len(b) else z3.BoolVal(False)
    R.lib_models['numpy.equal'] = m_equal
    R.lib_models['numpy.array_equal'] = m_array_equal
    R.models['BoolRow.any'] = m_row_any
    R.models['BoolRow.all'] = m_row_all
    R.lib_models['numpy.any'] = m_row_any
    R.lib_models['numpy.all'] = m_row_all
    R.lib_models['inspect.getfullargspec'] = m_argspec
    R.lib_models['numpy.vectorize'] = m_ident
    R.lib_models['numdifftools.Jacobian'] = m_jacobian
    R.models['system._check_hamiltonian'] = m_noop
    R.models['system._check_parameterized_gammas_lindblad_operators'] = m_check_gl
    return R


def scen_hist(M):
    def scen(ip, repo):
        ip.ghost['M'] = M
        N = Int('N')
        ip.assume(N >= 1)
        return {'M': M, 'N': N, 'inputs': {'M': M}}
    return scen


def invoke_hist(ip, repo, fref, ctx):
    return _invoke_hist(ip, repo, ctx, 'get_propagator_derivatives')


def invoke_hist_props(ip, repo, fref, ctx):
    return _invoke_hist(ip, repo, ctx, 'get_propagators')


def _invoke_hist(ip, repo, ctx, accessor):
    M, N = ctx['M'], ctx['N']
    H = user_callable('H_of_params', raises=False)

    def build():
        return ip.call(repo.resolve('system.ParameterizedSystem'), [H], {})
    used, fresh_ = build(), build()
    Par1 = z3.Function('Par_earlier', IntS, IntS, RealS)
    p1 = Seq(2 * N, lambda r: [Par1(r, c) for c in range(M)], 'ndarray')
    p2 = Seq(2 * N, lambda r: [Par(r, c) for c in range(M)], 'ndarray')
    dt1, dt2 = Real('dt_earlier'), Real('dt')
    s1, s2 = Int('step_earlier'), Int('step')
    ip.add_pc(z3.And(s1 >= 0, s1 < N, s2 >= 0, s2 < N))
    g = repo.resolve('system.ParameterizedSystem.' + accessor)
    ip.call(ip.call(g, [used, dt1, p1], {}), [s1], {})          # an earlier gradient evaluation on another time grid
    a = ip.call(ip.call(g, [used, dt2, p2], {}), [s2], {})
    b = ip.call(ip.call(g, [fresh_, dt2, p2], {}), [s2], {})
    return a, b


def post_hist(ip, ctx, out):
    if not expect_no_other_exception(ip, out):
        return
    a, b = out.value
    ip.prove('param/derivatives-independent-of-history', z3.And(veq(a[0], b[0]), veq(a[1], b[1])))


def post_hist_props(ip, ctx, out):
    if not expect_no_other_exception(ip, out):
        return
    a, b = out.value
    ip.prove('param/propagators-independent-of-history', z3.And(veq(a[0], b[0]), veq(a[1], b[1])))


_t1 = targets


def targets(tier='quick'):
    T = _t1(tier)
    RH = hist_registry()
    for M in (1, 2):
        T.append(Target('param/history[M=%d]' % M, 'system.ParameterizedSystem.get_propagator_derivatives', scen_hist(M), post_hist, RH, PROP,
                        invoke=invoke_hist, replay=lambda ob: {'func': 'gradient_two_time_grids', 'inputs': {}}))
        T.append(Target('param/history-propagators[M=%d]' % M, 'system.ParameterizedSystem.get_propagators', scen_hist(M), post_hist_props, RH, PROP,
                        invoke=invoke_hist_props, replay=lambda ob: {'func': 'gradient_two_time_grids', 'inputs': {}}))
    return T


# ---- state_gradient: the public entry point hands the SAME (dt, parameters, start_time, number of steps) to the adjoint computation,
# to the propagators and to their derivatives, and assembles the result from what they return (forwarding contract)
def sg_registry():
    R = Registry()

    @model
    def m_cgd(ip, args, kw):
        ip.ghost['cgd'] = (list(args), kw)
        return (Vc('grad_prop'), Obj('DynM', {'states': Seq(Int('n_states'), (lambda f: lambda j: f(j))(z3.Function('state_at', z3.IntSort(), V)), 'list')}))

    def two(args, kw):
        # (dt, parameters), however they are passed
        a = list(args[1:])
        a += [kw[n] for n in ['dt', 'parameters'][len(a):] if n in kw]
        return (a, {})

    @model
    def m_props(ip, args, kw):
        ip.ghost['props'] = two(args, kw)
        return Vc('propagators_accessor')

    @model
    def m_derivs(ip, args, kw):
        ip.ghost['derivs'] = two(args, kw)
        return Vc('derivatives_accessor')

    @model
    def m_chain(ip, args, kw):
        ip.ghost['chain'] = (list(args), kw)
        return Vc('final_derivs')

    @model
    def m_check(ip, args, kw):
        return None
    R.models['gradient.compute_gradient_and_dynamics'] = m_cgd
    R.models['PSys.get_propagators'] = m_props
    R.models['PSys.get_propagator_derivatives'] = m_derivs
    R.models['gradient._chain_rule'] = m_chain
    R.models['util.check_isinstance'] = m_check
    return R


def scen_sg(ip, repo):
    N, M = Int('N'), Int('M')
    ip.assume(z3.And(N >= 1, M >= 1, Int('n_states') >= 1))
    dt = Real('dt_pt')
    pts = [Obj('PTm', {'dt': dt, 'len': N, 'idx': 0}), Obj('PTm', {'dt': dt, 'len': N, 'idx': 1})]       # documented: each with N time steps (same grid)
    params = Obj('ParamArr', {'shape': (2 * N, M)})
    system = Obj('PSys', {})
    rho, target = Vc('initial_state'), Vc('target_derivative')
    t0 = Real('start_time')
    kw = {'system': system, 'initial_state': rho, 'target_derivative': target, 'process_tensors': pts, 'parameters': params, 'start_time': t0, 'progress_type': 'silent'}
    return {'args': [], 'kwargs': kw, 'N': N, 'M': M, 'dt': dt, 'kw': kw, 'inputs': {'N': N, 'M': M}}


def sg_len_model(R):
    @model
    def m_len(ip, args, kw):
        return args[0].fields['len']
    R.models['PTm.__len__'] = m_len
    return R


def post_sg(ip, ctx, out):
    if not expect_no_other_exception(ip, out):
        return
    g = ip.ghost
    kw = ctx['kw']
    ok_all = all(k in g for k in ('cgd', 'props', 'derivs', 'chain'))
    ip.prove('sg/all-four-stages-run', z3.BoolVal(ok_all))
    if not ok_all:
        return
    a, k = g['cgd']
    ip.prove('sg/adjoint-computation-gets-the-callers-inputs', z3.BoolVal(
        k.get('system') is kw['system'] and k.get('initial_state') is kw['initial_state'] and k.get('target_derivative') is kw['target_derivative']
        and k.get('process_tensors') is kw['process_tensors'] and k.get('parameters') is kw['parameters'] and k.get('start_time') is kw['start_time']),
        {'handed over': {x: repr(k.get(x)) for x in ('system', 'initial_state', 'target_derivative', 'process_tensors', 'parameters', 'start_time')}})
    ip.prove('sg/time-grid-of-the-first-process-tensor', z3.And(veq(k.get('dt'), ctx['dt']), veq(k.get('num_steps'), ctx['N'])), {'dt': repr(k.get('dt')), 'num_steps': repr(k.get('num_steps'))})
    for nm in ('props', 'derivs'):
        a2, k2 = g[nm]
        vals = a2 + [k2[x] for x in sorted(k2)]
        ip.prove('sg/%s-use-the-same-dt-and-parameters' % ('propagators' if nm == 'props' else 'derivatives'),
                 z3.BoolVal(len(vals) == 2 and vals[1] is kw['parameters']) if len(vals) == 2 and not is_z3(vals[1]) else z3.BoolVal(False),
                 {'arguments': repr(vals)})
        if len(vals) == 2:
            ip.prove('sg/%s-dt' % ('propagators' if nm == 'props' else 'derivatives'), veq(vals[0], ctx['dt']))
    a3, k3 = g['chain']
    names = ['adjoint_tensor', 'dprop_dparam', 'propagators', 'num_steps', 'num_parameters']
    C = {n: (k3[n] if n in k3 else (a3[i] if i < len(a3) else None)) for i, n in enumerate(names)}
    ip.prove('sg/chain-rule-inputs', z3.And(C['adjoint_tensor'] == Vc('grad_prop'), C['dprop_dparam'] == Vc('derivatives_accessor'), C['propagators'] == Vc('propagators_accessor'),
                                            veq(C['num_steps'], ctx['N']), veq(C['num_parameters'], ctx['M'])), {x: repr(v) for x, v in C.items()})
    r = out.value
    okr = isinstance(r, dict) and set(r) >= {'final_state', 'gradprop', 'gradient', 'dynamics'}
    ip.prove('sg/result-keys', z3.BoolVal(bool(okr)))
    if okr:
        n = Int('n_states')
        ip.prove('sg/result-assembly', z3.And(r['gradprop'] == Vc('grad_prop'), r['gradient'] == Vc('final_derivs'),
                                              r['final_state'] == z3.Function('state_at', z3.IntSort(), V)(n - 1)))


_t_c08 = targets


def targets(tier='quick'):
    T = _t_c08(tier)
    T.append(Target('grad/state_gradient', 'gradient.state_gradient', scen_sg, post_sg, sg_len_model(sg_registry()), PROP,
                    replay=lambda ob: {'func': 'gradient_vs_finite_difference', 'inputs': {'obligation': ob['name']}}))
    return T
