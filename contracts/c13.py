"""C13 — computations cover exactly the requested time grid and label states correctly."""
import z3
from .common import *

PROP = 'C13'
U = z3.RealVal(1) / z3.RealVal(2 ** 53)
QMAX = 2 ** 20


def steps_spec(ip, q, got, prefix):
    """Steps(start,end,dt) for the exact rational quotient q >= 0:
       must be rnd(q) when q is a grid point up to rounding, floor(q) when clearly off-grid,
       either in the don't-care band in between."""
    m = round_half_even(q)
    dist = z3.If(q >= z3.ToReal(m), q - z3.ToReal(m), z3.ToReal(m) - q)
    qq = z3.If(q > 1, q, z3.RealVal(1))
    ip.prove(prefix + '/grid-point-included', z3.Implies(dist <= 8 * U * qq, got == m))
    ip.prove(prefix + '/off-grid-floor', z3.Implies(dist >= z3.RealVal('1/1000000'), got == z3.ToInt(q)))
    ip.prove(prefix + '/one-of-both', z3.Or(got == m, got == z3.ToInt(q)))


def _tempo_self(repo, cls):
    start, dt = Real('start'), Real('dt')
    params = mkobj(repo, 'tempo.TempoParameters', _dt=dt)
    return mkobj(repo, cls, _start_time=start, _parameters=params), start, dt


def scen_num_step(cls):
    def scen(ip, repo):
        ip.fp_relax = True
        self_, start, dt = _tempo_self(repo, cls)
        q = Real('q')
        start_step = Int('start_step')
        ip.assume(z3.And(dt > 0, q >= 0, q <= QMAX, start_step >= 0),
                  'requires dt > 0, end >= start, (end-start)/dt <= 2^20')
        end = start + q * dt      # any real end >= start (superset of the doubles)
        return {'args': [self_, start_step, end], 'q': q, 'start_step': start_step,
                'inputs': {'start_time': start, 'dt': dt, 'q': q, 'start_step': start_step}}
    return scen


def post_num_step(ip, ctx, out):
    if not expect_no_other_exception(ip, out):
        return
    q, ss = ctx['q'], ctx['start_step']
    r = out.value
    # result = max(0, Steps - start_step)
    steps = fresh_int('steps')
    ip.add_pc(r == z3.If(steps - ss > 0, steps - ss, 0))
    # read Steps off the result where it is observable (start_step = 0 covers everything)
    ip.prove('grid/num-step-nonneg', r >= 0)
    if ip.decide(ss == 0, 'start0'):
        steps_spec(ip, q, r, 'grid/steps')


def replay_steps(ob):
    return {'func': 'steps_search', 'inputs': {'target': ob.get('target'), 'model': ob.get('model')}}


def targets(tier='quick'):
    R = Registry()
    T = []
    for cls in ('tempo.Tempo', 'tempo.MeanFieldTempo'):
        T.append(Target('grid/steps[%s]' % cls, cls + '._get_num_step', scen_num_step(cls), post_num_step, R, PROP, replay=replay_steps))
    return T


META = {'level': 'proof', 'explanation': '', 'trusted_base': [], 'clauses': []}


# ------------------------------------------------------------------------------------
# compute_dynamics: number of recorded states and their time labels
from . import dyn


def post_cd_times(ip, ctx, out):
    g = ctx['g']
    N, dt, t0, ra = g['num_steps'], g['dt'], g['start_time'], g['record_all']
    if not out.returned:
        return ip.prove('path-accounted', z3.BoolVal(True))
    d = out.value
    from pyvc.lib import as_seq
    times, states = as_seq(d.fields['times']), as_seq(d.fields['states'])
    ip.prove('grid/len', z3.And(states.length == z3.If(ra, N + 1, 1), times.length == states.length))
    j = fresh_int('j')
    ip.prove('grid/times-all', z3.Implies(z3.And(ra, j >= 0, j <= N), times.fn(j) == t0 + z3.ToReal(j) * dt))
    ip.prove('grid/time-final-only', z3.Implies(z3.Not(ra), times.fn(0) == t0 + z3.ToReal(N) * dt))
    ip.prove('dyn/record', z3.Implies(z3.And(ra, j >= 0, j <= N), states.fn(j) == dyn.recorded(j, dyn.Xf(j))))
    ip.prove('dyn/record-final-only', z3.Implies(z3.Not(ra), states.fn(0) == dyn.recorded(N, dyn.Xf(N))))


def replay_cd(ob):
    return {'func': 'compute_dynamics_times', 'inputs': {'model': ob.get('model'), 'obligation': ob['name']}}


_old_targets = targets


def targets(tier='quick'):
    T = _old_targets(tier)
    R = dyn.cd_registry()
    for ne in (0, 1, 2):
        T.append(Target('cd/times[envs=%d]' % ne, 'system_dynamics.compute_dynamics',
                        lambda ip, repo, ne=ne: dyn.cd_scenario(ip, repo, num_envs=ne), post_cd_times, R, PROP,
                        replay=replay_cd))
    return T


# ------------------------------------------------------------------------------------
# time labels
def scen_time(cls, meth):
    def scen(ip, repo):
        start, dt = Real('start'), Real('dt')
        step = Int('step')
        if cls == 'pt_tebd.PtTebd':
            params = mkobj(repo, 'pt_tebd.PtTebdParameters', _dt=dt)
            self_ = mkobj(repo, cls, _start_time=start, _parameters=params, _start_step=Int('start_step'))
        elif cls == 'tempo.GibbsTempo':
            return None
        else:
            params = mkobj(repo, 'tempo.TempoParameters', _dt=dt)
            self_ = mkobj(repo, cls, _start_time=start, _parameters=params)
        return {'args': [self_, step], 'step': step, 'start': start, 'dt': dt,
                'inputs': {'start_time': start, 'dt': dt, 'step': step}}
    return scen


def post_time(ip, ctx, out):
    if not expect_no_other_exception(ip, out):
        return
    off = ctx['args'][0].fields.get('_start_step', 0)     # PtTebd: start_time belongs to start_step
    ip.prove('grid/label', out.value == ctx['start'] + z3.ToReal(ctx['step'] - off) * ctx['dt'])


# ------------------------------------------------------------------------------------
# Dynamics.add keeps times sorted and states aligned (representation invariant)
def scen_dyn_add(ip, repo):
    times, A, n = real_seq('times')
    states, F, _ = v_seq('states', n)
    shape = Vc('shape')
    ip.assume(n >= 0)
    # representation invariant on entry: non-decreasing times (instantiated on demand)
    old_t, old_s = times.copy(), states.copy()
    ip.add_universal(times, lambda i: z3.Implies(z3.And(i >= 0, i + 1 < n), old_t.fn(i) <= old_t.fn(i + 1)), n)
    self_ = mkobj(repo, 'dynamics.Dynamics', _times=times, _states=states, _shape=shape)
    t = Real('t_new')
    st = Vc('state_new')
    return {'args': [self_, t, st], 'self': self_, 'old_t': old_t, 'old_s': old_s, 'n': n, 't': t, 'st': st,
            'seq_t': times, 'inputs': {'times': old_t, 't_new': t}}


def post_dyn_add(ip, ctx, out):
    if out.raised('AssertionError'):
        return ip.prove('path-accounted', z3.BoolVal(True))     # shape / type rejections
    if not expect_no_other_exception(ip, out):
        return
    self_, n, t, st = ctx['self'], ctx['n'], ctx['t'], ctx['st']
    T2, S2 = self_.fields['_times'], self_.fields['_states']
    old_t, old_s = ctx['old_t'], ctx['old_s']
    ip.prove('dynlist/length', z3.And(T2.length == n + 1, S2.length == n + 1))
    # witness for "there is a position k ...": the position the code looked up first (for the time list)
    calls = ip.ghost.get('bisect') or []
    if not calls:
        raise Unsupported('Dynamics.add no longer finds its insertion position by bisection: no witness for the alignment clauses')
    seq, x, k = calls[0]
    i = fresh_int('i')
    for idx in (i - 1, i, i + 1, k - 1, k):
        ip.instantiate_universals(ctx['seq_t'], idx)
    ip.prove('dynlist/sorted', z3.Implies(z3.And(i >= 0, i + 1 < n + 1), T2.fn(i) <= T2.fn(i + 1)))
    # aligned: the new pair sits at k, all old pairs keep their partner
    state_new = S2.fn(k)
    ip.prove('dynlist/aligned-new', T2.fn(k) == t)
    ip.prove('dynlist/aligned-old', z3.Implies(z3.And(i >= 0, i < n),
             z3.And(T2.fn(z3.If(i < k, i, i + 1)) == old_t.fn(i), S2.fn(z3.If(i < k, i, i + 1)) == old_s.fn(i))))
    ip.prove('dynlist/new-state-is-the-added-one', uf('np_array', st) == state_new)


# ------------------------------------------------------------------------------------
# Tempo.compute: times after compute(T)
from . import tempo_sm


def post_tempo_times(ip, ctx, out):
    g = ctx['g']
    if not out.returned:
        return ip.prove('path-accounted', z3.BoolVal(True))
    self_ = ctx['self']
    d = self_.fields['_dynamics']
    be = self_.fields['_backend_instance']
    start, dt, T = g['start'], g['dt'], g['T']
    times, states = d.fields['_times'], d.fields['_states']
    k = be.fields['step']
    j = fresh_int('j')
    ip.prove('grid/tempo-times', z3.And(times.length == k + 1, states.length == k + 1,
             z3.Implies(z3.And(j >= 0, j <= k), times.fn(j) == tempo_sm.label(start, dt, j))))
    ip.prove('grid/tempo-states-aligned', z3.Implies(z3.And(j >= 0, j <= k),
             states.fn(j) == tempo_sm.stored_state(j, g['dim'])))
    ip.prove('grid/returns-own-dynamics', z3.BoolVal(out.value is d))


_old_targets2 = targets


def targets(tier='quick'):
    T = _old_targets2(tier)
    R = Registry()
    for cls, meth in (('tempo.Tempo', '_time'), ('tempo.MeanFieldTempo', '_time'), ('pt_tebd.PtTebd', 'time')):
        T.append(Target('grid/label[%s]' % cls, cls + '.' + meth, scen_time(cls, meth), post_time, R, PROP))
    T.append(Target('dynlist/add', 'dynamics.Dynamics.add', scen_dyn_add, post_dyn_add, R, PROP,
                    replay=lambda ob: {'func': 'dynamics_add', 'inputs': {'obligation': ob['name']}}))
    RT = tempo_sm.tempo_registry()
    T.append(Target('tempo/compute-times[fresh]', 'tempo.Tempo.compute', tempo_sm.tempo_scenario(True), post_tempo_times, RT, PROP))
    T.append(Target('tempo/compute-times[continue]', 'tempo.Tempo.compute', tempo_sm.tempo_scenario(False), post_tempo_times, RT, PROP))
    return T
