"""C13 — computations cover exactly the requested time grid and label states correctly."""
import z3
from .common import *

PROP = 'C13'
U = z3.RealVal(1) / z3.RealVal(2 ** 53)
QMAX = 2 ** 20


def steps_spec(ip, q, got, prefix):
    """Steps(start,end,dt) for the exact rational quotient q >= 0:
       must be rnd(q) when q is a grid point up to rounding, floor(q) when clearly off-grid,
       either in the don't-care band in between."""
    m = round_half_even(q)
    dist = z3.If(q >= z3.ToReal(m), q - z3.ToReal(m), z3.ToReal(m) - q)
    qq = z3.If(q > 1, q, z3.RealVal(1))
    ip.prove(prefix + '/grid-point-included', z3.Implies(dist <= 8 * U * qq, got == m))
    ip.prove(prefix + '/off-grid-floor', z3.Implies(dist >= z3.RealVal('1/1000000'), got == z3.ToInt(q)))
    ip.prove(prefix + '/one-of-both', z3.Or(got == m, got == z3.ToInt(q)))


def _tempo_self(repo, cls):
    start, dt = Real('start'), Real('dt')
    params = mkobj(repo, 'tempo.TempoParameters', _dt=dt)
    return mkobj(repo, cls, _start_time=start, _parameters=params), start, dt


def scen_num_step(cls):
    def scen(ip, repo):
        ip.fp_relax = True
        self_, start, dt = _tempo_self(repo, cls)
        q = Real('q')
        start_step = Int('start_step')
        ip.assume(z3.And(dt > 0, q >= 0, q <= QMAX, start_step >= 0),
                  'requires dt > 0, end >= start, (end-start)/dt <= 2^20')
        end = start + q * dt      # any real end >= start (superset of the doubles)
        return {'args': [self_, start_step, end], 'q': q, 'start_step': start_step,
                'inputs': {'start_time': start, 'dt': dt, 'q': q, 'start_step': start_step}}
    return scen


def post_num_step(ip, ctx, out):
    if not expect_no_other_exception(ip, out):
        return
    q, ss = ctx['q'], ctx['start_step']
    r = out.value
    # result = max(0, Steps - start_step)
    steps = fresh_int('steps')
    ip.add_pc(r == z3.If(steps - ss > 0, steps - ss, 0))
    # read Steps off the result where it is observable (start_step = 0 covers everything)
    ip.prove('grid/num-step-nonneg', r >= 0)
    if ip.decide(ss == 0, 'start0'):
        steps_spec(ip, q, r, 'grid/steps')


def replay_steps(ob):
    return {'func': 'steps_search', 'inputs': {'target': ob.get('target'), 'model': ob.get('model')}}


def targets(tier='quick'):
    R = Registry()
    T = []
    for cls in ('tempo.Tempo', 'tempo.MeanFieldTempo'):
        T.append(Target('grid/steps[%s]' % cls, cls + '._get_num_step', scen_num_step(cls), post_num_step, R, PROP, replay=replay_steps))
    return T


META = {'level': 'proof', 'explanation': '', 'trusted_base': [], 'clauses': []}


# ------------------------------------------------------------------------------------
# compute_dynamics: number of recorded states and their time labels
from . import dyn


def post_cd_times(ip, ctx, out):
    g = ctx['g']
    N, dt, t0, ra = g['num_steps'], g['dt'], g['start_time'], g['record_all']
    if not out.returned:
        return ip.prove('path-accounted', z3.BoolVal(True))
    d = out.value
    from pyvc.lib import as_seq
    times, states = as_seq(d.fields['times']), as_seq(d.fields['states'])
    ip.prove('grid/len', z3.And(states.length == z3.If(ra, N + 1, 1), times.length == states.length))
    j = fresh_int('j')
    ip.prove('grid/times-all', z3.Implies(z3.And(ra, j >= 0, j <= N), times.fn(j) == t0 + z3.ToReal(j) * dt))
    ip.prove('grid/time-final-only', z3.Implies(z3.Not(ra), times.fn(0) == t0 + z3.ToReal(N) * dt))
    ip.prove('dyn/record', z3.Implies(z3.And(ra, j >= 0, j <= N), states.fn(j) == dyn.recorded(j, dyn.Xf(j))))
    ip.prove('dyn/record-final-only', z3.Implies(z3.Not(ra), states.fn(0) == dyn.recorded(N, dyn.Xf(N))))


def replay_cd(ob):
    return {'func': 'compute_dynamics_times', 'inputs': {'model': ob.get('model'), 'obligation': ob['name']}}


_old_targets = targets


def targets(tier='quick'):
    T = _old_targets(tier)
    R = dyn.cd_registry()
    for ne in (0, 1, 2):
        T.append(Target('cd/times[envs=%d]' % ne, 'system_dynamics.compute_dynamics',
                        lambda ip, repo, ne=ne: dyn.cd_scenario(ip, repo, num_envs=ne), post_cd_times, R, PROP,
                        replay=replay_cd))
    return T
