"""C13 — computations cover exactly the requested time grid and label states correctly."""
import z3
from .common import *

PROP = 'C13'
U = z3.RealVal(1) / z3.RealVal(2 ** 53)
QMAX = 2 ** 20


def steps_spec(ip, q, got, prefix, offset=None):
    """Steps(start,end,dt) for the exact rational quotient q >= 0:
       must be rnd(q) when q is a grid point up to rounding, floor(q) when clearly off-grid,
       either in the don't-care band in between."""
    m = round_half_even(q)
    dist = z3.If(q >= z3.ToReal(m), q - z3.ToReal(m), z3.ToReal(m) - q)
    qq = z3.If(q > 1, q, z3.RealVal(1))
    # "a grid point up to floating-point rounding": the end time as written (a literal, or start + m*dt computed by the caller) is rounded
    # to a double, an error of up to U*|end| in time = U*|end|/dt in steps, on top of the rounding of the quotient itself
    off = offset if offset is not None else z3.RealVal(0)          # (|start| + |end|) / dt
    ip.prove(prefix + '/grid-point-included', z3.Implies(dist <= 8 * U * qq + 2 * U * off, got == m))
    ip.prove(prefix + '/off-grid-floor', z3.Implies(dist >= z3.RealVal('1/1000000') + 64 * U * off, got == z3.ToInt(q)))
    ip.prove(prefix + '/one-of-both', z3.Or(got == m, got == z3.ToInt(q)))


def _tempo_self(repo, cls):
    start, dt = Real('start'), Real('dt')
    params = mkobj(repo, 'tempo.TempoParameters', _dt=dt)
    return mkobj(repo, cls, _start_time=start, _parameters=params), start, dt


def scen_num_step(cls):
    def scen(ip, repo):
        ip.fp_relax = True
        self_, start, dt = _tempo_self(repo, cls)
        q = Real('q')
        start_step = Int('start_step')
        ip.assume(z3.And(dt > 0, q >= 0, q <= QMAX, start_step >= 0),
                  'requires dt > 0, end >= start, (end-start)/dt <= 2^20')
        end = start + q * dt      # any real end >= start (superset of the doubles)
        absv0 = lambda x: z3.If(x >= 0, x, -x)
        ip.assume((absv0(start) + absv0(end)) <= dt * 2 ** 40, 'requires (|start| + |end|)/dt <= 2^40: beyond that doubles do not resolve the grid')
        absv = lambda x: z3.If(x >= 0, x, -x)
        return {'args': [self_, start_step, end], 'q': q, 'start_step': start_step, 'offset': (absv(start) + absv(end)) / dt,
                'inputs': {'start_time': start, 'dt': dt, 'q': q, 'start_step': start_step}}
    return scen


def post_num_step(ip, ctx, out):
    if not expect_no_other_exception(ip, out):
        return
    q, ss = ctx['q'], ctx['start_step']
    r = out.value
    # result = max(0, Steps - start_step)
    steps = fresh_int('steps')
    ip.add_pc(r == z3.If(steps - ss > 0, steps - ss, 0))
    # read Steps off the result where it is observable (start_step = 0 covers everything)
    ip.prove('grid/num-step-nonneg', r >= 0)
    if ip.decide(ss == 0, 'start0'):
        steps_spec(ip, q, r, 'grid/steps', offset=ctx.get('offset'))


def replay_steps(ob):
    return {'func': 'steps_search', 'inputs': {'target': ob.get('target'), 'model': ob.get('model')}}


def targets(tier='quick'):
    R = Registry()
    T = []
    for cls in ('tempo.Tempo', 'tempo.MeanFieldTempo'):
        T.append(Target('grid/steps[%s]' % cls, cls + '._get_num_step', scen_num_step(cls), post_num_step, R, PROP, replay=replay_steps))
    return T


META = {'level': 'proof', 'explanation': '', 'trusted_base': [], 'clauses': []}


# ------------------------------------------------------------------------------------
# compute_dynamics: number of recorded states and their time labels
from . import dyn


def post_cd_times(ip, ctx, out):
    g = ctx['g']
    N, dt, t0, ra = g['num_steps'], g['dt'], g['start_time'], g['record_all']
    if not out.returned:
        return ip.prove('path-accounted', z3.BoolVal(True))
    d = out.value
    from pyvc.lib import as_seq
    times, states = as_seq(d.fields['times']), as_seq(d.fields['states'])
    ip.prove('grid/len', z3.And(states.length == z3.If(ra, N + 1, 1), times.length == states.length))
    j = fresh_int('j')
    ip.prove('grid/times-all', z3.Implies(z3.And(ra, j >= 0, j <= N), times.fn(j) == t0 + z3.ToReal(j) * dt))
    ip.prove('grid/time-final-only', z3.Implies(z3.Not(ra), times.fn(0) == t0 + z3.ToReal(N) * dt))
    ip.prove('dyn/record', z3.Implies(z3.And(ra, j >= 0, j <= N), states.fn(j) == dyn.recorded(j, dyn.Xf(j))))
    ip.prove('dyn/record-final-only', z3.Implies(z3.Not(ra), states.fn(0) == dyn.recorded(N, dyn.Xf(N))))


def replay_cd(ob):
    return {'func': 'compute_dynamics_times', 'inputs': {'model': ob.get('model'), 'obligation': ob['name']}}


_old_targets = targets


def targets(tier='quick'):
    T = _old_targets(tier)
    R = dyn.cd_registry()
    for ne in (0, 1, 2):
        T.append(Target('cd/times[envs=%d]' % ne, 'system_dynamics.compute_dynamics',
                        lambda ip, repo, ne=ne: dyn.cd_scenario(ip, repo, num_envs=ne), post_cd_times, R, PROP,
                        replay=replay_cd))
    return T


# ------------------------------------------------------------------------------------
# time labels
def scen_time(cls, meth):
    def scen(ip, repo):
        start, dt = Real('start'), Real('dt')
        step = Int('step')
        if cls == 'pt_tebd.PtTebd':
            params = mkobj(repo, 'pt_tebd.PtTebdParameters', _dt=dt)
            self_ = mkobj(repo, cls, _start_time=start, _parameters=params, _start_step=Int('start_step'))
        elif cls == 'tempo.GibbsTempo':
            return None
        else:
            params = mkobj(repo, 'tempo.TempoParameters', _dt=dt)
            self_ = mkobj(repo, cls, _start_time=start, _parameters=params)
        return {'args': [self_, step], 'step': step, 'start': start, 'dt': dt,
                'inputs': {'start_time': start, 'dt': dt, 'step': step}}
    return scen


def post_time(ip, ctx, out):
    if not expect_no_other_exception(ip, out):
        return
    off = ctx['args'][0].fields.get('_start_step', 0)     # PtTebd: start_time belongs to start_step
    ip.prove('grid/label', out.value == ctx['start'] + z3.ToReal(ctx['step'] - off) * ctx['dt'])


# ------------------------------------------------------------------------------------
# Dynamics.add keeps times sorted and states aligned (representation invariant)
def scen_dyn_add(ip, repo):
    times, A, n = real_seq('times')
    states, F, _ = v_seq('states', n)
    shape = Vc('shape')
    ip.assume(n >= 0)
    # representation invariant on entry: non-decreasing times (instantiated on demand)
    old_t, old_s = times.copy(), states.copy()
    ip.add_universal(times, lambda i: z3.Implies(z3.And(i >= 0, i + 1 < n), old_t.fn(i) <= old_t.fn(i + 1)), n)
    self_ = mkobj(repo, 'dynamics.Dynamics', _times=times, _states=states, _shape=shape)
    t = Real('t_new')
    st = Vc('state_new')
    return {'args': [self_, t, st], 'self': self_, 'old_t': old_t, 'old_s': old_s, 'n': n, 't': t, 'st': st,
            'seq_t': times, 'inputs': {'times': old_t, 't_new': t}}


def post_dyn_add(ip, ctx, out):
    if out.raised('AssertionError'):
        return ip.prove('path-accounted', z3.BoolVal(True))     # shape / type rejections
    if not expect_no_other_exception(ip, out):
        return
    self_, n, t, st = ctx['self'], ctx['n'], ctx['t'], ctx['st']
    T2, S2 = self_.fields['_times'], self_.fields['_states']
    old_t, old_s = ctx['old_t'], ctx['old_s']
    ip.prove('dynlist/length', z3.And(T2.length == n + 1, S2.length == n + 1))
    # witness for "there is a position k ...": the position the code looked up first (for the time list)
    calls = ip.ghost.get('bisect') or []
    if not calls:
        raise Unsupported('Dynamics.add no longer finds its insertion position by bisection: no witness for the alignment clauses')
    seq, x, k = calls[0]
    i = fresh_int('i')
    for idx in (i - 1, i, i + 1, k - 1, k):
        ip.instantiate_universals(ctx['seq_t'], idx)
    ip.prove('dynlist/sorted', z3.Implies(z3.And(i >= 0, i + 1 < n + 1), T2.fn(i) <= T2.fn(i + 1)))
    # aligned: the new pair sits at k, all old pairs keep their partner
    state_new = S2.fn(k)
    ip.prove('dynlist/aligned-new', T2.fn(k) == t)
    ip.prove('dynlist/aligned-old', z3.Implies(z3.And(i >= 0, i < n),
             z3.And(T2.fn(z3.If(i < k, i, i + 1)) == old_t.fn(i), S2.fn(z3.If(i < k, i, i + 1)) == old_s.fn(i))))
    ip.prove('dynlist/new-state-is-the-added-one', uf('np_array', st) == state_new)


# ------------------------------------------------------------------------------------
# Tempo.compute: times after compute(T)
from . import tempo_sm


def post_tempo_times(ip, ctx, out):
    g = ctx['g']
    if not out.returned:
        return ip.prove('path-accounted', z3.BoolVal(True))
    self_ = ctx['self']
    d = self_.fields['_dynamics']
    be = self_.fields['_backend_instance']
    start, dt, T = g['start'], g['dt'], g['T']
    times, states = d.fields['_times'], d.fields['_states']
    k = be.fields['step']
    j = fresh_int('j')
    ip.prove('grid/tempo-times', z3.And(times.length == k + 1, states.length == k + 1,
             z3.Implies(z3.And(j >= 0, j <= k), times.fn(j) == tempo_sm.label(start, dt, j))))
    ip.prove('grid/tempo-states-aligned', z3.Implies(z3.And(j >= 0, j <= k),
             states.fn(j) == tempo_sm.stored_state(j, g['dim'])))
    ip.prove('grid/returns-own-dynamics', z3.BoolVal(out.value is d))


_old_targets2 = targets


def targets(tier='quick'):
    T = _old_targets2(tier)
    R = Registry()
    for cls, meth in (('tempo.Tempo', '_time'), ('tempo.MeanFieldTempo', '_time'), ('pt_tebd.PtTebd', 'time')):
        T.append(Target('grid/label[%s]' % cls, cls + '.' + meth, scen_time(cls, meth), post_time, R, PROP))
    T.append(Target('dynlist/add', 'dynamics.Dynamics.add', scen_dyn_add, post_dyn_add, R, PROP,
                    replay=lambda ob: {'func': 'dynamics_add', 'inputs': {'obligation': ob['name']}}))
    RT = tempo_sm.tempo_registry()
    T.append(Target('tempo/compute-times[fresh]', 'tempo.Tempo.compute', tempo_sm.tempo_scenario(True), post_tempo_times, RT, PROP))
    T.append(Target('tempo/compute-times[continue]', 'tempo.Tempo.compute', tempo_sm.tempo_scenario(False), post_tempo_times, RT, PROP))
    return T


# ------------------------------------------------------------------------------------
# MeanFieldDynamics.add: times sorted, fields and every system's states aligned with the times
def scen_mfdyn_add(nsys, fresh):
    def scen(ip, repo):
        times, A, n = real_seq('times')
        ip.assume(n >= 0)
        fr, _, _ = real_seq('fields_re', n)
        fi, _, _ = real_seq('fields_im', n)
        fields = Seq(n, lambda j: uf('cx', fr.fn(j), fi.fn(j)), 'list')
        old_t, old_f = times.copy(), fields.copy()
        ip.add_universal(times, lambda i: z3.Implies(z3.And(i >= 0, i + 1 < n), old_t.fn(i) <= old_t.fn(i + 1)), n)
        sysd = [] if fresh else [Obj('DynM', {'idx': k}) for k in range(nsys)]
        if fresh:
            ip.assume(n == 0)
        self_ = mkobj(repo, 'dynamics.MeanFieldDynamics', _times=times, _fields=fields, _system_dynamics=sysd, _shapes=[])
        t = Real('t_new')
        states = [Vc('state_new_%d' % k) for k in range(nsys)]
        fld = Vc('field_new')
        return {'args': [self_, t, states, fld], 'self': self_, 'old_t': old_t, 'old_f': old_f, 'n': n, 't': t, 'states': states, 'fld': fld, 'seq_t': times,
                'nsys': nsys, 'fresh': fresh, 'inputs': {'times': old_t, 't_new': t, 'systems': nsys}}
    return scen


def mfdyn_registry():
    R = Registry()

    @model
    def m_parse_field(ip, args, kw):
        r = uf('parsed_field', args[0])
        return r

    @model
    def m_dyn_add(ip, args, kw):
        ip.ghost.setdefault('sys_adds', []).append((args[0], args[1], args[2]))

    @model
    def m_dyn_ctor(ip, args, kw):
        k = len(ip.ghost.setdefault('new_dyn', []))
        o = Obj('DynM', {'idx': k, 'new': True})
        ip.ghost['new_dyn'].append(o)
        return o

    @model
    def m_shape(ip, args, kw):
        return uf('shape_of_dynamics', z3.IntVal(args[0].fields['idx']))
    R.models['dynamics._parse_field'] = m_parse_field
    R.models['DynM.add'] = m_dyn_add
    R.models['dynamics.Dynamics'] = m_dyn_ctor
    R.models['DynM.shape'] = m_shape
    R.model_properties.add('DynM.shape')
    return R


def post_mfdyn_add(ip, ctx, out):
    if out.raised('AssertionError'):
        return ip.prove('path-accounted', z3.BoolVal(True))
    if not expect_no_other_exception(ip, out):
        return
    self_, n, t = ctx['self'], ctx['n'], ctx['t']
    T2, F2 = self_.fields['_times'], self_.fields['_fields']
    from pyvc.lib import as_seq
    T2, F2 = as_seq(T2), as_seq(F2)
    old_t, old_f = ctx['old_t'], ctx['old_f']
    ip.prove('mfdyn/length', z3.And(T2.length == n + 1, F2.length == n + 1))
    calls = ip.ghost.get('bisect') or []
    if not calls:
        raise Unsupported('MeanFieldDynamics.add no longer finds its insertion position by bisection: no witness for the alignment clauses')
    seq, x, k = calls[0]
    i = fresh_int('i')
    for idx in (i - 1, i, i + 1, k - 1, k):
        ip.instantiate_universals(ctx['seq_t'], idx)
    ip.prove('mfdyn/sorted', z3.Implies(z3.And(i >= 0, i + 1 < n + 1), T2.fn(i) <= T2.fn(i + 1)))
    ip.prove('mfdyn/field-aligned-new', z3.And(T2.fn(k) == t, F2.fn(k) == uf('parsed_field', ctx['fld'])))
    ip.prove('mfdyn/fields-aligned-old', z3.Implies(z3.And(i >= 0, i < n),
             z3.And(T2.fn(z3.If(i < k, i, i + 1)) == old_t.fn(i), F2.fn(z3.If(i < k, i, i + 1)) == old_f.fn(i))))
    adds = ip.ghost.get('sys_adds', [])
    sysd = self_.fields['_system_dynamics']
    # every system's Dynamics gets exactly one add, with ITS state (in whatever order the systems are visited)
    ok = len(sysd) == ctx['nsys'] and len(adds) == ctx['nsys'] and all(
        sum(1 for a in adds if a[0] is sysd[j]) == 1 and all(a[2] is ctx['states'][j] for a in adds if a[0] is sysd[j]) for j in range(ctx['nsys']))
    ip.prove('mfdyn/every-system-gets-its-own-state', z3.BoolVal(bool(ok)), {'adds': repr([(getattr(a[0], 'fields', {}).get('idx'), a[2]) for a in adds])})
    ip.prove('mfdyn/systems-get-the-same-time', z3.And([veq(a[1], t) for a in adds] + [z3.BoolVal(True)]))


_old_targets3 = targets


def targets(tier='quick'):
    T = _old_targets3(tier)
    RM = mfdyn_registry()
    for nsys in (1, 2, 3):
        for fresh in (True, False):
            T.append(Target('mfdyn/add[systems=%d,%s]' % (nsys, 'first' if fresh else 'later'), 'dynamics.MeanFieldDynamics.add', scen_mfdyn_add(nsys, fresh),
                            post_mfdyn_add, RM, PROP, replay=lambda ob: {'func': 'mean_field_dynamics_add', 'inputs': {'obligation': ob['name']}}))
    return T


# ------------------------------------------------------------------------------------
# BaseDynamics.expectations: entry j is Tr(O rho_j) for the state stored at index j, next to the time stored at index j
MM = z3.Function('matmul', V, V, V)
TR = z3.Function('trace', V, V)


def expect_registry():
    R = Registry()

    def matmul(ip, a, b):
        r = MM(a, b)
        ip.add_pc(r != NONE)
        return r
    R.matmul = matmul

    @model
    def m_trace(ip, args, kw):
        return TR(args[0])

    @model
    def m_identity(ip, args, kw):
        return uf('identity_matrix', to_int(args[0]) if not isinstance(args[0], int) else z3.IntVal(args[0]))

    @model
    def m_array(ip, args, kw):
        v = args[0]
        if isinstance(v, Seq):
            return v.copy('ndarray')
        return uf('np_array', v)

    @model
    def m_real(ip, args, kw):
        v = args[0]
        if isinstance(v, Seq):
            return Seq(v.length, lambda j: uf('real_part', v.fn(j)), 'ndarray')
        return uf('real_part', v)
    R.lib_models['numpy.trace'] = m_trace
    R.lib_models['numpy.identity'] = m_identity
    R.lib_models['numpy.array'] = m_array
    R.lib_models['numpy.real'] = m_real

    def template(ip, frame, k):
        g = ip.ghost['expect']
        return {'@facts': [k >= 0], 'expectations_list': Seq(k, lambda j: TR(MM(g['op'], g['states'].fn(j))), 'list')}
    R.invariants[('dynamics.BaseDynamics.expectations', 0)] = LoopInv(template, 'expectations-loop')
    return R


def scen_expect(with_op, real):
    def scen(ip, repo):
        times, A, n = real_seq('times')
        states, F, _ = v_seq('states', n)
        ip.assume(n >= 1)      # (an empty Dynamics returns (None, None) by design: checked natively, not under this contract)
        d0 = Int('dim')
        shape = (d0, d0)
        self_ = mkobj(repo, 'dynamics.Dynamics', _times=times, _states=states, _shape=shape)
        op = Vc('operator') if with_op else None
        want_op = uf('np_array', op) if with_op else uf('identity_matrix', d0)
        if with_op:
            ip.assume(op != NONE, 'an operator is given')
        ip.ghost['expect'] = {'op': want_op, 'states': states.copy()}
        return {'args': [self_], 'kwargs': ({'operator': op} if with_op else {}) | {'real': real}, 'self': self_, 'times': times.copy(), 'states': states.copy(),
                'n': n, 'op': want_op, 'real': real, 'inputs': {'n': n, 'operator given': with_op, 'real': real}}
    return scen


def post_expect(ip, ctx, out):
    if out.raised('AssertionError'):
        return ip.prove('path-accounted', z3.BoolVal(True))
    if not expect_no_other_exception(ip, out):
        return
    t, e = out.value
    from pyvc.lib import as_seq
    t, e = as_seq(t), as_seq(e)
    j = fresh_int('j')
    n = ctx['n']
    val = TR(MM(ctx['op'], ctx['states'].fn(j)))
    if ctx['real']:
        val = uf('real_part', val)
    ip.prove('dyn/expectations/aligned', z3.And(t.length == n, e.length == n,
             z3.Implies(z3.And(j >= 0, j < n), z3.And(t.fn(j) == ctx['times'].fn(j), e.fn(j) == val))))


_old_targets4 = targets


def targets(tier='quick'):
    T = _old_targets4(tier)
    # the time grid starts from the constructor's arguments: start_time / end_time reach the fields the grid contracts read
    from . import prep
    T += [t for t in prep.targets(PROP, lambda ob: {'func': 'api_time_grid', 'inputs': {'obligation': ob['name']}}) if t.name.startswith('api/')]
    for w in ('tempo_compute', 'pt_tempo_compute'):
        T += prep.wrapper_targets(PROP, w, lambda ob: {'func': 'api_time_grid', 'inputs': {'obligation': ob['name']}})
    RE = expect_registry()
    for with_op in (False, True):
        for real in (False, True):
            T.append(Target('dyn/expectations[operator=%s,real=%s]' % (with_op, real), 'dynamics.BaseDynamics.expectations', scen_expect(with_op, real), post_expect,
                            RE, PROP, replay=lambda ob: {'func': 'dynamics_expectations', 'inputs': {'obligation': ob['name']}}))
    return T
