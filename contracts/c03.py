"""C03 — contracting any process tensor reproduces the exact joint evolution (wiring part)."""
from .common import *
from . import wire

PROP = 'C03'


def targets(tier='quick'):
    return wire.targets_c03(PROP) + wire.targets_pt(PROP) + wire.targets_file(PROP) + [wire.OperatorsTarget(PROP), wire.LiouvillianTarget(PROP)]


META = {'level': 'proof', 'explanation': '', 'trusted_base': [], 'clauses': []}


# ---- input parsing of compute_dynamics (pyvc): dimensions, dt agreement, shortest PT
import z3
from pyvc.lib import INF


def parse_registry():
    R = Registry()
    R.model_bases['SysM'] = ['System', 'BaseSystem']
    R.model_bases['PTi'] = ['BaseProcessTensor']
    R.model_bases['CtlM'] = ['Control']

    @model
    def get_init(ip, args, kw):
        return args[0].fields['initial']
    R.models['PTi.get_initial_tensor'] = get_init
    return R


def scen_parse(npts, dt_given, steps_given, infinite=False):
    def scen(ip, repo):
        hs = Int('hs_dim')
        ip.assume(hs >= 1)
        pts = []
        for i in range(npts):
            pdt = Real('pt_dt_%d' % i) if (i % 2 == 0) else None       # some PTs store no dt
            ms = INF if infinite else Int('pt_len_%d' % i)
            if not infinite:
                ip.assume(ms >= 0)
            pts.append(Obj('PTi', {'hilbert_space_dimension': Int('pt_hs_%d' % i), 'dt': pdt, 'max_step': ms, 'initial': None}))
        dt = Real('dt_arg') if dt_given else None
        ns = Int('num_steps_arg') if steps_given else None
        init = Vc('rho0')
        ip.ghost.setdefault('vtypes', {})[str(init)] = {'ndarray', 'numpy.ndarray'}
        sys_ = Obj('SysM', {'dimension': hs})
        args = [False, sys_, init, dt, ns, Real('start_time'), pts, Obj('CtlM', {}), True]
        return {'args': args, 'pts': pts, 'dt': dt, 'ns': ns, 'hs': hs, 'infinite': infinite,
                'inputs': {'n_pts': npts, 'dt_given': dt_given, 'num_steps_given': steps_given}}
    return scen


def post_parse(ip, ctx, out):
    pts, dt, ns, hs = ctx['pts'], ctx['dt'], ctx['ns'], ctx['hs']
    stored = [p.fields['dt'] for p in pts if p.fields['dt'] is not None]
    dims_ok = z3.And([p.fields['hilbert_space_dimension'] == hs for p in pts] + [z3.BoolVal(True)])
    cands = ([dt] if dt is not None else []) + stored
    dt_ok = z3.And([cands[0] == c for c in cands[1:]] + [z3.BoolVal(True)]) if cands else z3.BoolVal(False)
    lens = [p.fields['max_step'] for p in pts]
    finite = bool(pts) and not ctx['infinite']
    if out.returned:
        r = out.value
        ip.prove('parse/dims', dims_ok)
        ip.prove('parse/dt', z3.And(dt_ok, r[2] == cands[0]) if cands else z3.BoolVal(False))
        if finite:
            shortest = lens[0]
            for l in lens[1:]:
                shortest = z3.If(l < shortest, l, shortest)
            ip.prove('parse/shortest', z3.And(r[3] <= shortest, (r[3] == ns) if ns is not None else (r[3] == shortest)))
        else:
            ip.prove('parse/shortest', z3.BoolVal(ns is not None) if ns is None else r[3] == ns)
        ip.prove('parse/passes-through', z3.BoolVal(r[0] is ctx['args'][1] and r[5] is pts or (r[5] == pts)))
    elif out.raised('ValueError') or out.raised('TypeError') or out.raised('OverflowError') or out.raised('NotImplementedError'):
        ip.prove('path-accounted', z3.BoolVal(True))          # rejected input
    else:
        expect_no_other_exception(ip, out)


_t_wire = targets


def targets(tier='quick'):
    T = _t_wire(tier)
    R = parse_registry()
    q = 'system_dynamics._compute_dynamics_input_parse'
    for npts in (0, 1, 2, 3):
        for dg in (False, True):
            for sg in (False, True):
                T.append(Target('parse/input[pts=%d,dt=%s,steps=%s]' % (npts, dg, sg), q, scen_parse(npts, dg, sg), post_parse, R, PROP))
    T.append(Target('parse/input[infinite PTs]', q, scen_parse(2, True, False, infinite=True), post_parse, R, PROP))
    T.append(Target('parse/input[infinite PTs, steps given]', q, scen_parse(2, True, True, infinite=True), post_parse, R, PROP))
    T.append(wire.OrderTarget(PROP))
    # the per-step schedule (recurrence of the property) and what is recorded: shared with C18
    from . import dyn, c18
    RD = dyn.cd_registry()
    for ne in (0, 1, 2):
        T.append(Target('dyn/schedule[envs=%d]' % ne, 'system_dynamics.compute_dynamics',
                        lambda ip, repo, ne=ne: dyn.cd_scenario(ip, repo, num_envs=ne), c18.post_cd_schedule, RD, PROP,
                        replay=lambda ob: {'func': 'exact_ancilla', 'inputs': {}}))
    # util.create_delta on its real body: the contract the targets above assume at its call sites
    from . import delta
    T += delta.targets(PROP)
    return T
