"""NodeArray list bookkeeping (C01/C02): contracts proved on the real split / join /
_parse_left_right_index, and the label model (the sequence of site tensors, as opaque values)
used by the clients BaseTempoBackend.compute_system_step and PtTempoBackend."""
import z3
from .common import *

IntS = z3.IntSort()
NODE = z3.Function('na_node', IntS, V)


# ---- the real functions
def na_obj(repo, nodes, name='A'):
    n = nodes.length
    f = z3.Function('be_' + name, IntS, V)
    g = z3.Function('ae_' + name, IntS, V)
    return mkobj(repo, 'backends.node_array.NodeArray', nodes=nodes, bond_edges=Seq(z3.If(n > 0, n - 1, 0), lambda i: f(i), 'list'),
                 array_edges=Seq(n, lambda i: g(i), 'list'), left_edge=Vc('le_' + name), right_edge=Vc('re_' + name),
                 backend=None, _name=name)


def na_registry():
    R = Registry()

    @model
    def m_ctor(ip, args, kw):
        tensors = args[0]
        if isinstance(tensors, list) and not tensors:
            o = mkobj(Repo(), 'backends.node_array.NodeArray', nodes=[], bond_edges=[], array_edges=[], left_edge=None,
                      right_edge=None, backend=kw.get('backend'), _name=kw.get('name'))
            return o
        raise Unsupported('NodeArray constructor with tensors in the list-contract targets')
    R.models['backends.node_array.NodeArray'] = m_ctor

    @model
    def m_copy(ip, args, kw):
        o = args[0]
        return Obj(o.cls, {k: (v.copy() if isinstance(v, Seq) else v) for k, v in o.fields.items()})
    R.models['backends.node_array.NodeArray.copy'] = m_copy
    return R


def scen_split(copy):
    def scen(ip, repo):
        n, idx = Int('n'), Int('index')
        ip.assume(n >= 0)
        a = na_obj(repo, Seq(n, lambda i: NODE(i), 'list'))
        return {'args': [a, idx], 'kwargs': {'copy': copy}, 'n': n, 'idx': idx, 'a': a, 'inputs': {'n': n, 'index': idx}}
    return scen


def post_split(ip, ctx, out):
    n, idx = ctx['n'], ctx['idx']
    k = z3.If(idx < 0, n + idx, idx)
    bad = z3.Or(k <= 0, k >= n)
    if out.raised('IndexError'):
        return ip.prove('na/split-raises-iff-out-of-range', bad)
    if not expect_no_other_exception(ip, out):
        return
    l, r = out.value
    ln, rn = as_seq_(l.fields['nodes']), as_seq_(r.fields['nodes'])
    j = fresh_int('j')
    ip.prove('na/split-lengths', z3.And(z3.Not(bad), ln.length == k, rn.length == n - k))
    ip.prove('na/split-content', z3.And(z3.Implies(z3.And(j >= 0, j < k), ln.fn(j) == NODE(j)),
                                        z3.Implies(z3.And(j >= 0, j < n - k), rn.fn(j) == NODE(k + j))))


def as_seq_(v):
    from pyvc.lib import as_seq
    return as_seq(v)


def scen_join(ip, repo):
    n, m = Int('n'), Int('m')
    ip.assume(z3.And(n >= 1, m >= 1))
    B = z3.Function('nb_node', IntS, V)
    a = na_obj(repo, Seq(n, lambda i: NODE(i), 'list'), 'A')
    b = na_obj(repo, Seq(m, lambda i: B(i), 'list'), 'B')
    ip.assume(z3.And(a.fields['right_edge'] != NONE, b.fields['left_edge'] != NONE))
    a.fields['rank_'] = b.fields['rank_'] = 1
    return {'args': [a, b], 'kwargs': {'copy': False}, 'n': n, 'm': m, 'B': B, 'inputs': {'n': n, 'm': m}}


def join_registry():
    R = na_registry()

    @model
    def m_rank(ip, args, kw):
        return 1
    R.models['backends.node_array.NodeArray.rank'] = m_rank
    return R


def post_join(ip, ctx, out):
    if not expect_no_other_exception(ip, out, allowed=('AssertionError',)):
        return
    if not out.returned:
        return ip.prove('path-accounted', z3.BoolVal(True))
    n, m, B = ctx['n'], ctx['m'], ctx['B']
    nodes = as_seq_(out.value.fields['nodes'])
    j = fresh_int('j')
    ip.prove('na/join-concat', z3.And(nodes.length == n + m, z3.Implies(z3.And(j >= 0, j < n), nodes.fn(j) == NODE(j)),
                                      z3.Implies(z3.And(j >= 0, j < m), nodes.fn(n + j) == B(j))))


def scen_lr(li, ri):
    def scen(ip, repo):
        la, lb = Int('len_a'), Int('len_b')
        ip.assume(z3.And(la >= 1, lb >= 1))
        a = Obj('Sized', {'n': la})
        b = Obj('Sized', {'n': lb})
        left = Int('left_index') if li else None
        right = Int('right_index') if ri else None
        return {'args': [a, b, left, right], 'la': la, 'lb': lb, 'left': left, 'right': right, 'inputs': {'len_a': la, 'len_b': lb}}
    return scen


def lr_registry():
    R = Registry()

    @model
    def m_len(ip, args, kw):
        return args[0].fields['n']
    R.models['Sized.__len__'] = m_len
    return R


def post_lr(ip, ctx, out):
    la, lb = ctx['la'], ctx['lb']
    if not out.returned:
        return ip.prove('path-accounted', z3.BoolVal(out.raised('AssertionError') or out.raised('IndexError')))
    l, r = out.value
    # site j of `a` meets element j - left of `b`; the span has exactly len(b) sites inside a
    ip.prove('na/zip-alignment', z3.And(to_int(r) - to_int(l) + 1 == lb, to_int(l) >= 0, to_int(r) < la))


def targets_na(prop):
    T = []
    R = na_registry()
    for cp in (True, False):
        T.append(Target('na/split[copy=%s]' % cp, 'backends.node_array.split', scen_split(cp), post_split, R, prop))
    T.append(Target('na/join', 'backends.node_array.join', scen_join, post_join, join_registry(), prop))
    RL = lr_registry()
    for li in (False, True):
        for ri in (False, True):
            T.append(Target('na/parse-index[left=%s,right=%s]' % (li, ri), 'backends.node_array._parse_left_right_index', scen_lr(li, ri), post_lr, RL, prop))
    return T


# ---- label model of a NodeArray for client contracts: the sequence of its site tensors
def client_models(R):
    @model
    def ctor(ip, args, kw):
        tensors = args[0]
        from pyvc.lib import as_seq
        return Obj('NA', {'sites': as_seq(tensors).copy('list'), 'left': kw.get('left', True), 'right': kw.get('right', True)})

    @model
    def copy(ip, args, kw):
        o = args[0]
        return Obj('NA', {'sites': o.fields['sites'].copy(), 'left': o.fields['left'], 'right': o.fields['right']})

    @model
    def length(ip, args, kw):
        return args[0].fields['sites'].length

    @model
    def split(ip, args, kw):
        a = args[0]
        index = kw.get('index', args[1] if len(args) > 1 else None)
        s = a.fields['sites'].copy()
        n = s.length
        k = z3.If(to_int(index) < 0, n + to_int(index), to_int(index))
        if not ip.decide(z3.And(k > 0, k < n), 'split-in-range'):
            raise PyRaise(ExcVal('IndexError', ('Index out of range.',)))
        l = Obj('NA', {'sites': Seq(k, s.fn, 'list'), 'left': a.fields['left'], 'right': True})
        r = Obj('NA', {'sites': Seq(n - k, lambda j: s.fn(k + j), 'list'), 'left': True, 'right': a.fields['right']})
        return l, r

    @model
    def join(ip, args, kw):
        a, b = args[0], args[1]
        sa, sb = a.fields['sites'].copy(), b.fields['sites'].copy()
        n = sa.length
        ip.prove('call/na.join/left-array-has-right-leg', z3.BoolVal(a.fields['right'] is True) if isinstance(a.fields['right'], bool) else a.fields['right'])
        return Obj('NA', {'sites': Seq(n + sb.length, lambda j: ite(j < n, sa.fn(j), sb.fn(j - n)), 'list'),
                          'left': a.fields['left'], 'right': b.fields['right']})

    def mut(name):
        @model
        def f(ip, args, kw):
            o = args[0]
            ip.log.append(('na-' + name, o, kw))
            return None
        return f
    R.models['backends.node_array.NodeArray'] = ctor
    R.models['backends.node_array.split'] = split
    R.models['backends.node_array.join'] = join
    R.models['NA.copy'] = copy
    R.models['NA.__len__'] = length
    for nm in ('apply_vector', 'svd_sweep'):
        R.models['NA.' + nm] = mut(nm)
    return R
