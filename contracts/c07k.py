"""C07, last clause — the bath-mode kernels of bath_dynamics.TwoTimeBathCorrelations._calc_kernel (engine: earr + sympy).

Closed form the property refers to (pure dephasing: the coupling operator O is conserved, so the system correlation
<O(t')O(t'')> = <O^2> is constant and real).  Exactly, for linear coupling  g_w O (a_w + a_w^+):
        a_w(t) = e^{-iwt} [ a_w(0) - i g_w O I_w(t) ],          I_w(t) = int_0^t e^{iws} ds
so in the interaction picture, for operators  x_2 in {a, a^+}  at (w2, t2)  and  x_1  at (w1, t1), t1 <= t2,
        change of <x_2 x_1>  =  sign * g_1 g_2 <O^2> * int_0^{t2} dt' int_0^{t1} dt''  e^{A t' + B t''},
        A = -i (2 dagg[0] - 1) w2,   B = -i (2 dagg[1] - 1) w1,   sign = +1 if dagg[0] != dagg[1] else -1.
The code has the system correlations only for ordered times (upper triangle: row = earlier time index i, column = later
time index j), so the rectangle [0,t2] x [0,t1] is folded onto t'' <= t':

  region a (i, j < s = t1/dt):   off-diagonal  cell(A,B; j,i) + cell(B,A; j,i)      diagonal  cell(A,B; i,i)  (whole square)
  region b (i < s <= j):         cell(A,B; j,i)
  region c (s <= i, j):          0
  below the diagonal:            0
  cell(A,B; j,i) = int_{j dt}^{(j+1) dt} dt' int_{i dt}^{(i+1) dt} dt''  e^{A t' + B t''}

`ker/re[...]`: the generic element of re_kernel returned by the REAL function equals sign * (the above), for every dagg,
for generic and for coinciding frequencies, for 0 < s < n, s = n and s = 0, with and without temperature.  Summed against a
constant real correlation this IS the closed form at every grid time (the cells tile the rectangle exactly).
im_kernel multiplies Im <O(t')O(t'')>, which vanishes identically for pure dephasing: the closed form does not constrain it
(not covered; only `ker/im-lower-triangle-zero` is stated).
"""
import time
import sympy as sp
from .common import *
from pyvc import earr
from pyvc.earr import SymV, EArr, I_, J_
from pyvc.interp import Interp
from pyvc.modules import Repo, describe
from pyvc import values as Vv

PROP = 'C07'


def cell(A, B, j, i, dt):
    tp, tpp = sp.symbols('tp tpp', real=True)
    return (sp.exp(A * (j + 1) * dt) - sp.exp(A * j * dt)) / A * (sp.exp(B * (i + 1) * dt) - sp.exp(B * i * dt)) / B


def _numeric(e, case, rnd):
    """value of e at a random point (undefined functions replaced by fixed smooth numeric ones)"""
    from sympy.core.function import AppliedUndef
    sub = {}
    for s in sorted(e.free_symbols, key=str):
        sub[s] = rnd.randint(1, 5) if s.is_integer else sp.Rational(rnd.randint(3, 40), 10)
    if I_ in sub and J_ in sub and case == 'off':
        sub[J_] = sub[I_] + rnd.randint(1, 3)
    e2 = e.subs(sub)

    def fn(x):
        k = sum(ord(ch) for ch in x.func.__name__) % 7 + 1
        return 2 + sp.sin(k + sum((j + 1) * a for j, a in enumerate(x.args)) * sp.Rational(3, 7))
    for _ in range(4):
        if not e2.atoms(AppliedUndef):
            break
        e2 = e2.replace(lambda x: isinstance(x, AppliedUndef) and not (x.atoms(AppliedUndef) - {x}), fn)
    return abs(complex(sp.N(e2, 30))), {str(k): str(v) for k, v in sub.items()}


class _Timeout(Exception):
    pass


def is_zero(e, syms, budget_s=20):
    """(True, None) identically zero (sympy) | (False, witness) numerically non-zero at a point | (None, None) undecided"""
    import random
    import signal
    if e == 0:
        return True, None
    rnd = random.Random(7)
    worst, wit = 0, None
    for _ in range(6):
        try:
            v, sub = _numeric(e, syms.get('case'), rnd)
        except Exception:       # noqa
            continue
        if v > worst:
            worst, wit = v, sub
    if worst > 1e-9:
        return False, dict(wit, value=worst)

    def handler(signum, frame):
        raise _Timeout()
    old = None
    try:
        old = signal.signal(signal.SIGALRM, handler)
        signal.setitimer(signal.ITIMER_REAL, budget_s)
    except ValueError:
        old = None              # not in the main thread: no budget
    try:
        e0 = sp.simplify(sp.expand(e.rewrite(sp.exp)))
        return (True, None) if e0 == 0 else (None, None)
    except _Timeout:
        return None, None
    finally:
        if old is not None:
            signal.setitimer(signal.ITIMER_REAL, 0)
            signal.signal(signal.SIGALRM, old)


class KernelTarget:
    """one run of the real _calc_kernel per (dagg, frequency configuration, position of t_1, temperature, diagonal case)"""

    def __init__(self, dagg):
        self.dagg = dagg
        self.prop, self.name, self.qualname = PROP, 'ker/_calc_kernel[dagg=%s]' % (dagg,), 'bath_dynamics.TwoTimeBathCorrelations._calc_kernel'

    def replay(self, ob):
        return {'func': 'bath_closed_form', 'inputs': {'obligation': ob['name'], 'dagg': list(self.dagg)}}

    def run(self, timeout_ms, tier):
        t0 = time.time()
        repo = Repo()
        res = {'target': self.name, 'function': self.qualname, 'property': self.prop, 'paths': 0, 'obligations': [], 'undecided': [], 'errors': [],
               'flags': ['REAL_FLOAT', 'ELEMENTWISE_SYMPY'], 'lib_pure': [],
               'lib_used': ['numpy.zeros, arange, meshgrid, exp, triu, diag, round as element-wise sympy terms'], 'functions_extra': []}
        fref = repo.resolve(self.qualname)
        if fref is None:
            res['undecided'].append('contract target missing: %s' % self.qualname)
            return res
        R = Registry()
        earr.install(R)
        dt = sp.Symbol('dt', positive=True)
        w1, w2 = sp.Symbol('w1', positive=True), sp.Symbol('w2', positive=True)
        T = sp.Symbol('T', positive=True)
        S, D = sp.Symbol('s', integer=True, positive=True), sp.Symbol('d', integer=True, positive=True)
        d0, d1 = self.dagg
        sign = 1 if d0 != d1 else -1
        for fcfg in ('generic', 'equal'):
            f2 = w2 if fcfg == 'generic' else w1
            A, B = -sp.I * (2 * d0 - 1) * f2, -sp.I * (2 * d1 - 1) * w1
            for pos in ('inside', 'end', 'start'):
                s_, n_ = {'inside': (S, S + D), 'end': (S, S), 'start': (sp.Integer(0), D)}[pos]
                for temp in ('T>0', 'T=0'):
                    for case in ('off', 'diag', 'low'):
                        Vv.reset_fresh()
                        ip = Interp(repo, R, [], solver_timeout_ms=timeout_ms)
                        ip.ghost['earr_case'] = case
                        ip.ghost['earr_generic'] = {w1, w2}
                        pt = mkobj(repo, 'process_tensor.SimpleProcessTensor', _dt=SymV(dt))
                        self_ = mkobj(repo, 'bath_dynamics.TwoTimeBathCorrelations', _process_tensor=pt, _temp=SymV(T) if temp == 'T>0' else 0)
                        label = '%s,t1 %s,%s,%s' % (fcfg, pos, temp, case)
                        try:
                            out = ip.call(fref, [self_, SymV(w1), SymV(s_ * dt), SymV(f2), SymV(n_ * dt), tuple(self.dagg)], {})
                            re_k, im_k = out
                        except Unsupported as u:
                            res['undecided'].append('unsupported construct in _calc_kernel [%s]: %s' % (label, u))
                            continue
                        except PyRaise as pr:
                            res['obligations'].append(self.ob('ker/no-exception[%s]' % label, False, {'exception': pr.exc.typ}))
                            continue
                        except (TypeError, ValueError) as ex:
                            res['undecided'].append('value outside the element-wise domain in _calc_kernel [%s]: %s' % (label, ex))
                            continue
                        res['paths'] += 1
                        regions = {'a': ((0, s_), (0, s_)), 'b': ((0, s_), (s_, n_)), 'c': ((s_, n_), (s_, n_))}
                        for rn, (rr, cc) in regions.items():
                            if sp.simplify((rr[1] - rr[0]) * (cc[1] - cc[0])) == 0:
                                continue
                            if rn == 'b' and case != 'off':
                                continue            # every cell of region b lies above the diagonal
                            if case == 'low':
                                want = sp.Integer(0)
                            elif rn == 'a':
                                want = sign * (cell(A, B, J_, I_, dt) + cell(B, A, J_, I_, dt)) if case == 'off' else sign * cell(A, B, I_, I_, dt)
                            elif rn == 'b':
                                want = sign * cell(A, B, J_, I_, dt)
                            else:
                                want = sp.Integer(0)
                            for nm, arr in (('re', re_k), ('im', im_k)):
                                if nm == 'im' and case != 'low':
                                    continue
                                got = self.element(arr, rr, cc)
                                if got is None:
                                    res['undecided'].append('cannot read region %s of %s_kernel [%s]' % (rn, nm, label))
                                    continue
                                diff = got - (want if nm == 're' else 0)
                                if case == 'diag':
                                    diff = diff.subs(J_, I_)
                                z, wit = is_zero(diff, {'case': case})
                                oname = ('ker/re[region %s,%s]' % (rn, label)) if nm == 're' else 'ker/im-lower-triangle-zero[region %s,%s]' % (rn, label)
                                if z is None:
                                    res['undecided'].append('sympy could not decide %s' % oname)
                                    continue
                                res['obligations'].append(self.ob(oname, z, {'element of the real function': str(got)[:400], 'required': str(want)[:400],
                                                                           'witness': wit}))
        res['functions_extra'].append(describe(fref))
        res['seconds'] = round(time.time() - t0, 3)
        return res

    @staticmethod
    def element(arr, rr, cc):
        if not isinstance(arr, EArr):
            return None
        for r, c, e in reversed(arr.pieces):
            inside = all(sp.simplify(x).is_nonnegative for x in (rr[0] - r[0], r[1] - rr[1], cc[0] - c[0], c[1] - cc[1]))
            if inside:
                return e
            # a piece that overlaps the region only partly: not a region of the contract
            disjoint = any(sp.simplify(x).is_nonnegative for x in (r[0] - rr[1], rr[0] - r[1], c[0] - cc[1], cc[0] - c[1]))
            if not disjoint:
                return None
        return None

    def ob(self, name, ok, info):
        return {'name': name, 'backend': 'sympy', 'flags': ['ELEMENTWISE_SYMPY'], 'info': info, 'model': info, 'pc_sat': 'sat',
                'result': 'discharged' if ok else 'refuted', 'seconds': 0.0}


def targets(tier='quick'):
    return [KernelTarget(d) for d in ((1, 0), (0, 1), (1, 1), (0, 0))]


# ---- generate_system_correlations: WHICH system correlations feed the bath kernels
def gsc_registry():
    from pyvc import tnnorm
    R = Registry()
    tnnorm.install(R)

    @model
    def m_cc(ip, args, kw):
        ip.ghost.setdefault('cc_calls', []).append((list(args), dict(kw)))
        return (Vc('times_returned'), Vc('new_correlations'))
    R.models['system_dynamics.compute_correlations'] = m_cc

    @model
    def m_pad(ip, args, kw):
        return Obj('CorrArr', {'padded': args[0]})

    @model
    def m_append(ip, args, kw):
        return Obj('CorrArr', {'appended': (args[0], args[1])})
    R.lib_models['numpy.pad'] = m_pad
    R.lib_models['numpy.append'] = m_append

    # the EMPTY array the constructor starts from (whatever spelling): only its shape and size matter here
    def _empty(shape):
        size = 1
        for n in shape:
            size *= n
        return Obj('CorrArr', {'shape': tuple(shape), 'size': size})

    @model
    def m_array(ip, args, kw):
        x, shape = args[0], []
        while isinstance(x, (list, tuple)):
            shape.append(len(x))
            x = x[0] if x else None
        if not shape or shape[-1] != 0:
            raise Unsupported('numpy.array of something else than an empty nested list')
        return _empty(shape)

    @model
    def m_zeros(ip, args, kw):
        sh = args[0] if isinstance(args[0], (tuple, list)) else (args[0],)
        if not all(isinstance(n, int) for n in sh):
            raise Unsupported('numpy.zeros/empty with a symbolic shape')
        return _empty(sh)
    R.lib_models['numpy.array'] = m_array
    for nm in ('zeros', 'empty', 'ndarray'):
        R.lib_models['numpy.' + nm] = m_zeros

    @model
    def m_none(ip, args, kw):
        return None
    R.models['PTm.get_initial_tensor'] = m_none
    return R


def scen_gsc(first):
    def scen(ip, repo):
        from pyvc.tnnorm import TArr
        U, D = TArr.sym('U', 2), TArr.sym('D', 2)
        bath = Obj('BathM', {'unitary_transform': U, 'coupling_operator': D})
        dt = Real('dt')
        ip.assume(dt > 0)
        pt = Obj('PTm', {'dt': dt})
        sysm, rho = Obj('SysM', {}), Vc('initial_state')
        n_old = Int('rows_so_far')
        ip.assume(n_old >= 0)
        if first:
            # the state the REAL constructor leaves behind (nothing generated yet)
            bath.fields['correlations'] = Obj('CorrM', {'temperature': Real('temperature')})
            self_ = mkobj_init(ip, repo, 'bath_dynamics.TwoTimeBathCorrelations', [sysm, bath, pt], {'initial_state': rho})
        else:
            corr = Obj('CorrArr', {'shape': (n_old, Int('cols_so_far')), 'size': Int('size_so_far')})
            ip.assume(corr.fields['size'] > 0)
            ip.assume(n_old >= 1)
            self_ = mkobj(repo, 'bath_dynamics.TwoTimeBathCorrelations', _system=sysm, _bath=bath, _process_tensor=pt, _initial_state=rho,
                          _system_correlations=corr)
        T = Real('final_time')
        return {'args': [self_, T], 'kwargs': {'progress_type': 'silent'}, 'self': self_, 'U': U, 'D': D, 'sys': sysm, 'pt': pt, 'rho': rho, 'n_old': n_old,
                'dt': dt, 'T': T, 'first': first, 'inputs': {'first call': first}}
    return scen


def post_gsc(ip, ctx, out):
    if not expect_no_other_exception(ip, out):
        return
    from pyvc.tnnorm import TArr, equal, einsum_spec
    calls = ip.ghost.get('cc_calls', [])
    n_new = round_half_even(to_real(ctx['T']) / ctx['dt'])          # int(np.round(final_time/dt)): the step of the latest time
    # which steps have to be computed: everything up to step n_new that is not there yet (a fresh object has NOTHING)
    have = z3.IntVal(0) if ctx['first'] else ctx['n_old']
    if not calls:
        return ip.prove('bathcorr/computes-what-is-missing', n_new <= have, {'steps requested': 'round(final_time/dt)', 'computations': 0,
                                                                              'fresh object': ctx['first']})
    ip.prove('bathcorr/one-computation', z3.BoolVal(len(calls) == 1))
    a, kw = calls[0]
    names = ['system', 'process_tensor', 'operator_a', 'operator_b', 'times_a', 'times_b']
    A = {n: (kw[n] if n in kw else (a[i] if i < len(a) else None)) for i, n in enumerate(names)}

    def is_slice(v, lo, hi):
        if not isinstance(v, SliceVal) or v.step not in (None, 1):
            return z3.BoolVal(False)
        start = z3.IntVal(0) if v.start is None else to_int(v.start)
        return z3.And(start == lo, to_int(v.stop) == hi) if v.stop is not None else z3.BoolVal(False)
    ip.prove('bathcorr/computes-what-is-missing', z3.And(n_new > have, is_slice(A['times_a'], 0, n_new), is_slice(A['times_b'], have, n_new)),
             {'times_a': repr(A['times_a']), 'times_b': repr(A['times_b']), 'required': 'rows slice(0, n), columns slice(steps already there, n)'})
    # U D U^+ :  U[a,x] D[x,y] conj(U)[b,y]
    from pyvc.tnnorm import tdot
    want = tdot(tdot(ctx['U'], ctx['D'], matmul=True), ctx['U'].pv_getattr(ip, 'conjugate').fn(ip, [], {}).pv_getattr(ip, 'T'), matmul=True)
    for nm in ('operator_a', 'operator_b'):
        got = A[nm]
        ip.prove('bathcorr/operator-is-the-coupling-operator[%s]' % nm, z3.BoolVal(isinstance(got, TArr) and equal(got, want)),
                 {'handed to compute_correlations': repr(got), 'required (U D U^+, the operator the bath couples to)': repr(want)})
    ip.prove('bathcorr/system-and-process-tensor', z3.BoolVal(A['system'] is ctx['sys'] and A['process_tensor'] is ctx['pt']))
    ip.prove('bathcorr/initial-state', z3.BoolVal(kw.get('initial_state') is ctx['rho']), {'handed over': repr(kw.get('initial_state'))})


def gsc_targets():
    R = gsc_registry()
    return [Target('bathcorr/generate_system_correlations[%s]' % ('first' if f else 'extend'), 'bath_dynamics.TwoTimeBathCorrelations.generate_system_correlations',
                   scen_gsc(f), post_gsc, R, PROP, replay=lambda ob: {'func': 'bath_closed_form', 'inputs': {'obligation': ob['name']}}) for f in (True, False)]


_kernel_targets = targets


def targets(tier='quick'):
    return _kernel_targets(tier) + gsc_targets()


# ---- occupation() and correlation(): how the kernels, the system correlations, the couplings and the thermal terms are put together
class LenOnly:
    """a list of which only the length is known"""
    def __init__(self, n):
        self.n = n

    def pv_len(self, ip):
        return self.n


class WrapperTarget:
    """real TwoTimeBathCorrelations.correlation / occupation with the REAL _calc_kernel inlined, generate_system_correlations a stub
    (its contract: bathcorr/*), the system correlations a generic array C[i,j] = cr + i ci, np.sum / np.cumsum / np.append opaque.
    Required (interaction picture, change only):   g_1 g_2 * SUM( Re C * K_R + i Im C * K_I )   with (K_R, K_I) = _calc_kernel(freq_1,
    time_1, freq_2, time_2, dagg) of the SAME arguments (time_2, freq_2 defaulting to time_1, freq_1), g_k = dw[k] sqrt(J(freq_k)),
    C cut to the first round(time_2/dt) rows and columns; plus the thermal occupation n(freq_1) iff not change_only, equal frequencies
    and one dagger (and + 1 for <a a^+>); times exp(i((2 dagg0 - 1) freq_2 time_2 + (2 dagg1 - 1) freq_1 time_1)) outside the
    interaction picture.  occupation(freq, dw): PREPEND(0, Re CUMSUM(SUM_axis0(Re C K_R + i Im C K_I)) J(freq) dw) with the kernel of
    (freq, T, freq, T, (1,0)), T = len(pt) dt, plus n(freq) iff not change_only and temperature > 0."""

    def __init__(self, which):
        self.which = which
        self.prop, self.name, self.qualname = PROP, 'bathcorr/%s' % which, 'bath_dynamics.TwoTimeBathCorrelations.%s' % which

    def replay(self, ob):
        return {'func': 'bath_closed_form', 'inputs': {'obligation': ob['name']}}

    def run(self, timeout_ms, tier):
        t0 = time.time()
        repo = Repo()
        res = {'target': self.name, 'function': self.qualname, 'property': self.prop, 'paths': 0, 'obligations': [], 'undecided': [], 'errors': [],
               'flags': ['REAL_FLOAT', 'ELEMENTWISE_SYMPY'], 'lib_pure': [], 'lib_used': ['numpy.sum, cumsum, append, arange as opaque functions'],
               'functions_extra': []}
        fref = repo.resolve(self.qualname)
        kref = repo.resolve('bath_dynamics.TwoTimeBathCorrelations._calc_kernel')
        if fref is None or kref is None:
            res['undecided'].append('contract target missing: %s' % self.qualname)
            return res
        res['functions_extra'].append(describe(fref))
        R = Registry()
        earr.install(R)

        @model
        def m_gsc(ip, args, kw):
            ip.ghost.setdefault('gsc_calls', []).append(list(args[1:]))
        R.models['bath_dynamics.TwoTimeBathCorrelations.generate_system_correlations'] = m_gsc
        Jf = sp.Function('J', positive=True)

        @model
        def m_sd(ip, args, kw):
            return SymV(Jf(earr.to_sym(args[1])))
        R.models['CorrM.spectral_density'] = m_sd
        dt = sp.Symbol('dt', positive=True)
        w1, w2, T = sp.Symbol('w1', positive=True), sp.Symbol('w2', positive=True), sp.Symbol('T', positive=True)
        S, D, M = [sp.Symbol(n, integer=True, positive=True) for n in ('s', 'd', 'm')]
        dw1, dw2 = sp.Symbol('dw1', positive=True), sp.Symbol('dw2', positive=True)
        cr, ci = sp.Function('cr', real=True)(I_, J_), sp.Function('ci', real=True)(I_, J_)
        agg = {}

        def note(name, ok, info):
            a = agg.setdefault(name, {'ok': True, 'n': 0, 'first': None})
            a['n'] += 1
            if ok is None:
                a['und'] = True
            elif not ok and a['ok']:
                a['ok'], a['first'] = False, info

        def mkself(ip, temp, n_pt):
            pt = mkobj(repo, 'process_tensor.SimpleProcessTensor', _dt=SymV(dt), _mpo_tensors=LenOnly(SymV(n_pt)))
            bath = Obj('BathM', {'correlations': Obj('CorrM', {})})
            C = EArr(2, (sp.Integer(0), n_pt + M), (sp.Integer(0), n_pt + M), cr + sp.I * ci)
            return mkobj(repo, 'bath_dynamics.TwoTimeBathCorrelations', _process_tensor=pt, _bath=bath, _temp=(SymV(T) if temp else 0),
                         _system_correlations=C)

        def n_th(w, temp):
            return sp.exp(-w / T) / (1 - sp.exp(-w / T)) if temp else sp.Integer(0)

        def same_pieces(got, re_k, im_k, rr, cc, case):
            g = KernelTarget.element(got, rr, cc)
            a, b = KernelTarget.element(re_k, rr, cc), KernelTarget.element(im_k, rr, cc)
            if g is None or a is None or b is None:
                return None
            d = g - (cr * a + sp.I * ci * b)
            if case == 'diag':
                d = d.subs(J_, I_)
            return is_zero(d, {'case': case})[0]
        configs = []
        if self.which == 'correlation':
            for dagg in ((1, 0), (0, 1), (1, 1), (0, 0)):
                for fcfg in ('generic', 'equal', 'default'):
                    for pos in ('inside', 'end', 'default'):
                        for temp in (True, False):
                            for ipic in (True, False):
                                for co in (True, False):
                                    if tier == 'quick':
                                        # one configuration per value of every switch, plus the thermal / phase / default-argument corners
                                        full = (dagg, fcfg, pos) in (((1, 0), 'generic', 'inside'), ((0, 1), 'equal', 'end'), ((1, 1), 'default', 'default'),
                                                                     ((0, 0), 'equal', 'inside'), ((0, 1), 'default', 'inside'), ((1, 0), 'equal', 'default'))
                                        if not full or (temp is False and (ipic or co)):
                                            continue
                                    configs.append((dagg, fcfg, pos, temp, ipic, co))
        else:
            for temp in (True, False):
                for co in (True, False):
                    configs.append(((1, 0), 'equal', 'end', temp, True, co))
        for (dagg, fcfg, pos, temp, ipic, co) in configs:
            for case in ('off', 'diag'):
                label = 'dagg=%s,%s,t1 %s,%s,%s,%s,%s' % (dagg, fcfg, pos, 'T>0' if temp else 'T=0', 'interaction picture' if ipic else 'lab frame',
                                                        'change only' if co else 'total', case)
                Vv.reset_fresh()
                ip = Interp(repo, R, [], solver_timeout_ms=timeout_ms)
                ip.ghost['earr_case'] = case
                ip.ghost['earr_generic'] = {w1, w2}
                f2 = w2 if fcfg == 'generic' else w1
                s_, n_ = (S, S + D) if pos == 'inside' else (S, S)
                try:
                    if self.which == 'correlation':
                        self_ = mkself(ip, temp, n_)
                        kw = {'dw': (SymV(dw1), SymV(dw2)), 'dagg': tuple(dagg), 'interaction_picture': ipic, 'change_only': co, 'progress_type': 'silent'}
                        if fcfg != 'default':
                            kw['freq_2'] = SymV(f2)
                        if pos != 'default':
                            kw['time_2'] = SymV(n_ * dt)
                        out = ip.call(fref, [self_, SymV(w1), SymV(s_ * dt)], kw)
                        ref = ip.call(kref, [self_, SymV(w1), SymV(s_ * dt), SymV(f2), SymV(n_ * dt), tuple(dagg)], {})
                    else:
                        self_ = mkself(ip, temp, n_)
                        out = ip.call(fref, [self_, SymV(w1)], {'dw': SymV(dw1), 'change_only': co, 'progress_type': 'silent'})
                        ref = ip.call(kref, [self_, SymV(w1), SymV(n_ * dt), SymV(w1), SymV(n_ * dt), (1, 0)], {})
                except Unsupported as u:
                    res['undecided'].append('unsupported construct in %s [%s]: %s' % (self.which, label, u))
                    continue
                except PyRaise as pr:
                    note('bathcorr/%s/no-exception' % self.which, False, {'configuration': label, 'exception': pr.exc.typ})
                    continue
                except (TypeError, ValueError, AttributeError) as ex:
                    res['undecided'].append('value outside the element-wise domain in %s [%s]: %s' % (self.which, label, ex))
                    continue
                res['paths'] += 1
                sums = ip.ghost.get('earr_sums', [])
                regions = {'a': ((0, s_), (0, s_)), 'b': ((0, s_), (s_, n_)), 'c': ((s_, n_), (s_, n_))}
                regions = {k: v for k, v in regions.items() if sp.simplify((v[0][1] - v[0][0]) * (v[1][1] - v[1][0])) != 0}
                if self.which == 'correlation':
                    val = out.e if isinstance(out, SymV) else None
                    SUM = sp.Function('SUM')(sp.Integer(0))
                    want = sp.sqrt(Jf(w1)) * dw1 * sp.sqrt(Jf(f2)) * dw2 * SUM
                    if (not co) and fcfg != 'generic' and dagg in ((1, 0), (0, 1)):
                        want += n_th(w1, temp) + (1 if dagg == (0, 1) else 0)
                    if not ipic:
                        want *= sp.exp(sp.I * ((2 * dagg[0] - 1) * f2 * n_ * dt + (2 * dagg[1] - 1) * w1 * s_ * dt))
                    ok = None if val is None else is_zero(val - want, {})[0]
                    note('bathcorr/correlation/assembly', ok, {'configuration': label, 'returned': str(val)[:300], 'required': str(want)[:300]})
                    want_axis = None
                else:
                    val = out[1].e if isinstance(out, tuple) and len(out) == 2 and isinstance(out[1], SymV) else None
                    SUM = sp.Function('SUM_axis0')(sp.Integer(0))
                    want = sp.Function('PREPEND')(sp.Integer(0), sp.re(sp.Function('CUMSUM')(SUM)) * Jf(w1) * dw1)
                    if not co:
                        want += n_th(w1, temp)
                    ok = None if val is None else is_zero(val - want, {})[0]
                    note('bathcorr/occupation/assembly', ok, {'configuration': label, 'returned': str(val)[:300], 'required': str(want)[:300]})
                    want_axis = 0
                    # the time axis returned alongside: len(pt) + 1 grid times k dt (one per returned value), whatever dt is in floating point
                    tl = out[0] if isinstance(out, tuple) and len(out) == 2 else None
                    if isinstance(tl, EArr) and tl.rank == 1 and len(tl.pieces) == 1:
                        okt = bool(sp.simplify(tl.rows[0]) == 0 and sp.simplify(tl.rows[1] - (n_ + 1)) == 0 and is_zero(tl.single - earr.I_ * dt, {})[0])
                    elif isinstance(tl, SymV) and tl.e.has(sp.Function('ARANGE')):
                        okt = False      # np.arange(start, stop, step) with float arguments: the NUMBER of elements depends on rounding
                    else:
                        okt = None
                    note('bathcorr/occupation/time-axis', okt, {'configuration': label, 'returned': repr(tl)[:200], 'required': 'arange(len(pt) + 1) * dt'})
                if len(sums) != 1 or sums[0][1] != want_axis:
                    note('bathcorr/%s/integrand' % self.which, False, {'configuration': label, 'sums taken': len(sums)})
                    continue
                for rn, (rr, cc) in regions.items():
                    if rn == 'b' and case != 'off':
                        continue
                    ok = same_pieces(sums[0][0], ref[0], ref[1], rr, cc, case)
                    note('bathcorr/%s/integrand' % self.which, ok, {'configuration': label, 'region': rn})
                gc = ip.ghost.get('gsc_calls', [])
                okg = len(gc) == 1 and isinstance(gc[0][0], SymV) and sp.simplify(gc[0][0].e - n_ * dt) == 0
                note('bathcorr/%s/correlations-generated-up-to-the-later-time' % self.which, okg, {'configuration': label, 'calls': repr(gc)[:200]})
        for name, a in sorted(agg.items()):
            info = {'configurations': a['n'], 'first failing': a['first']}
            if a.get('und') and a['ok']:
                res['undecided'].append('sympy could not decide %s in some configuration' % name)
                continue
            res['obligations'].append({'name': name, 'backend': 'sympy', 'flags': ['ELEMENTWISE_SYMPY'], 'info': info, 'model': info, 'pc_sat': 'sat',
                                       'result': 'discharged' if a['ok'] else 'refuted', 'seconds': 0.0})
        res['seconds'] = round(time.time() - t0, 3)
        return res


_t_gsc = targets


def targets(tier='quick'):
    return _t_gsc(tier) + [WrapperTarget('correlation'), WrapperTarget('occupation')]
