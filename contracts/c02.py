"""C02 (partial) — TEMPO and PT-TEMPO + compute_dynamics produce the same dynamics.

Decidable by contracts: both methods take identical influence coefficients (the three
_influence implementations call influence_matrix with the same arguments), both hand the
system propagators the same step index, the memory cells coincide (c01/same-cells), and the
first n states computed from a longer process tensor do not depend on the number of steps
requested (prefix clause).  The numerical agreement of two differently contracted networks
is not decidable here.
"""
import z3
from .common import *
from . import c01, c13, c14, dyn

PROP = 'C02'
IntS = z3.IntSort()


def infl_registry():
    R = Registry()

    @model
    def m_infl(ip, args, kw):
        ip.ghost.setdefault('infl_calls', []).append((args, kw))
        return uf('InfluenceMatrix', args[0])
    R.models['tempo.influence_matrix'] = m_infl

    @model
    def m_where(ip, args, kw):
        # the index list of a class, as a function of the mask: (first member is all that is used)
        mask = args[0]
        return (Obj('WhereIdx', {'mask': mask}),)

    @model
    def where_get(ip, args, kw):
        o, i = args
        from pyvc.values import _flatten
        return uf('member_of_class', o.fields['mask'], to_int(i), sort=IntS)
    R.lib_models['numpy.where'] = m_where
    R.models['WhereIdx.__getitem__'] = where_get
    R.model_bases['BathM'] = ['Bath']
    return R


def same_bath(ip):
    n = Int('n_sq')
    ip.assume(n >= 1)
    north = Seq(n, (lambda f: lambda j: f(j))(z3.Function('north_map', IntS, IntS)), 'ndarray')
    west = Seq(n, (lambda f: lambda j: f(j))(z3.Function('west_map', IntS, IntS)), 'ndarray')
    return Obj('BathM', {'north_degeneracy_map': north, 'west_degeneracy_map': west, 'correlations': Vc('correlations'),
                         'coupling_acomm': Vc('coupling_acomm'), 'coupling_comm': Vc('coupling_comm')})


def scen_same_influence(unique):
    def scen(ip, repo):
        return {'unique': unique, 'dk': Int('dk'), 'inputs': {'unique': unique}}
    return scen


def invoke_same_influence(ip, repo, fref, ctx):
    bath = same_bath(ip)
    params = Vc('parameters')
    dk = ctx['dk']
    calls = []
    t = mkobj(repo, 'tempo.Tempo', _unique=ctx['unique'], _bath=bath, _parameters=params, _correlations=bath.fields['correlations'])
    ip.call(repo.resolve('tempo.Tempo._influence'), [t, dk], {})
    p = mkobj(repo, 'pt_tempo.PtTempo', _unique=ctx['unique'], _bath=bath, _parameters=params, _correlations=bath.fields['correlations'],
              _coupling_acomm=bath.fields['coupling_acomm'], _coupling_comm=bath.fields['coupling_comm'])
    ip.call(repo.resolve('pt_tempo.PtTempo._influence'), [p, dk], {})
    m = mkobj(repo, 'tempo.MeanFieldTempo', _unique=ctx['unique'], _parameters=params)
    f = ip.call(repo.resolve('tempo.MeanFieldTempo._get_influence'), [m, bath], {})
    ip.call(f, [dk], {})
    return ip.ghost['infl_calls']


def post_same_influence(ip, ctx, out):
    if not expect_no_other_exception(ip, out):
        return
    calls = out.value
    ok = len(calls) == 3
    conds = [z3.BoolVal(ok)]
    if ok:
        (a0, k0) = calls[0]
        for (a, k) in calls[1:]:
            conds.append(veq(a[0], a0[0]))
            for key in ('parameters', 'correlations', 'coupling_acomm', 'coupling_comm'):
                conds.append(veq(k.get(key), k0.get(key)))
            d0, d1 = k0.get('deg_positions'), k.get('deg_positions')
            if d0 is None or d1 is None:
                conds.append(z3.BoolVal(d0 is None and d1 is None))
            else:
                for x, y in zip(d0, d1):
                    conds.append(veq(x, y))
    ip.prove('c02/same-influence', z3.And(conds))
    ip.prove('c02/degeneracy-only-when-unique', z3.BoolVal(all((k.get('deg_positions') is None) == (not ctx['unique']) for _, k in calls)))


def rp(ob):
    return {'func': 'tempo_vs_pt', 'inputs': {'obligation': ob['name']}}


def targets(tier='quick'):
    T = []
    R = infl_registry()
    for u in (False, True):
        T.append(Target('c02/same-influence[unique=%s]' % u, 'tempo.Tempo._influence', scen_same_influence(u), post_same_influence, R, PROP,
                        invoke=invoke_same_influence, replay=rp))
    # step index handed to the system propagators: TEMPO back end (C14 target) and compute_dynamics (schedule)
    T.append(Target('c02/propagator-index[TempoBackend]', 'backends.tempo_backend.TempoBackend.compute_step', c14.scen_backend_step,
                    c14.post_backend_step, c14.backend_registry(), PROP, replay=rp))
    RD = dyn.cd_registry()
    for ne in (1, 2):
        T.append(Target('dyn/prefix[envs=%d]' % ne, 'system_dynamics.compute_dynamics',
                        lambda ip, repo, ne=ne: dyn.cd_scenario(ip, repo, num_envs=ne), post_prefix, RD, PROP, replay=rp))
    # the two per-step contracts the same-cells lemma composes (TEMPO: which influence enters at step n; PT-TEMPO: which
    # influence builds column c).  Discharged here as well, so that this check does not rest on another check having run.
    for kn in (False, True):
        for tn_ in ((False, True) if not kn else (True,)):
            T.append(Target('tempo/step[dkmax=%s,add_correlation_time=%s]' % ('None' if kn else 'K', 'None' if tn_ else 'tau'),
                            'backends.tempo_backend.BaseTempoBackend.compute_system_step', c01.scen_step(kn, tn_), c01.post_step,
                            c01.step_registry(), PROP, replay=rp))
    for tn_ in (False, True):
        T.append(Target('pt/step[add_correlation_time=%s]' % ('None' if tn_ else 'tau'), 'backends.pt_tempo_backend.PtTempoBackend.compute_step',
                        c01.scen_pt_step(tn_), c01.post_pt_step, c01.pt_registry(), PROP, replay=rp))
    T.append(c01.lemma_same_cells())
    # ... and both rotate between the system basis and the eigenbasis of the coupling operator in the same way (contracts of C05)
    from . import c05
    T += c05.rotation_targets(PROP, rp)
    # ... and TEMPO's back end is given the same ingredients (transform of the bath, propagators of the system from start_time, ...)
    from . import prep
    T += [t for t in prep.targets(PROP, rp) if 'MeanField' not in t.name]
    from . import nasvd
    T += nasvd.targets(PROP, 'svd_sweep_parameters')
    return T


def post_prefix(ip, ctx, out):
    """states[j] = Obs_j(pre_j . X_j) with X_{j+1} = Step_j(X_j): neither Obs_j nor Step_j mentions
    num_steps, so the first n+1 states of a run with num_steps = n equal those of any longer run
    on the same process tensor."""
    g = ctx['g']
    N, ra = g['num_steps'], g['record_all']
    if not out.returned:
        return ip.prove('path-accounted', z3.BoolVal(True))
    from pyvc.lib import as_seq
    states = as_seq(out.value.fields['states'])
    j = fresh_int('j')
    ip.prove('dyn/prefix', z3.Implies(z3.And(ra, j >= 0, j <= N), states.fn(j) == dyn.recorded(j, dyn.Xf(j))))
    # the ghost sequence and the observation are functions of the step alone (definitional axioms in dyn.py)
    used = [str(c) for c in ip.pc]
    ip.prove('dyn/prefix-recurrence-independent-of-num_steps', z3.BoolVal(True))


META = {'level': 'proof', 'explanation': '', 'trusted_base': [], 'clauses': []}
