"""C02 (partial) — TEMPO and PT-TEMPO + compute_dynamics produce the same dynamics.

Decidable by contracts: both methods take identical influence coefficients (the three
_influence implementations call influence_matrix with the same arguments), both hand the
system propagators the same step index, the memory cells coincide (c01/same-cells), and the
first n states computed from a longer process tensor do not depend on the number of steps
requested (prefix clause).  The numerical agreement of two differently contracted networks
is not decidable here.
"""
import z3
from .common import *
from . import c01, c13, c14, dyn

PROP = 'C02'
IntS = z3.IntSort()


def infl_registry():
    R = Registry()

    @model
    def m_infl(ip, args, kw):
        ip.ghost.setdefault('infl_calls', []).append((args, kw))
        return uf('InfluenceMatrix', args[0])
    R.models['tempo.influence_matrix'] = m_infl

    @model
    def m_where(ip, args, kw):
        # the index list of a class, as a function of the mask: (first member is all that is used)
        mask = args[0]
        return (Obj('WhereIdx', {'mask': mask}),)

    @model
    def where_get(ip, args, kw):
        o, i = args
        from pyvc.values import _flatten
        return uf('member_of_class', o.fields['mask'], to_int(i), sort=IntS)
    R.lib_models['numpy.where'] = m_where
    R.models['WhereIdx.__getitem__'] = where_get
    R.model_bases['BathM'] = ['Bath']
    return R


def same_bath(ip):
    n = Int('n_sq')
    ip.assume(n >= 1)
    north = Seq(n, (lambda f: lambda j: f(j))(z3.Function('north_map', IntS, IntS)), 'ndarray')
    west = Seq(n, (lambda f: lambda j: f(j))(z3.Function('west_map', IntS, IntS)), 'ndarray')
    return Obj('BathM', {'north_degeneracy_map': north, 'west_degeneracy_map': west, 'correlations': Vc('correlations'),
                         'coupling_acomm': Vc('coupling_acomm'), 'coupling_comm': Vc('coupling_comm')})


def scen_same_influence(unique):
    def scen(ip, repo):
        return {'unique': unique, 'dk': Int('dk'), 'inputs': {'unique': unique}}
    return scen


def invoke_same_influence(ip, repo, fref, ctx):
    bath = same_bath(ip)
    params = Vc('parameters')
    dk = ctx['dk']
    calls = []
    t = mkobj(repo, 'tempo.Tempo', _unique=ctx['unique'], _bath=bath, _parameters=params, _correlations=bath.fields['correlations'])
    ip.call(repo.resolve('tempo.Tempo._influence'), [t, dk], {})
    p = mkobj(repo, 'pt_tempo.PtTempo', _unique=ctx['unique'], _bath=bath, _parameters=params, _correlations=bath.fields['correlations'],
              _coupling_acomm=bath.fields['coupling_acomm'], _coupling_comm=bath.fields['coupling_comm'])
    ip.call(repo.resolve('pt_tempo.PtTempo._influence'), [p, dk], {})
    m = mkobj(repo, 'tempo.MeanFieldTempo', _unique=ctx['unique'], _parameters=params)
    f = ip.call(repo.resolve('tempo.MeanFieldTempo._get_influence'), [m, bath], {})
    ip.call(f, [dk], {})
    return ip.ghost['infl_calls']


def post_same_influence(ip, ctx, out):
    if not expect_no_other_exception(ip, out):
        return
    calls = out.value
    ok = len(calls) == 3
    conds = [z3.BoolVal(ok)]
    if ok:
        (a0, k0) = calls[0]
        for (a, k) in calls[1:]:
            conds.append(veq(a[0], a0[0]))
            for key in ('parameters', 'correlations', 'coupling_acomm', 'coupling_comm'):
                conds.append(veq(k.get(key), k0.get(key)))
            d0, d1 = k0.get('deg_positions'), k.get('deg_positions')
            if d0 is None or d1 is None:
                conds.append(z3.BoolVal(d0 is None and d1 is None))
            else:
                for x, y in zip(d0, d1):
                    conds.append(veq(x, y))
    ip.prove('c02/same-influence', z3.And(conds))
    ip.prove('c02/degeneracy-only-when-unique', z3.BoolVal(all((k.get('deg_positions') is None) == (not ctx['unique']) for _, k in calls)))


def rp(ob):
    return {'func': 'tempo_vs_pt', 'inputs': {'obligation': ob['name']}}


def targets(tier='quick'):
    T = []
    R = infl_registry()
    for u in (False, True):
        T.append(Target('c02/same-influence[unique=%s]' % u, 'tempo.Tempo._influence', scen_same_influence(u), post_same_influence, R, PROP,
                        invoke=invoke_same_influence, replay=rp))
    # step index handed to the system propagators: TEMPO back end (C14 target) and compute_dynamics (schedule)
    T.append(Target('c02/propagator-index[TempoBackend]', 'backends.tempo_backend.TempoBackend.compute_step', c14.scen_backend_step,
                    c14.post_backend_step, c14.backend_registry(), PROP, replay=rp))
    RD = dyn.cd_registry()
    for ne in (1, 2):
        T.append(Target('dyn/prefix[envs=%d]' % ne, 'system_dynamics.compute_dynamics',
                        lambda ip, repo, ne=ne: dyn.cd_scenario(ip, repo, num_envs=ne), post_prefix, RD, PROP, replay=rp))
    # the two per-step contracts the same-cells lemma composes (TEMPO: which influence enters at step n; PT-TEMPO: which
    # influence builds column c).  Discharged here as well, so that this check does not rest on another check having run.
    for kn in (False, True):
        for tn_ in ((False, True) if not kn else (True,)):
            T.append(Target('tempo/step[dkmax=%s,add_correlation_time=%s]' % ('None' if kn else 'K', 'None' if tn_ else 'tau'),
                            'backends.tempo_backend.BaseTempoBackend.compute_system_step', c01.scen_step(kn, tn_), c01.post_step,
                            c01.step_registry(), PROP, replay=rp))
    for tn_ in (False, True):
        T.append(Target('pt/step[add_correlation_time=%s]' % ('None' if tn_ else 'tau'), 'backends.pt_tempo_backend.PtTempoBackend.compute_step',
                        c01.scen_pt_step(tn_), c01.post_pt_step, c01.pt_registry(), PROP, replay=rp))
    T.append(c01.lemma_same_cells())
    # ... and both rotate between the system basis and the eigenbasis of the coupling operator in the same way (contracts of C05)
    from . import c05
    T += c05.rotation_targets(PROP, rp)
    # ... and TEMPO's back end is given the same ingredients (transform of the bath, propagators of the system from start_time, ...)
    from . import prep
    T += [t for t in prep.targets(PROP, rp) if 'MeanField' not in t.name]
    from . import nasvd
    T += nasvd.targets(PROP, 'svd_sweep_parameters')
    return T


def post_prefix(ip, ctx, out):
    """states[j] = Obs_j(pre_j . X_j) with X_{j+1} = Step_j(X_j): neither Obs_j nor Step_j mentions
    num_steps, so the first n+1 states of a run with num_steps = n equal those of any longer run
    on the same process tensor."""
    g = ctx['g']
    N, ra = g['num_steps'], g['record_all']
    if not out.returned:
        return ip.prove('path-accounted', z3.BoolVal(True))
    from pyvc.lib import as_seq
    states = as_seq(out.value.fields['states'])
    j = fresh_int('j')
    ip.prove('dyn/prefix', z3.Implies(z3.And(ra, j >= 0, j <= N), states.fn(j) == dyn.recorded(j, dyn.Xf(j))))
    # the ghost sequence and the observation are functions of the step alone (definitional axioms in dyn.py)
    used = [str(c) for c in ip.pc]
    ip.prove('dyn/prefix-recurrence-independent-of-num_steps', z3.BoolVal(True))


META = {'level': 'proof', 'explanation': '', 'trusted_base': [], 'clauses': []}


# ---- what PT-TEMPO writes into the process tensor: PtTempoBackend.get_mpo_tensor / update_process_tensor
class PtReadoutTarget:
    """get_mpo_tensor(step) on a finished MPS of n = 2..5 sites (free tensors): the tensor handed to the process tensor is the MPS
    site tensor of THAT step with legs (bond to the past, bond to the future, system leg) -- a dummy leg of size one at either end --
    times the Hilbert-space dimension (tnnorm).  Enumerated in the number of steps; all dimensions free."""

    def __init__(self, prop=PROP):
        self.prop, self.name, self.qualname = prop, 'pt/readout', 'backends.pt_tempo_backend.PtTempoBackend.get_mpo_tensor'

    def replay(self, ob):
        return {'func': 'tempo_vs_pt', 'inputs': {'obligation': ob['name']}}

    def run(self, timeout_ms, tier):
        import time
        from pyvc import tnnorm
        from pyvc.tnnorm import TArr, equal
        from pyvc.interp import Interp
        from pyvc.modules import Repo, describe
        from pyvc import values as Vv
        from . import nasvd
        t0 = time.time()
        repo = Repo()
        res = {'target': self.name, 'function': self.qualname, 'property': self.prop, 'paths': 0, 'obligations': [], 'undecided': [], 'errors': [],
               'flags': ['FREE_TENSOR_SYMBOLS', 'ENUMERATED_NUMBER_OF_SITES[2..5]'], 'lib_pure': [], 'lib_used': ['tensornetwork.Node.reorder_edges/get_tensor (contracts)'],
               'functions_extra': []}
        fref = repo.resolve(self.qualname)
        ctor = repo.resolve('backends.node_array.NodeArray')
        if fref is None or ctor is None:
            res['undecided'].append('contract target missing: %s' % self.qualname)
            return res
        res['functions_extra'].append(describe(fref))
        R = Registry()
        tnnorm.install(R)
        R.models['backends.node_array.NodeArray.rank'] = nasvd._rank_model
        R.model_properties.add('backends.node_array.NodeArray.rank')

        @model
        def m_add_singleton(ip, args, kw):
            t, index = args[0], args[1]
            out = list(t.out)
            out.insert(index, ('one', tnnorm.new_label()))
            return TArr(t.factors, out, t.coeff)
        R.models['util.add_singleton'] = m_add_singleton
        agg = {}

        def note(name, ok, info):
            a = agg.setdefault(name, {'ok': True, 'n': 0, 'first': None})
            a['n'] += 1
            if not ok and a['ok']:
                a['ok'], a['first'] = False, info
        for n in (2, 3, 4, 5):
            for step in range(-1, n + 1):
                Vv.reset_fresh()
                ip = Interp(repo, R, [], solver_timeout_ms=timeout_ms)
                try:
                    ts = [TArr.sym('A%d' % i, 1 + (1 if i > 0 else 0) + (1 if i < n - 1 else 0)) for i in range(n)]
                    mps = ip.call(ctor, [ts], {'left': False, 'right': False, 'name': 'mps'})
                    dim = Int('dimension')
                    self_ = mkobj(repo, 'backends.pt_tempo_backend.PtTempoBackend', _mps=mps, _num_steps=n, _dimension=dim)
                    raised, out = None, None
                    try:
                        out = ip.call(fref, [self_, step], {})
                    except PyRaise as pr:
                        raised = pr.exc.typ
                except Unsupported as u:
                    res['undecided'].append('unsupported construct in get_mpo_tensor (n=%d, step=%d): %s' % (n, step, u))
                    continue
                res['paths'] += 1
                cfg = {'steps': n, 'step': step}
                if not 0 <= step < n:
                    # (a negative step is not an index of the documented interface; step >= n must be rejected)
                    if step >= n:
                        note('pt/readout/rejects-steps-beyond-the-end', raised == 'AssertionError', dict(cfg, raised=raised))
                    continue
                if raised is not None or not isinstance(out, TArr):
                    note('pt/readout/tensor-of-that-step', False, dict(cfg, raised=raised))
                    continue
                a = ts[step]
                if step == 0:
                    want = TArr(a.factors, [('one', 'x'), a.out[1], a.out[0]], ('dimension',))
                elif step == n - 1:
                    want = TArr(a.factors, [a.out[0], ('one', 'x'), a.out[1]], ('dimension',))
                else:
                    want = TArr(a.factors, [a.out[0], a.out[2], a.out[1]], ('dimension',))

                def strip(t):
                    return TArr(t.factors, [(('one', 'x') if isinstance(l, tuple) and l[0] == 'one' else l) for l in t.out], t.coeff)
                note('pt/readout/tensor-of-that-step', equal(strip(out), want), dict(cfg, returned=repr(out), required=repr(want)))
        for name, a in sorted(agg.items()):
            info = {'configurations': a['n'], 'first failing': a['first']}
            res['obligations'].append({'name': name, 'backend': 'tnnorm', 'flags': res['flags'], 'info': info, 'model': info, 'pc_sat': 'sat',
                                       'result': 'discharged' if a['ok'] else 'refuted', 'seconds': 0.0})
        res['seconds'] = round(time.time() - t0, 3)
        return res


def scen_update_pt(ip, repo):
    n = Int('num_steps')
    ip.assume(n >= 2)
    pt = Obj('PTrec', {})
    self_ = mkobj(repo, 'backends.pt_tempo_backend.PtTempoBackend', _step=n, _num_steps=n, _process_tensor=pt)
    ip.ghost['pt_writes'] = SymMap()
    return {'args': [self_], 'self': self_, 'n': n, 'inputs': {'num_steps': n}}


def update_registry():
    R = Registry()
    MPO = z3.Function('mpo_tensor_of_step', z3.IntSort(), V)

    @model
    def m_get(ip, args, kw):
        return MPO(to_int(args[1]))

    @model
    def m_set(ip, args, kw):
        ip.log.append(('set', to_int(args[1]), args[2]))
        if ip.log and any(e[0] == 'caps' for e in ip.log):
            ip.ghost['set_after_caps'] = True

    @model
    def m_caps(ip, args, kw):
        ip.log.append(('caps',))
    R.models['backends.pt_tempo_backend.PtTempoBackend.get_mpo_tensor'] = m_get
    R.models['PTrec.set_mpo_tensor'] = m_set
    R.models['PTrec.compute_caps'] = m_caps

    def template(ip, frame, k):
        return {'@facts': [k >= 0]}
    R.invariants[('backends.pt_tempo_backend.PtTempoBackend.update_process_tensor', 0)] = LoopInv(template, 'update-loop')
    R.MPO = MPO
    return R


def post_update_pt(ip, ctx, out):
    if not expect_no_other_exception(ip, out):
        return
    sets = [e for e in ip.log if e[0] == 'set']
    caps = [i for i, e in enumerate(ip.log) if e[0] == 'caps']
    # the loop body is checked at a generic iteration: the step written is the loop's step and the tensor is that step's tensor
    for e in sets:
        ip.prove('pt/update/writes-the-tensor-of-its-step', e[2] == z3.Function('mpo_tensor_of_step', z3.IntSort(), V)(e[1]))
        ip.prove('pt/update/step-in-range', z3.And(e[1] >= 0, e[1] < ctx['n']))
    if out.returned:
        ln = ip.ghost.get('loop_len', {}).get('update-loop')
        ip.prove('pt/update/every-step-is-written', (to_int(ln) == ctx['n']) if ln is not None else z3.BoolVal(False), {'iterations': repr(ln)})
        ip.prove('pt/update/caps-computed-last', z3.BoolVal(len(caps) == 1 and caps[0] == len(ip.log) - 1 and not ip.ghost.get('set_after_caps')))


def path_end_update(ip, ctx):
    sets = [e for e in ip.log if e[0] == 'set']
    k = ip.ghost.get('loop_k', {}).get('update-loop')
    if k is not None:
        # reversed(range(n)) at iteration k is step n - 1 - k: every step is visited exactly once
        ip.prove('pt/update/one-write-per-step', z3.And([z3.BoolVal(len(sets) == 1)] + [e[1] == ctx['n'] - 1 - k for e in sets]))
        for e in sets:
            ip.prove('pt/update/writes-the-tensor-of-its-step', e[2] == z3.Function('mpo_tensor_of_step', z3.IntSort(), V)(e[1]))


_t_c02 = targets


def targets(tier='quick'):
    T = _t_c02(tier)
    T.append(PtReadoutTarget())
    from . import prep
    T += prep.wrapper_targets(PROP, 'tempo_compute', rp) + prep.wrapper_targets(PROP, 'pt_tempo_compute', rp)
    t = Target('pt/update_process_tensor', 'backends.pt_tempo_backend.PtTempoBackend.update_process_tensor', scen_update_pt, post_update_pt, update_registry(), PROP,
               replay=rp)
    t.path_end = path_end_update
    T.append(t)
    from . import delta
    T += delta.targets(PROP)
    return T
