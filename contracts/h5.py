"""ASSUMED contract of h5py as used by oqupy.process_tensor (ghost model of a file).

File(name, mode): 'x' fails if the file exists, 'w' truncates, 'r' needs an existing file.
attrs: a string->value map; values read back are *numpy scalars* (never identical to
True/False), strings come back as str.   Datasets: 1-d resizable arrays of items; item store /
load; resize keeps existing entries; creating with data= initialises.
The ghost disk is ip.ghost['disk'][filename] = {'attrs': {...}, 'datasets': {...}, 'exists': Bool}.
"""
import z3
from .common import *
from pyvc.values import NpScalar

BoolS, IntS = z3.BoolSort(), z3.IntSort()


def h5_registry(R=None):
    R = R or Registry()

    @model
    def file_ctor(ip, args, kw):
        name, mode = args[0], args[1]
        disk = ip.ghost.setdefault('disk', {})
        key = str(name)
        ent = disk.setdefault(key, {'exists': z3.Bool('file_exists_' + key.replace(' ', '_')), 'attrs': None, 'datasets': None})
        ip.log.append(('h5-open', key, mode))
        if mode == 'x':
            if ip.decide(ent['exists'], 'file-exists'):
                raise PyRaise(ExcVal('FileExistsError', (key,)))
            ent.update(exists=z3.BoolVal(True), attrs={}, datasets={})
        elif mode == 'w':
            ip.log.append(('h5-truncate', key, ent['exists']))
            ent.update(exists=z3.BoolVal(True), attrs={}, datasets={})
        elif mode == 'r':
            if not ip.decide(ent['exists'], 'file-exists'):
                raise PyRaise(ExcVal('FileNotFoundError', (key,)))
            if ent['attrs'] is None:
                # pre-existing file with unknown (symbolic) content supplied by the scenario
                ent['attrs'] = dict(ip.ghost.get('preexisting_attrs', {}))
                ent['datasets'] = dict(ip.ghost.get('preexisting_datasets', {}))
        else:
            raise Unsupported('h5py.File mode %r' % (mode,))
        f = Obj('H5File', {'key': key, 'mode': mode, 'open': True})
        f.fields['attrs'] = Obj('H5Attrs', {'file': f})
        return f

    def _ent(ip, f):
        return ip.ghost['disk'][f.fields['key']]

    @model
    def attrs_get(ip, args, kw):
        o, key = args
        f = o.fields['file']
        if not f.fields['open']:
            ip.raise_('ValueError')
        d = _ent(ip, f)['attrs']
        ip.log.append(('attr-get', key))
        if key not in d:
            raise PyRaise(ExcVal('KeyError', (key,)))
        v = d[key]
        if isinstance(v, str):
            return v
        return NpScalar(v)

    @model
    def attrs_set(ip, args, kw):
        o, key, val = args
        f = o.fields['file']
        if not f.fields['open']:
            ip.raise_('ValueError')
        if f.fields['mode'] == 'r':
            ip.log.append(('write-to-readonly-file', key))
            raise PyRaise(ExcVal('OSError', ('read-only file',)))
        if isinstance(val, NpScalar):
            val = val.val
        _ent(ip, f)['attrs'][key] = val
        ip.log.append(('attr-set', key, val))

    @model
    def file_close(ip, args, kw):
        args[0].fields['open'] = False
        ip.log.append(('h5-close', args[0].fields['key']))

    @model
    def create_dataset(ip, args, kw):
        f, name = args[0], args[1]
        if f.fields['mode'] == 'r':
            raise PyRaise(ExcVal('OSError', ('read-only file',)))
        shape = args[2] if len(args) > 2 else kw.get('shape')
        data = kw.get('data')
        n0 = shape[0] if isinstance(shape, (tuple, list)) else uf('shape0', shape, sort=z3.IntSort())
        items = Seq(n0, (lambda data: (lambda i: data[0] if isinstance(data, list) else data))(data) if data is not None
                    else (lambda i: uf('uninitialised_item', z3.StringVal(name), i)), 'list')
        ds = Obj('H5Dataset', {'name': name, 'items': items, 'file': f, 'whole': data})
        _ent(ip, f)['datasets'][name] = ds
        ip.log.append(('create-dataset', name))
        return ds

    @model
    def file_getitem(ip, args, kw):
        f, name = args
        d = _ent(ip, f)['datasets']
        if name not in d:
            raise PyRaise(ExcVal('KeyError', (name,)))
        return d[name]

    @model
    def ds_shape(ip, args, kw):
        n = args[0].fields['items'].length
        return (n,)

    @model
    def ds_resize(ip, args, kw):
        ds, shape = args
        if ds.fields['file'].fields['mode'] == 'r':
            raise PyRaise(ExcVal('OSError', ('read-only file',)))
        items = ds.fields['items']
        n = to_int(shape[0])
        old, m = items.fn, items.length
        nm = ds.fields['name']
        items.fn = lambda i: ite(i < m, old(i), uf('uninitialised_item', z3.StringVal(nm), i))
        items.length = z3.simplify(n)
        ip.log.append(('dataset-resize', nm, n))

    @model
    def ds_getitem(ip, args, kw):
        ds, idx = args
        items = ds.fields['items']
        from pyvc.lib import getitem
        return getitem(ip, items, idx)

    @model
    def ds_setitem(ip, args, kw):
        ds, idx, val = args
        if ds.fields['file'].fields['mode'] == 'r':
            raise PyRaise(ExcVal('OSError', ('read-only file',)))
        from pyvc.lib import setitem
        if ip.ghost.get('h5_write_may_fail') and ip.may_raise('h5-write-fails'):
            # a writer can die at any data-set write (disk full, interrupt): scenario switch of C17
            ip.log.append(('dataset-write-failed', ds.fields['name']))
            raise PyRaise(ExcVal('OSError', ('write failed',)))
        ip.log.append(('dataset-write', ds.fields['name'], idx))
        setitem(ip, ds.fields['items'], idx, val)

    @model
    def os_remove(ip, args, kw):
        key = str(args[0])
        ip.log.append(('os-remove', key))
        ent = ip.ghost.setdefault('disk', {}).setdefault(key, {'exists': z3.BoolVal(True)})
        ent['exists'] = z3.BoolVal(False)

    @model
    def vlen(ip, args, kw):
        return 'vlen-dtype'

    @model
    def np_dtype(ip, args, kw):
        return 'dtype'

    @model
    def tmpdir(ip, args, kw):
        return '<tmpdir>'

    @model
    def cand(ip, args, kw):
        return ['<candidate>']

    @model
    def b_next(ip, args, kw):
        return args[0][0]
    R.lib_models['h5py.File'] = file_ctor
    R.lib_models['h5py.vlen_dtype'] = vlen
    R.lib_models['numpy.dtype'] = np_dtype
    R.lib_models['os.remove'] = os_remove
    R.lib_models['tempfile._get_default_tempdir'] = tmpdir
    R.lib_models['tempfile._get_candidate_names'] = cand
    R.models['H5Attrs.__getitem__'] = attrs_get
    R.models['H5Attrs.__setitem__'] = attrs_set
    R.models['H5File.close'] = file_close
    R.models['H5File.create_dataset'] = create_dataset
    R.models['H5File.__getitem__'] = file_getitem
    R.models['H5Dataset.shape'] = ds_shape
    R.model_properties.add('H5Dataset.shape')
    R.models['H5Dataset.resize'] = ds_resize
    R.models['H5Dataset.__getitem__'] = ds_getitem
    R.models['H5Dataset.__setitem__'] = ds_setitem
    R.overrides[('process_tensor', 'next')] = Builtin('next', lambda ip, a, k: a[0][0])
    return R
