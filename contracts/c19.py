"""C19 — no computation leaves background activity behind, whether it returns or fails.

Sequential part (typestate): every API that enters a progress reporter exits it on every
normal AND exceptional path.  Exceptional exits are forked at every call of a user callable,
at _get_caps / get_mpo_tensor, and at every assert / check_*.
"""
import z3
from .common import *
from . import dyn, dynf, tempo_sm, c14, c09, grad

PROP = 'C19'


def post_balanced(ip, ctx, out):
    entered = [e for e in ip.log if e[0] == 'enter']
    kind = 'return' if out.returned else 'raise:' + out.value.typ
    ok = dyn.progress_balanced(ip)
    ip.prove('api/exit-on-all-paths', z3.BoolVal(ok), {'exit': kind, 'entered': len(entered)})
    if entered:
        ip.prove('api/reporter-was-entered', z3.BoolVal(True))


def rp(func, api):
    def f(ob):
        return {'func': func, 'inputs': {'api': api, 'obligation': ob['name'], 'info': ob.get('info')}}
    return f


def targets(tier='quick'):
    T = []
    RD = dyn.cd_registry()
    for ne in (0, 1):
        T.append(Target('exit/compute_dynamics[envs=%d]' % ne, 'system_dynamics.compute_dynamics',
                        lambda ip, repo, ne=ne: dyn.cd_scenario(ip, repo, num_envs=ne), post_balanced, RD, PROP,
                        replay=rp('leak', 'compute_dynamics')))
    RF = dynf.cdwf_registry()
    T.append(Target('exit/compute_dynamics_with_field', 'system_dynamics.compute_dynamics_with_field',
                    dynf.cdwf_scenario(1), post_balanced, RF, PROP, max_paths=4000, replay=rp('leak', 'compute_dynamics_with_field')))
    RGr = grad.grad_registry()
    for tc in (False, True):
        T.append(Target('exit/compute_gradient_and_dynamics[target_callable=%s]' % tc, 'gradient.compute_gradient_and_dynamics',
                        grad.grad_scenario(1, target_callable=tc), post_balanced, RGr, PROP, max_paths=6000,
                        replay=rp('leak', 'gradient')))
    RT = tempo_sm.tempo_registry()
    T.append(Target('exit/Tempo.compute[fresh]', 'tempo.Tempo.compute', tempo_sm.tempo_scenario(True), post_balanced, RT, PROP, replay=rp('leak', 'Tempo')))
    T.append(Target('exit/Tempo.compute[continue]', 'tempo.Tempo.compute', tempo_sm.tempo_scenario(False), post_balanced, RT, PROP, replay=rp('leak', 'Tempo')))
    RM = tempo_sm.mf_registry()
    T.append(Target('exit/MeanFieldTempo.compute[fresh]', 'tempo.MeanFieldTempo.compute', tempo_sm.mf_scenario(True), post_balanced, RM, PROP, replay=rp('leak', 'Tempo')))
    T.append(Target('exit/MeanFieldTempo.compute[continue]', 'tempo.MeanFieldTempo.compute', tempo_sm.mf_scenario(False), post_balanced, RM, PROP, replay=rp('leak', 'Tempo')))
    RP = c14.pt_registry()
    for st in ('fresh', 'partial', 'complete'):
        T.append(Target('exit/PtTempo.compute[%s]' % st, 'pt_tempo.PtTempo.compute', c14.scen_pt(st), post_balanced, RP, PROP, replay=rp('leak', 'PtTempo')))
    RG = c14.gibbs_registry()
    T.append(Target('exit/GibbsTempo.compute', 'tempo.GibbsTempo.compute', c14.scen_gibbs(True), post_balanced, RG, PROP, replay=rp('leak', 'GibbsTempo')))
    RTB = c14.tebd_registry()
    T.append(Target('exit/PtTebd.compute[fresh]', 'pt_tebd.PtTebd.compute', c14.scen_tebd(True), post_balanced, RTB, PROP, replay=rp('leak', 'PtTebd')))
    T.append(Target('exit/PtTebd.compute[continue]', 'pt_tebd.PtTebd.compute', c14.scen_tebd(False), post_balanced, RTB, PROP, replay=rp('leak', 'PtTebd')))
    # _chain_rule: typestate only (array contents are not tracked here; C08 covers the indexing)
    RCh = Registry()
    dyn.make_progress_models(RCh)

    def ch_template(ip, frame, i):
        return {'@facts': [i >= 0]}
    RCh.invariants[('gradient._chain_rule', 0)] = LoopInv(ch_template, 'chain-rule-loop')
    RCh.invariants[('gradient._chain_rule', 1)] = LoopInv(ch_template, 'chain-rule-inner-loop')

    @model
    def m_combine(ip, args, kw):
        return uf('combine_derivs', *args)
    RCh.models['gradient._chain_rule.<locals>.combine_derivs'] = m_combine

    def scen_chain_rule(ip, repo):
        N, M = Int('num_steps'), Int('num_parameters')
        ip.assume(z3.And(N >= 0, M >= 0))
        adj, _, _ = v_seq('adjoint', N)
        props = user_callable('propagators_pair')
        dprops = user_callable('dprop_dparam_pair')

        @model
        def props2(ip2, a2, k2):
            v = props(ip2, a2, k2)
            return uf('first', v), uf('second', v)

        @model
        def dprops2(ip2, a2, k2):
            v = dprops(ip2, a2, k2)
            return v_seq('dfirst', M)[0], v_seq('dsecond', M)[0]
        return {'args': [], 'kwargs': {'adjoint_tensor': adj, 'dprop_dparam': dprops2, 'propagators': props2,
                                       'num_steps': N, 'num_parameters': M}, 'inputs': {'num_steps': N}}
    T.append(Target('exit/_chain_rule', 'gradient._chain_rule', scen_chain_rule, post_balanced, RCh, PROP,
                    replay=rp('leak', 'gradient')))
    from pyvc.rg import RgTarget
    T.append(RgTarget())
    return T


META = {'level': 'proof', 'explanation': '', 'trusted_base': [], 'clauses': []}
