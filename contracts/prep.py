"""prep — what Tempo._prepare_backend / MeanFieldTempo._prepare_backend hand to the back end (forwarding contracts).

The back-end contracts (C01 tempo/init, C02 step, C05 wire/basis-rotation, C06 representatives, C09 mf-backend) are stated on the
back end's fields.  These targets close the gap to the API object: the REAL _prepare_backend is run with the back-end constructor
as a recording stub, and every constructor argument must be the documented ingredient of THIS object:
    prep/initial-state        the initial state, flattened to dim**2
    prep/influence            the object's own influence closure (Tempo) / one closure per bath, in order (mean field)
    prep/unitary-transform    bath.unitary_transform itself (not its conjugate, transpose or inverse), per bath in order
    prep/propagators          system.get_propagators(dt, start_time, subdiv_limit, liouvillian_epsrel), per system in order
    prep/memory               dkmax, epsrel, config of the parameters object
    prep/sums-and-maps        sum vectors of ones of length dim**2 (or number of degeneracy classes) and the bath's maps iff unique
and the real constructors BaseTempoBackend/TempoBackend/MeanFieldTempoBackend store these arguments in the fields the other
contracts read (ctor/fields).
"""
import z3
from .common import *
from pyvc.values import is_int

Ones = lambda n: uf('ones', to_int(n) if not isinstance(n, int) else z3.IntVal(n))


def prep_registry():
    R = Registry()

    @model
    def m_backend(ip, args, kw):
        ip.ghost['backend_args'] = (list(args), kw)
        return Obj('BackendStub', {})

    @model
    def m_props(ip, args, kw):
        # (dt, start_time, subdiv_limit, liouvillian_epsrel), however they are passed
        names = ['dt', 'start_time', 'subdiv_limit', 'liouvillian_epsrel']
        a = list(args[1:])
        a += [kw[n] for n in names[len(a):] if n in kw]
        return uf('propagators_of', args[0].fields['id'], *[to_real(x) if not is_int(x) else to_int(x) for x in a])

    @model
    def m_ones(ip, args, kw):
        return Ones(args[0])

    @model
    def m_max(ip, args, kw):
        return uf('max_of', args[0], sort=z3.IntSort())
    R.models['backends.tempo_backend.TempoBackend'] = m_backend
    R.models['backends.tempo_backend.MeanFieldTempoBackend'] = m_backend
    R.models['SysM.get_propagators'] = m_props
    R.lib_models['numpy.ones'] = m_ones
    R.lib_models['numpy.max'] = m_max
    return R


def _bath(i):
    return Obj('BathM', {'north_degeneracy_map': Vc('north_map_%d' % i), 'west_degeneracy_map': Vc('west_map_%d' % i),
                         'correlations': Vc('correlations_%d' % i), 'coupling_acomm': Vc('acomm_%d' % i), 'coupling_comm': Vc('comm_%d' % i),
                         'unitary_transform': Vc('unitary_%d' % i)})


def _params():
    return Obj('ParamsM', {'dt': Real('dt'), 'subdiv_limit': Int('subdiv'), 'liouvillian_epsrel': Real('leps'), 'dkmax': Int('dkmax'),
                           'epsrel': Real('epsrel')})


def scen_tempo(unique):
    def scen(ip, repo):
        bath, system, params = _bath(0), Obj('SysM', {'id': z3.IntVal(0)}), _params()
        dim = Int('dim')
        ip.assume(dim >= 1)
        rho = Vc('initial_state')
        self_ = mkobj(repo, 'tempo.Tempo', _dimension=dim, _initial_state=rho, _bath=bath, _system=system, _parameters=params,
                      _start_time=Real('start_time'), _unique=unique, _backend_config=Vc('backend_config'), _backend_instance=None)
        return {'args': [self_], 'kwargs': {}, 'self': self_, 'baths': [bath], 'systems': [system], 'params': params, 'unique': unique, 'dim': dim,
                'rho': rho, 'kind': 'tempo', 'inputs': {'unique': unique}}
    return scen


def scen_mf(unique):
    def scen(ip, repo):
        baths, systems, params = [_bath(0), _bath(1)], [Obj('SysM', {'id': z3.IntVal(i)}) for i in range(2)], _params()
        hs = [Int('d0'), Int('d1')]
        rhos = [Vc('rho_0'), Vc('rho_1')]
        self_ = mkobj(repo, 'tempo.MeanFieldTempo', _unique=unique, _parameters=params, _initial_field=Cx(Real('a_re'), Real('a_im')),
                      _start_time=Real('start_time'), _backend_config=Vc('backend_config'), _backend_instance=None,
                      _parsed_parameters_dict={'initial_state': rhos, 'hs_dim': hs, 'bath': baths, 'system': systems})
        return {'args': [self_], 'kwargs': {}, 'self': self_, 'baths': baths, 'systems': systems, 'params': params, 'unique': unique, 'hs': hs,
                'rhos': rhos, 'kind': 'mf', 'inputs': {'unique': unique}}
    return scen


def _arg(args, kw, pos, name):
    if name in kw:
        return kw[name]
    return args[pos] if pos < len(args) else None


def veq_(a, b):
    if a is None or b is None:
        return z3.BoolVal(a is None and b is None)
    if isinstance(a, (list, tuple)) or isinstance(b, (list, tuple)):
        if not (isinstance(a, (list, tuple)) and isinstance(b, (list, tuple)) and len(a) == len(b)):
            return z3.BoolVal(False)
        return z3.And([veq_(x, y) for x, y in zip(a, b)] + [z3.BoolVal(True)])
    if isinstance(a, Cx) or isinstance(b, Cx):
        if not (isinstance(a, Cx) and isinstance(b, Cx)):
            return z3.BoolVal(False)
        return z3.And(a.re == b.re, a.im == b.im)
    try:
        return veq(a, b)
    except Exception:       # noqa
        return z3.BoolVal(a is b)


def post_prepare(ip, ctx, out):
    if not expect_no_other_exception(ip, out):
        return
    rec = ip.ghost.get('backend_args')
    if rec is None:
        return ip.prove('prep/backend-constructed', z3.BoolVal(False))
    args, kw = rec
    p = ctx['params'].fields
    st = ctx['self'].fields['_start_time']

    def props(i):
        return uf('propagators_of', z3.IntVal(i), to_real(p['dt']), to_real(st), to_int(p['subdiv_limit']), to_real(p['liouvillian_epsrel']))
    if ctx['kind'] == 'tempo':
        names = ['initial_state', 'influence', 'unitary_transform', 'propagators', 'sum_north', 'sum_west', 'dkmax', 'epsrel']
        A = {n: _arg(args, kw, i, n) for i, n in enumerate(names)}
        b, dim = ctx['baths'][0].fields, ctx['dim']
        ip.prove('prep/initial-state', veq_(A['initial_state'], uf('meth_reshape', ctx['rho'], dim * dim)), {'handed over': repr(A['initial_state'])})
        infl = A['influence']
        from pyvc.interp import BoundMethod
        ok = isinstance(infl, BoundMethod) and infl.obj is ctx['self'] and getattr(infl.func, 'qualname', '').endswith('Tempo._influence')
        ip.prove('prep/influence', z3.BoolVal(bool(ok)), {'handed over': repr(infl)})
        ip.prove('prep/unitary-transform', veq_(A['unitary_transform'], b['unitary_transform']), {'handed over': repr(A['unitary_transform'])})
        ip.prove('prep/propagators', veq_(A['propagators'], props(0)), {'handed over': repr(A['propagators'])})
        ip.prove('prep/memory', z3.And(veq_(A['dkmax'], p['dkmax']), veq_(A['epsrel'], p['epsrel']), veq_(kw.get('config'), ctx['self'].fields['_backend_config'])))
        if ctx['unique']:
            want_n, want_w = Ones(uf('max_of', b['north_degeneracy_map'], sort=z3.IntSort()) + 1), Ones(uf('max_of', b['west_degeneracy_map'], sort=z3.IntSort()) + 1)
            maps = [b['north_degeneracy_map'], b['west_degeneracy_map']]
        else:
            want_n = want_w = Ones(dim * dim)
            maps = None
        ip.prove('prep/sums-and-maps', z3.And(veq_(A['sum_north'], want_n), veq_(A['sum_west'], want_w), veq_(kw.get('degeneracy_maps'), maps),
                                              veq_(kw.get('dim'), dim)),
                 {'sum_north': repr(A['sum_north']), 'sum_west': repr(A['sum_west']), 'degeneracy_maps': repr(kw.get('degeneracy_maps'))})
        return
    names = ['initial_state_list', 'initial_field', 'influence_list', 'unitary_transform_list', 'propagators_list', 'compute_field',
             'compute_field_derivative', 'sum_north_list', 'sum_west_list', 'dkmax', 'epsrel']
    A = {n: _arg(args, kw, i, n) for i, n in enumerate(names)}
    baths = [b.fields for b in ctx['baths']]
    ip.prove('prep/initial-state', z3.And(veq_(A['initial_state_list'], ctx['rhos']), veq_(A['initial_field'], ctx['self'].fields['_initial_field'])))
    ip.prove('prep/unitary-transform', veq_(A['unitary_transform_list'], [b['unitary_transform'] for b in baths]),
             {'handed over': repr(A['unitary_transform_list'])})
    ip.prove('prep/propagators', veq_(A['propagators_list'], [props(0), props(1)]), {'handed over': repr(A['propagators_list'])})
    from pyvc.interp import BoundMethod
    okf = all(isinstance(A[k], BoundMethod) and A[k].obj is ctx['self'] and getattr(A[k].func, 'qualname', '').endswith('MeanFieldTempo.' + m)
              for k, m in (('compute_field', '_compute_field'), ('compute_field_derivative', '_compute_field_derivative')))
    ip.prove('prep/field-callbacks', z3.BoolVal(bool(okf)), {'compute_field': repr(A['compute_field']), 'compute_field_derivative': repr(A['compute_field_derivative'])})
    ip.prove('prep/memory', z3.And(veq_(A['dkmax'], p['dkmax']), veq_(A['epsrel'], p['epsrel']), veq_(kw.get('config'), ctx['self'].fields['_backend_config'])))
    if ctx['unique']:
        wn = [Ones(uf('max_of', b['north_degeneracy_map'], sort=z3.IntSort()) + 1) for b in baths]
        ww = [Ones(uf('max_of', b['west_degeneracy_map'], sort=z3.IntSort()) + 1) for b in baths]
        maps = [[b['north_degeneracy_map'], b['west_degeneracy_map']] for b in baths]
    else:
        wn = ww = [Ones(d * d) for d in ctx['hs']]
        maps = [None, None]
    ip.prove('prep/sums-and-maps', z3.And(veq_(A['sum_north_list'], wn), veq_(A['sum_west_list'], ww), veq_(kw.get('degeneracy_maps_list'), maps),
                                          veq_(kw.get('hs_dim_list'), ctx['hs']) if 'hs_dim_list' in kw else z3.BoolVal(True)),
             {'sum_north_list': repr(A['sum_north_list']), 'degeneracy_maps_list': repr(kw.get('degeneracy_maps_list'))})


# ---- the real constructors keep what they are given in the fields the back-end contracts read
def scen_ctor(which):
    def scen(ip, repo):
        names = {'TempoBackend': ['initial_state', 'influence', 'unitary_transform', 'propagators', 'sum_north', 'sum_west', 'dkmax', 'epsrel'],
                 'BaseTempoBackend': ['initial_state', 'influence', 'unitary_transform', 'sum_north', 'sum_west', 'dkmax', 'epsrel']}[which]
        vals = {n: (Int(n) if n == 'dkmax' else Real(n) if n == 'epsrel' else Vc('arg_' + n)) for n in names}
        kw = {'config': Vc('arg_config'), 'degeneracy_maps': Vc('arg_maps'), 'dim': Int('arg_dim')}
        ip.assume(kw['config'] != NONE, 'a configuration is given (None selects the documented default)')
        self_ = mkobj(repo, 'backends.tempo_backend.' + which)
        return {'args': [self_] + [vals[n] for n in names], 'kwargs': kw, 'self': self_, 'vals': vals, 'kw': kw, 'inputs': {}}
    return scen


def post_ctor(ip, ctx, out):
    if not expect_no_other_exception(ip, out):
        return
    f = ctx['self'].fields
    pairs = [('_' + n, v) for n, v in ctx['vals'].items()] + [('_config', ctx['kw']['config']), ('_degeneracy_maps', ctx['kw']['degeneracy_maps']),
                                                              ('_dim', ctx['kw']['dim'])]
    bad = [k for k, v in pairs if k not in f]
    ip.prove('ctor/fields', z3.And([veq_(f[k], v) for k, v in pairs if k in f] + [z3.BoolVal(not bad)]),
             {'missing fields': bad, 'stored': {k: repr(f.get(k)) for k, _ in pairs}})


def targets(prop, replay=None):
    R = prep_registry()
    T = []
    for u in (False, True):
        T.append(Target('prep/Tempo[unique=%s]' % u, 'tempo.Tempo._prepare_backend', scen_tempo(u), post_prepare, R, prop, replay=replay))
        T.append(Target('prep/MeanFieldTempo[unique=%s]' % u, 'tempo.MeanFieldTempo._prepare_backend', scen_mf(u), post_prepare, R, prop, replay=replay))
    R2 = Registry()
    for which in ('BaseTempoBackend', 'TempoBackend'):
        T.append(Target('ctor/%s' % which, 'backends.tempo_backend.%s.__init__' % which, scen_ctor(which), post_ctor, R2, prop, replay=replay))
    return T


# ---- PtTempo._init_pt_tempo_backend: what PT-TEMPO's back end is given
def scen_pt(unique, dkmax_none):
    def scen(ip, repo):
        bath, params = _bath(0), _params()
        if dkmax_none:
            params.fields['dkmax'] = None
        dim, N = Int('dim'), Int('num_steps')
        ip.assume(z3.And(dim >= 1, N >= 2))
        pt = Obj('PTm', {})
        self_ = mkobj(repo, 'pt_tempo.PtTempo', _dimension=dim, _bath=bath, _parameters=params, _unique=unique, _backend_config=Vc('backend_config'),
                      _backend_instance=None, _num_steps=N, _process_tensor=pt)
        return {'args': [self_], 'kwargs': {}, 'self': self_, 'bath': bath, 'params': params, 'unique': unique, 'dim': dim, 'N': N, 'pt': pt, 'dkmax_none': dkmax_none,
                'inputs': {'unique': unique, 'dkmax is None': dkmax_none}}
    return scen


def post_pt(ip, ctx, out):
    if not expect_no_other_exception(ip, out):
        return
    rec = ip.ghost.get('backend_args')
    if rec is None:
        return ip.prove('prep/backend-constructed', z3.BoolVal(False))
    args, kw = rec
    names = ['dimension', 'influence', 'process_tensor', 'sum_north', 'sum_west', 'num_steps', 'dkmax', 'epsrel', 'config', 'degeneracy_maps']
    A = {n: _arg(args, kw, i, n) for i, n in enumerate(names)}
    p, b, dim = ctx['params'].fields, ctx['bath'].fields, ctx['dim']
    from pyvc.interp import BoundMethod
    infl = A['influence']
    ip.prove('prep/influence', z3.BoolVal(isinstance(infl, BoundMethod) and infl.obj is ctx['self'] and getattr(infl.func, 'qualname', '').endswith('PtTempo._influence')))
    ip.prove('prep/process-tensor-and-size', z3.And(z3.BoolVal(A['process_tensor'] is ctx['pt']), veq_(A['dimension'], dim), veq_(A['num_steps'], ctx['N'])))
    # dkmax = None means full memory: any cutoff that keeps all num_steps influence tensors (min(num_steps, dkmax + 1) = num_steps)
    mem = (to_int(A['dkmax']) >= ctx['N'] - 1) if (ctx['dkmax_none'] and A['dkmax'] is not None) else veq_(A['dkmax'], p['dkmax'])
    ip.prove('prep/memory', z3.And(mem, veq_(A['epsrel'], p['epsrel']), veq_(A['config'], ctx['self'].fields['_backend_config'])),
             {'dkmax handed over': repr(A['dkmax'])})
    if ctx['unique']:
        wn, ww = Ones(uf('max_of', b['north_degeneracy_map'], sort=z3.IntSort()) + 1), Ones(uf('max_of', b['west_degeneracy_map'], sort=z3.IntSort()) + 1)
        maps = [b['north_degeneracy_map'], b['west_degeneracy_map']]
    else:
        wn = ww = Ones(dim * dim)
        maps = None
    ip.prove('prep/sums-and-maps', z3.And(veq_(A['sum_north'], wn), veq_(A['sum_west'], ww), veq_(A['degeneracy_maps'], maps)))


def pt_registry():
    R = prep_registry()
    R.models['backends.pt_tempo_backend.PtTempoBackend'] = R.models['backends.tempo_backend.TempoBackend']
    return R


# ---- the API constructors: every argument reaches the field the other contracts read
def scen_api(which, variant):
    def scen(ip, repo):
        params = mkobj(repo, 'tempo.TempoParameters', _dt=Real('dt'), _dkmax=Int('dkmax'), _epsrel=Real('epsrel'))
        bath = mkobj(repo, 'bath.Bath', _dimension=Int('dim'), _correlations=Obj('CorrM', {}), _coupling_comm=Vc('comm'), _coupling_acomm=Vc('acomm'))
        t0 = Real('start_time')
        cfg = None if variant == 'default-config' else Vc('backend_config')
        if cfg is not None:
            ip.assume(cfg != NONE)
        uq = variant == 'unique'
        if which == 'Tempo':
            system, rho = Obj('SysM', {'dimension': Int('dim')}), Vc('initial_state')
            self_ = mkobj(repo, 'tempo.Tempo')
            kw = {'system': system, 'bath': bath, 'parameters': params, 'initial_state': rho, 'start_time': t0, 'backend_config': cfg, 'unique': uq,
                  'name': 'nm', 'description': 'ds'}
            ctx = {'system': system, 'rho': rho}
        else:
            te = Real('end_time')
            ip.assume(uf('number_of_steps', t0, te, Real('dt'), sort=z3.IntSort()) >= 2, 'requires: at least two steps fit')
            self_ = mkobj(repo, 'pt_tempo.PtTempo')
            kw = {'bath': bath, 'start_time': t0, 'end_time': te, 'parameters': params, 'process_tensor_file': None, 'overwrite': False, 'backend_config': cfg, 'unique': uq,
                  'name': 'nm', 'description': 'ds'}
            ctx = {'te': te}
        ctx.update({'args': [self_], 'kwargs': kw, 'self': self_, 'bath': bath, 'params': params, 't0': t0, 'cfg': cfg, 'unique': uq, 'which': which,
                    'inputs': {'variant': variant}})
        return ctx
    return scen


def api_registry():
    R = Registry()

    @model
    def m_parse(ip, args, kw):
        ip.ghost['parse_args'] = list(args)
        return (args[1], uf('parsed_state', args[2]), args[3], Int('dim'))

    @model
    def m_stub(name):
        pass

    def stub(name):
        @model
        def f(ip, args, kw):
            ip.ghost.setdefault('stubs', []).append(name)
        return f

    @model
    def m_steps(ip, args, kw):
        return uf('number_of_steps', to_real(args[0]), to_real(args[1]), to_real(args[2]), sort=z3.IntSort())
    R.models['tempo._tempo_physical_input_parse'] = m_parse
    R.models['tempo.Tempo._prepare_backend'] = stub('prepare')
    R.models['pt_tempo.PtTempo._init_pt_tempo_backend'] = stub('prepare')
    R.models['pt_tempo.PtTempo._init_simple_process_tensor'] = stub('simple-pt')
    R.models['pt_tempo.PtTempo._init_file_process_tensor'] = stub('file-pt')
    R.models['util.get_number_of_steps'] = m_steps
    return R


def post_api(ip, ctx, out):
    w = ctx['which']
    if out.kind == 'raise':
        return ip.prove('api/%s/accepts-valid-arguments' % w, z3.BoolVal(False), {'raised': out.value.typ})
    f = ctx['self'].fields
    ip.prove('api/%s/parameters-bath' % w, z3.BoolVal(f.get('_parameters') is ctx['params'] and f.get('_bath') is ctx['bath']))
    ip.prove('api/%s/start-time' % w, veq_(f.get('_start_time'), ctx['t0']), {'stored': repr(f.get('_start_time'))})
    ip.prove('api/%s/unique' % w, z3.BoolVal(f.get('_unique') is ctx['unique']))
    if ctx['cfg'] is not None:
        ip.prove('api/%s/backend-config' % w, veq_(f.get('_backend_config'), ctx['cfg']))
    else:
        ip.prove('api/%s/backend-config' % w, z3.BoolVal(f.get('_backend_config') is not None))
    stubs = ip.ghost.get('stubs', [])
    ip.prove('api/%s/backend-prepared-last' % w, z3.BoolVal(bool(stubs) and stubs[-1] == 'prepare' and stubs.count('prepare') == 1), {'calls': stubs})
    ip.prove('api/%s/name-description' % w, z3.BoolVal(f.get('_name') == 'nm' and f.get('_description') == 'ds'), {'name': repr(f.get('_name'))})
    if w == 'Tempo':
        pa = ip.ghost.get('parse_args') or []
        ip.prove('api/Tempo/physical-inputs', z3.BoolVal(len(pa) == 4 and pa[1] is ctx['system'] and pa[2] is ctx['rho'] and pa[3] is ctx['bath'] and f.get('_system') is ctx['system']),
                 {'handed to the input parser': repr(pa)})
        ip.prove('api/Tempo/initial-state', veq_(f.get('_initial_state'), uf('parsed_state', ctx['rho'])))
    else:
        ip.prove('api/PtTempo/end-time-and-steps', z3.And(veq_(f.get('_end_time'), ctx['te']),
                 veq_(f.get('_num_steps'), uf('number_of_steps', to_real(ctx['t0']), to_real(ctx['te']), to_real(ctx['params'].fields['_dt']), sort=z3.IntSort()))),
                 {'num_steps': repr(f.get('_num_steps'))})
        ip.prove('api/PtTempo/in-memory-process-tensor-by-default', z3.BoolVal('simple-pt' in stubs and 'file-pt' not in stubs), {'calls': stubs})
        ip.prove('api/PtTempo/coupling-data', z3.And(veq_(f.get('_coupling_comm'), ctx['bath'].fields['_coupling_comm']), veq_(f.get('_coupling_acomm'), ctx['bath'].fields['_coupling_acomm']),
                                                     veq_(f.get('_dimension'), ctx['bath'].fields['_dimension'])))


_t_prep = targets


def targets(prop, replay=None):
    T = _t_prep(prop, replay)
    RP = pt_registry()
    for u in (False, True):
        for dn in (False, True):
            T.append(Target('prep/PtTempo[unique=%s,dkmax=%s]' % (u, 'None' if dn else 'K'), 'pt_tempo.PtTempo._init_pt_tempo_backend', scen_pt(u, dn), post_pt, RP, prop, replay=replay))
    RA = api_registry()
    for which, q in (('Tempo', 'tempo.Tempo.__init__'), ('PtTempo', 'pt_tempo.PtTempo.__init__')):
        for variant in ('plain', 'unique', 'default-config'):
            T.append(Target('api/%s[%s]' % (which, variant), q, scen_api(which, variant), post_api, RA, prop, replay=replay))
    return T


# ---- the convenience wrappers: every named argument reaches the constructor parameter of the SAME name, then compute, then the result
WRAPPERS = {
    'tempo_compute': ('tempo.tempo_compute', 'tempo.Tempo', ['system', 'bath', 'initial_state', 'start_time', 'end_time', 'parameters', 'tolerance', 'unique',
                                                            'backend_config', 'progress_type', 'name', 'description'], 'get_dynamics'),
    'pt_tempo_compute': ('pt_tempo.pt_tempo_compute', 'pt_tempo.PtTempo', ['bath', 'start_time', 'end_time', 'parameters', 'unique', 'tolerance', 'process_tensor_file',
                                                                         'overwrite', 'backend_config', 'progress_type', 'name', 'description'], 'get_process_tensor'),
    'gibbs_tempo_compute': ('tempo.gibbs_tempo_compute', 'tempo.GibbsTempo', ['system', 'bath', 'parameters', 'backend_config', 'progress_type', 'name', 'description'], 'get_state'),
}


def wrapper_registry(which):
    qual, cls, names, getter = WRAPPERS[which]
    R = Registry()

    @model
    def m_ctor(ip, args, kw):
        ip.ghost['wrapped_ctor'] = (list(args), kw)
        return Obj('Wrapped', {})

    @model
    def m_compute(ip, args, kw):
        ip.log.append(('compute', list(args[1:]), kw))
        return Vc('compute_result')

    @model
    def m_get(ip, args, kw):
        ip.log.append(('get',))
        return Vc('the_result')
    R.models[cls] = m_ctor
    R.models['Wrapped.compute'] = m_compute
    R.models['Wrapped.' + getter] = m_get
    return R


def scen_wrapper(which):
    qual, cls, names, getter = WRAPPERS[which]

    def scen(ip, repo):
        vals = {}
        for n in names:
            if n in ('unique', 'overwrite'):
                vals[n] = Bool('arg_' + n)
            elif n in ('start_time', 'end_time', 'tolerance'):
                vals[n] = Real('arg_' + n)
            elif n in ('name', 'description', 'progress_type'):
                vals[n] = '<%s>' % n
            else:
                vals[n] = Vc('arg_' + n)
                ip.assume(vals[n] != NONE)
        return {'args': [], 'kwargs': dict(vals), 'vals': vals, 'which': which, 'inputs': {}}
    return scen


def post_wrapper(ip, ctx, out):
    if not expect_no_other_exception(ip, out):
        return
    qual, cls, names, getter = WRAPPERS[ctx['which']]
    rec = ip.ghost.get('wrapped_ctor')
    w = ctx['which']
    if rec is None:
        return ip.prove('api/%s/constructs-the-method-object' % w, z3.BoolVal(False))
    args, kw = rec
    repo = ip.repo if hasattr(ip, 'repo') else None
    from pyvc.modules import Repo
    init = (repo or Repo()).resolve(cls).find('__init__')
    params = [p.arg for p in init.node.args.args][1:]
    wrong = {}
    for p in params:
        if p in ctx['vals']:
            got = kw.get(p) if p in kw else None
            want = ctx['vals'][p]
            same = (got == want) if isinstance(want, str) else (got is want)
            if not same:
                wrong[p] = repr(got)
    ip.prove('api/%s/arguments-reach-the-parameter-of-the-same-name' % w, z3.BoolVal(not wrong), {'constructor parameters that got another value': wrong})
    comp = [e for e in ip.log if e[0] == 'compute']
    okc = len(comp) == 1
    if okc:
        a, k = comp[0][1], comp[0][2]
        pt = k.get('progress_type', None)
        okc = pt == '<progress_type>'
        if w == 'tempo_compute':
            end = a[0] if a else k.get('end_time')
            okc = okc and end is ctx['vals']['end_time']
    ip.prove('api/%s/computes-once-with-the-callers-target' % w, z3.BoolVal(bool(okc)), {'compute calls': repr(comp)[:300]})
    order = [e[0] for e in ip.log if e[0] in ('compute', 'get')]
    ip.prove('api/%s/returns-the-result-of-the-computation' % w, z3.And(z3.BoolVal(order == ['compute', 'get']), out.value == Vc('the_result') if is_z3(out.value) else z3.BoolVal(False)))


def wrapper_targets(prop, which, replay=None):
    qual = WRAPPERS[which][0]
    return [Target('api/%s' % which, qual, scen_wrapper(which), post_wrapper, wrapper_registry(which), prop, replay=replay)]
