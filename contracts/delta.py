"""util.create_delta / util.increase_list_of_index — the index duplication every influence tensor and every stored PT tensor goes through.

The other contract files ASSUME the contract of util.create_delta at its call sites (models `util.create_delta` in c01 / c16 / wire):

    ret[j_0, ..., j_{m-1}] = tensor[b_0, ..., b_{r-1}]   if  j_p == b_{scr[p]} for every p  (b is read off j at the first position of each axis)
                           = 0                            otherwise

This file proves that contract on the real bodies (pyvc + grid arrays): rank r and the scrambling list are fixed per target (every
scrambling used at a call site of the library, plus three others), the DIMENSIONS n_0..n_{r-1} >= 1 and the ELEMENTS are arbitrary.
The do-while loop is covered by an inductive invariant over the number k of completed iterations:

    a                 = A(k)            with A(0) = (0,..,0), A(k+1) = succ(A(k))        (definition; succ = mixed-radix successor SPEC)
    0 <= A_i(k) < n_i (i >= 1),  0 <= A_0(k) < n_0  or  A(k) = (n_0, 0, .., 0)           (proved: init + preserve)
    do_while_condition = A_0(k) < n_0
    ret_ndarray       = the spec above restricted to the b that come lexicographically BEFORE A(k)

The step `a -> succ(a)` is what the real increase_list_of_index (recursive, executed path by path, depth <= r) must produce.
Termination is not proved (partial correctness)."""
import z3
from .common import *
from pyvc import grid
from pyvc.grid import GridArr, ZERO

TENS = {}


def _tens(r):
    if r not in TENS:
        TENS[r] = z3.Function('delta_in_%d' % r, *([z3.IntSort()] * r + [V]))
    return TENS[r]


def _digit(i, r):
    return z3.Function('mixed_radix_digit_%d_of_%d' % (i, r), z3.IntSort(), z3.IntSort())


def _lex_lt(b, a):
    """b < a lexicographically (position 0 most significant)"""
    out = z3.BoolVal(False)
    for x, y in reversed(list(zip(b, a))):
        out = z3.Or(x < y, z3.And(x == y, out))
    return out


def _succ(a, dims):
    """mixed-radix successor (last position fastest); the most significant digit is NOT wrapped: succ(last) = (n_0, 0, .., 0)"""
    r = len(a)
    carry = z3.BoolVal(True)
    out = [None] * r
    for i in range(r - 1, -1, -1):
        if i == 0:
            out[i] = ite(carry, a[i] + 1, a[i])
        else:
            wraps = z3.And(carry, a[i] + 1 >= dims[i])
            out[i] = ite(carry, ite(a[i] + 1 >= dims[i], z3.IntVal(0), a[i] + 1), a[i])
            carry = wraps
    return out


def _source_index(idx, scr, r):
    """b(idx): axis i of the input is read at the first position p with scr[p] == i; and the condition that idx is `on the delta`"""
    b = []
    for i in range(r):
        p = scr.index(i)
        b.append(idx[p])
    on = z3.And([idx[p] == b[scr[p]] for p in range(len(scr))] + [z3.BoolVal(True)])
    return b, on


def spec(r, scr, dims, before=None, shape=None):
    T = _tens(r)

    def fn(idx):
        b, on = _source_index(idx, scr, r)
        inbox = z3.And([z3.And(x >= 0, x < n) for x, n in zip(b, dims)])
        cond = z3.And(on, inbox) if before is None else z3.And(on, inbox, _lex_lt(b, before))
        return ite(cond, T(*b), ZERO)
    return GridArr(len(scr), fn, tuple(dims[i] for i in scr) if shape is None else shape)


def grid_eq(ip, have, want):
    if not isinstance(have, GridArr):
        return z3.BoolVal(False)
    return have.pv_veq(want)


def registry(r, scr):
    R = Registry()

    @model
    def m_zeros(ip, args, kw):
        return grid.zeros(args[0])
    R.lib_models['numpy.zeros'] = m_zeros

    def template(ip, frame, k):
        dims = ip.ghost['dims']
        A = [_digit(i, r) for i in range(r)]
        # definition of A by recursion on k (conservative: primitive recursion)
        ip.assume(z3.And([A[i](0) == 0 for i in range(r)]))
        for kk in (k, k + 1):
            nxt = _succ([A[i](kk) for i in range(r)], dims)
            ip.assume(z3.And([A[i](kk + 1) == nxt[i] for i in range(r)]))
        a = [A[i](k) for i in range(r)]
        # (the array keeps the shape it was created with: the loop only stores elements)
        try:
            cur = ip.lookup_name(getattr(R.invariants[('util.create_delta', 0)], 'rename', {}).get('ret_ndarray', 'ret_ndarray'), frame)
            shape = cur.shape if isinstance(cur, GridArr) else None
        except Exception:
            shape = None
        running = z3.And([a[0] >= 0, a[0] < dims[0]] + [z3.And(a[i] >= 0, a[i] < dims[i]) for i in range(1, r)])
        ended = z3.And([a[0] == dims[0]] + [a[i] == 0 for i in range(1, r)])
        return {'@facts': [k >= 0, z3.Or(running, ended)],
                'a': list(a),
                'do_while_condition': a[0] < dims[0],
                'ret_ndarray': Custom(spec(r, scr, dims, before=a, shape=shape), grid_eq)}
    R.invariants[('util.create_delta', 0)] = LoopInv(template, 'delta-loop')
    return R


def scen(r, scr):
    def scenario(ip, repo):
        dims = [Int('n%d' % i) for i in range(r)]
        for n in dims:
            ip.assume(n >= 1)
        ip.ghost['dims'] = dims
        T = _tens(r)
        tensor = GridArr(r, lambda idx: T(*idx), tuple(dims))
        tensor.dtype = Vc('dtype')
        return {'args': [tensor, list(scr)], 'dims': dims, 'inputs': {'rank': r, 'index_scrambling': list(scr)}}
    return scenario


def post(r, scr):
    def p(ip, ctx, out):
        if not expect_no_other_exception(ip, out):
            return
        got = out.value
        ip.prove('delta/result[rank=%d,scrambling=%s]' % (r, list(scr)), grid_eq(ip, got, spec(r, scr, ctx['dims'])), {'returned': repr(got)})
        shape_ok = isinstance(got, GridArr) and got.shape is not None and len(got.shape) == len(scr)
        ip.prove('delta/shape[rank=%d,scrambling=%s]' % (r, list(scr)),
                 z3.And([to_int(s) == ctx['dims'][i] for s, i in zip(got.shape, scr)]) if shape_ok else z3.BoolVal(False), {})
    return p


# (rank, scrambling): every call site of the library (tempo_backend [1,0,0,1]; pt_tempo_backend [1,1,0], [0,1,1,0], [0,1,0];
# process_tensor [0,1,2,2]) plus three that no call site uses
CASES = [(2, (1, 0, 0, 1)), (2, (1, 1, 0)), (2, (0, 1, 1, 0)), (2, (0, 1, 0)), (3, (0, 1, 2, 2)),
         (1, (0, 0)), (2, (1, 0)), (3, (2, 0, 1, 1))]


def targets(prop, replay=None):
    T = []
    for r, scr in CASES:
        T.append(Target('delta/create_delta[rank=%d,%s]' % (r, ''.join(map(str, scr))), 'util.create_delta', scen(r, scr), post(r, scr),
                        registry(r, scr), prop, replay=replay or (lambda ob: {'func': 'create_delta_spec', 'inputs': {}})))
    return T + singleton_targets(prop, replay)


# ---- util.add_singleton(tensor, index, copy=True): a COPY (unless copy=False) whose shape has a 1 inserted before position `index`
def scen_singleton(rank, index, copy):
    def scenario(ip, repo):
        dims = tuple(Int('n%d' % i) for i in range(rank))
        t = Obj('ArrayRec', {'shape': dims, 'data': Vc('array_data')})
        args = [t, index] if copy is None else [t, index, copy]
        return {'args': args, 't': t, 'dims': dims, 'index': index, 'copy': copy is None or copy,
                'inputs': {'rank': rank, 'index': index, 'copy': copy}}
    return scenario


def post_singleton(ip, ctx, out):
    if not expect_no_other_exception(ip, out):
        return
    got, t, dims = out.value, ctx['t'], list(ctx['dims'])
    want = list(dims)
    want.insert(ctx['index'], 1)
    ok = isinstance(got, Obj) and isinstance(got.fields.get('shape'), tuple) and len(got.fields['shape']) == len(want)
    ip.prove('singleton/shape', z3.And([to_int(a) == to_int(b) for a, b in zip(got.fields['shape'], want)] + [z3.BoolVal(True)]) if ok else z3.BoolVal(False),
             {'returned': repr(got)})
    ip.prove('singleton/same-elements', veq(got.fields.get('data'), Vc('array_data')) if ok else z3.BoolVal(False))
    if ctx['copy']:
        ip.prove('singleton/argument-untouched', z3.BoolVal(got is not t and tuple(t.fields['shape']) == tuple(ctx['dims'])), {'argument shape now': repr(t.fields['shape'])})
    else:
        ip.prove('singleton/in-place', z3.BoolVal(got is t))


def singleton_registry():
    R = Registry()

    @model
    def m_copy(ip, args, kw):
        o = args[0]
        return Obj(o.cls, dict(o.fields))
    R.lib_models['copy.copy'] = m_copy
    R.lib_models['copy.deepcopy'] = m_copy
    R.lib_models['numpy.copy'] = m_copy
    R.lib_models['numpy.array'] = m_copy
    R.models['ArrayRec.copy'] = m_copy
    return R


def singleton_targets(prop, replay=None):
    T = []
    R = singleton_registry()
    # call sites: (rank 2: index 1, 2), (rank 3: index 3), (rank 3: 0, 1); default index -1
    for rank, index, copy in ((2, 1, None), (2, 2, None), (3, 3, None), (3, 0, None), (3, 1, None), (2, -1, None), (2, 1, True), (2, 1, False)):
        T.append(Target('delta/add_singleton[rank=%d,index=%d,copy=%s]' % (rank, index, 'default' if copy is None else copy), 'util.add_singleton',
                        scen_singleton(rank, index, copy), post_singleton, R, prop,
                        replay=replay or (lambda ob: {'func': 'create_delta_spec', 'inputs': {}})))
    return T
