"""Contracts for system_dynamics.compute_dynamics_with_field (C09, C13, C15, C19).

Ghost vocabulary as in dyn.py with a system index i:
  Xs(i,k), Pre(i,k), Post(i,k), Caps(i,k), Mpos(i,k), P1/P2(i,k,a,da)
  Rec(i,k)  = recorded state of system i at step k
  A(k)      = field: A(0)=initial, A(k+1)=Heun(f, t_k, dt, Rec(.,k), A(k), Rec(.,k+1))
  D(k)      = f(t_k, Rec(.,k), A(k))
"""
import z3
from .common import *
from . import dyn
from .c09 import f_eom, heun, cx_eq, m_field_eom

IntS, RealS = z3.IntSort(), z3.RealSort()
Xs = z3.Function('Xs', IntS, IntS, V)
PreS = z3.Function('PreS', IntS, IntS, V)
PostS = z3.Function('PostS', IntS, IntS, V)
CapsS = z3.Function('CapsS', IntS, IntS, V)
MposS = z3.Function('MposS', IntS, IntS, V)
P1S = z3.Function('P1S', IntS, IntS, RealS, RealS, RealS, RealS, V)
P2S = z3.Function('P2S', IntS, IntS, RealS, RealS, RealS, RealS, V)
Are = z3.Function('A_re', IntS, RealS)
Aim = z3.Function('A_im', IntS, RealS)
Node0S = z3.Function('Node0S', IntS, V)
HSf = z3.Function('hs_dim_of', IntS, IntS)


def A(k):
    return Cx(Are(k), Aim(k))


def rec(i, k):
    n = dyn.SupOpt(PreS(i, k), Xs(i, k))
    return uf('meth_reshape', dyn.ApplyCaps(n, CapsS(i, k)), HSf(i), HSf(i))


def rec_list(nsys, k):
    return [rec(i, k) for i in range(nsys)]


def tk(g, k):
    return g['start_time'] + z3.ToReal(k) * g['dt']


def D(g, k):
    return f_eom(tk(g, k), rec_list(g['nsys'], k), A(k))


def step_expr(g, i, k):
    a, d = A(k), D(g, k)
    b = dyn.SupOpt(PostS(i, k), dyn.SupOpt(PreS(i, k), Xs(i, k)))
    return dyn.SupOpt(P2S(i, k, a.re, a.im, d.re, d.im),
                      dyn.ApplyMpos(dyn.SupOpt(P1S(i, k, a.re, a.im, d.re, d.im), b), MposS(i, k)))


def define_ghosts(ip, g, k):
    """definitional axioms (recurrences of the property statement) instantiated at k >= 0"""
    ok = k >= 0
    for i in range(g['nsys']):
        ip.assume(z3.Implies(ok, Xs(i, k + 1) == step_expr(g, i, k)), 'definition of Xs (recurrence)')
        ip.assume(Xs(i, 0) == Node0S(i), 'definition of Xs(.,0)')
    nxt = heun(tk(g, k), g['dt'], rec_list(g['nsys'], k), A(k), rec_list(g['nsys'], k + 1))
    ip.assume(z3.Implies(ok, cx_eq(A(k + 1), nxt)), 'definition of A (Heun recurrence of the property)')
    ip.assume(cx_eq(A(0), g['initial_field']), 'definition of A(0)')


def cdwf_registry():
    R = dyn.base_registry()
    R.model_bases['MFS'] = ['MeanFieldSystem']
    R.model_bases['SystemF'] = ['TimeDependentSystemWithField', 'BaseSystem']
    R.model_bases['Control'] = ['Control']
    R.models['MFS.field_eom'] = m_field_eom

    @model
    def m_input_parse(ip, args, kw):
        (with_field, system, initial_state, dt, num_steps, start_time, process_tensor, control,
         record_all) = args
        g = ip.ghost['cdwf']
        i = system.fields['idx']
        if ip.may_raise('input-parse-raises'):
            raise PyRaise(ExcVal('ValueError', ('input',)))
        ip.prove('call/input_parse/with_field', z3.BoolVal(with_field is True))
        # every system is parsed on its own: its OWN shortest process tensor / time step come back
        return (system, g['initial_states'][i], g['dt_of_system'][i], g['steps_of_system'][i], g['start_time'],
                g['process_tensors'][i], g['controls'][i], record_all, HSf(i))

    @model
    def m_get_propagators(ip, args, kw):
        self_, dt, start_time = args[0], args[1], args[2]
        g = ip.ghost['cdwf']
        i = self_.fields['idx']
        ip.prove('call/get_propagators/dt', veq(dt, g['dt']))
        ip.prove('call/get_propagators/start_time', veq(start_time, g['start_time']))

        @model
        def propagators(ip2, a2, k2):
            step, a, da = to_int(a2[0]), to_cx(a2[1]), to_cx(a2[2])
            ip2.log.append(('propagators', i, step))
            if ip2.may_raise('propagators-raises'):
                ip2.log.append(('user-raise', 'propagators'))
                raise PyRaise(ExcVal('UserError', ('hamiltonian',)))
            return P1S(i, step, a.re, a.im, da.re, da.im), P2S(i, step, a.re, a.im, da.re, da.im)
        return propagators

    @model
    def m_get_controls(ip, args, kw):
        self_, step = args[0], to_int(args[1])
        g = ip.ghost['cdwf']
        i = self_.fields['idx']
        ip.prove('call/get_controls/dt', veq(kw.get('dt'), g['dt']))
        ip.prove('call/get_controls/start_time', veq(kw.get('start_time'), g['start_time']))
        return PreS(i, step), PostS(i, step)

    @model
    def m_get_caps(ip, args, kw):
        pts, step = args
        if ip.may_raise('_get_caps-raises'):
            raise PyRaise(ExcVal('ValueError', ('no cap tensor',)))
        return CapsS(pts.fields['idx'], to_int(step))

    @model
    def m_get_pt_mpos(ip, args, kw):
        pts, step = args
        if ip.may_raise('get_mpo_tensor-raises'):
            raise PyRaise(ExcVal('IndexError', ('mpo tensor',)))
        return MposS(pts.fields['idx'], to_int(step))

    @model
    def m_tn_node(ip, args, kw):
        g = ip.ghost['cdwf']
        i = g.setdefault('nodes_built', 0)
        g['nodes_built'] = i + 1
        return Node0S(i)

    @model
    def m_len_pts(ip, args, kw):
        return uf('num_envs', z3.IntVal(args[0].fields['idx']), sort=IntS)

    @model
    def m_mfd_ctor(ip, args, kw):
        return Obj('MeanFieldDynamicsView', {'times': kw.get('times'), 'states': kw.get('system_states_list'),
                                             'fields': kw.get('fields')})

    R.models['system_dynamics._compute_dynamics_input_parse'] = m_input_parse
    R.models['SystemF.get_propagators'] = m_get_propagators
    R.models['Control.get_controls'] = m_get_controls
    R.models['system_dynamics._get_caps'] = m_get_caps
    R.models['system_dynamics._get_pt_mpos'] = m_get_pt_mpos
    R.models['PTList.__len__'] = m_len_pts
    R.models['dynamics.MeanFieldDynamics'] = m_mfd_ctor
    R.lib_models['tensornetwork.Node'] = m_tn_node

    def template(ip, frame, k):
        g = ip.ghost['cdwf']
        N, ra, ns = g['num_steps'], g['record_all'], g['nsys']
        define_ghosts(ip, g, k)
        define_ghosts(ip, g, k - 1)
        tmpl = {'@facts': [k >= 0, k <= N],
                'nodes_and_edges_list': [(Xs(i, k), dyn.EdgesF(Xs(i, k))) for i in range(ns)],
                'system_states_list': Seq(z3.If(ra, k, 0), lambda j: rec_list(ns, j), 'list'),
                'field_list': Seq(z3.If(ra, k, 0), lambda j: A(j), 'list'),
                't': MaybeUndef(tk(g, k - 1), k >= 1),          # the time of the previous iteration until re-assigned
                'field': MaybeUndef(A(k - 1), k >= 1),
                'previous_state_list': MaybeUndef(rec_list(ns, k - 1), k >= 1)}
        return tmpl
    R.invariants[('system_dynamics.compute_dynamics_with_field', 3)] = LoopInv(template, 'cdwf-loop')
    return R


def cdwf_scenario(nsys, record_all=None, dt_differs=False):
    def scen(ip, repo):
        dt, t0 = Real('dt'), Real('start_time')
        N = Int('num_steps')
        ra = Bool('record_all') if record_all is None else record_all
        ip.assume(z3.And(dt > 0, N >= 0), 'requires dt > 0, num_steps >= 0')
        systems = [Obj('SystemF', {'idx': i}) for i in range(nsys)]
        mfs = Obj('MFS', {'system_list': systems})
        init_field = Cx(Real('a0_re'), Real('a0_im'))
        inits = [Vc('rho0_%d' % i) for i in range(nsys)]
        for x in inits:
            ip.assume(x != NONE)
        controls = [Obj('Control', {'idx': i}) for i in range(nsys)]
        pts = [Obj('PTList', {'idx': i}) for i in range(nsys)]
        # what the per-system parser reports: the steps each system's own process tensors allow (N is the smallest of them: the steps
        # the computation may take), and its time step (all equal on the paths that compute; see cdwf/parse/dt-must-agree)
        steps_of = [Int('steps_of_system_%d' % i) for i in range(nsys)]
        for n_i in steps_of:
            ip.assume(n_i >= N)
        ip.assume(z3.Or([n_i == N for n_i in steps_of]))
        dts = [dt] * nsys
        if dt_differs:
            dts = [dt] + [Real('dt_of_system_%d' % i) for i in range(1, nsys)]
            ip.assume(z3.Or([d != dt for d in dts[1:]]))
        g = {'dt': dt, 'start_time': t0, 'num_steps': N, 'record_all': ra, 'nsys': nsys, 'steps_of_system': steps_of, 'dt_of_system': dts,
             'initial_field': init_field, 'initial_states': inits, 'controls': controls,
             'process_tensors': pts}
        ip.ghost['cdwf'] = g
        kwargs = {'mean_field_system': mfs, 'initial_field': init_field, 'process_tensor_list': pts,
                  'dt': dt, 'num_steps': N, 'initial_state_list': inits, 'start_time': t0,
                  'control_list': controls, 'record_all': ra}
        return {'args': [], 'kwargs': kwargs, 'g': g,
                'inputs': {'dt': dt, 'start_time': t0, 'num_steps': N, 'record_all': ra}}
    return scen
