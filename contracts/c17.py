"""C17 — an interrupted process-tensor file is never mistaken for a complete one.

Ghost model of a file: (exists, attrs, datasets) — see contracts/h5.py (assumed h5py contract).
Protocol obligations: the `writing` attribute is set at creation before any data set exists,
stays True under every mutator, is reset by a clean close of a writer, and a reader warns
exactly when it is set.  Exclusive create vs overwrite; removal guard.
"""
import z3
from .common import *
from .h5 import h5_registry
from pyvc.values import NpScalar

PROP = 'C17'
CLS = 'process_tensor.FileProcessTensor'


def base_registry():
    R = h5_registry()

    @model
    def isnan(ip, args, kw):
        x = args[0]
        if isinstance(x, str):
            return x == 'NaN'
        return uf('isnan', x, sort=z3.BoolSort())
    R.lib_models['numpy.isnan'] = isnan

    def np_array_obj(ip, v, kw):
        return uf('np_array', v)
    R.np_array_opaque = np_array_obj

    @model
    def np_array_any(ip, args, kw):
        v = args[0]
        if isinstance(v, Obj) and v.cls == 'H5Dataset':
            w = v.fields.get('whole')
            return w if w is not None and is_v(w) else uf('dataset_as_array', z3.StringVal(v.fields['name']))
        from pyvc.lib import np_array
        return np_array(ip, args, kw)
    R.lib_models['numpy.array'] = np_array_any
    return R


def _ctor_kwargs(mode, filename, ip):
    hs = Int('hs_dim')
    ip.assume(hs >= 1)
    return {'mode': mode, 'filename': filename, 'hilbert_space_dimension': hs, 'dt': Real('dt_pt'),
            'transform_in': None, 'transform_out': None, 'name': 'pt', 'description': 'd'}


def scen_ctor(mode, filename):
    def scen(ip, repo):
        return {'args': [], 'kwargs': _ctor_kwargs(mode, filename, ip), 'mode': mode, 'filename': filename,
                'inputs': {'mode': mode, 'filename': filename}}
    return scen


def invoke_ctor(ip, repo, fref, ctx):
    cls = repo.resolve(CLS)
    return ip.call(cls, [], ctx['kwargs'])


def _events(ip, kind):
    return [e for e in ip.log if e[0] == kind]


def post_ctor(ip, ctx, out):
    mode, filename = ctx['mode'], ctx['filename']
    if mode not in ('read', 'write', 'overwrite'):
        return ip.prove('file/mode-validation', z3.BoolVal(out.raised('ValueError') and not _events(ip, 'h5-open')))
    opens = _events(ip, 'h5-open')
    if mode == 'write':
        ip.prove('file/exclusive-create', z3.BoolVal(len(opens) == 1 and opens[0][2] == 'x' and not _events(ip, 'h5-truncate')))
        if out.raised('FileExistsError'):
            return ip.prove('file/existing-file-untouched', z3.BoolVal(not _events(ip, 'attr-set') and not _events(ip, 'create-dataset')))
    if mode == 'overwrite':
        ip.prove('file/overwrite-only-on-request', z3.BoolVal(len(opens) == 1 and opens[0][2] == 'w'))
    if not expect_no_other_exception(ip, out):
        return
    o = out.value
    disk = ip.ghost['disk'][str(o.fields['_filename'])]
    w = disk['attrs'].get('writing')
    ip.prove('file/writing-set', z3.BoolVal(w is True))
    idx_w = [i for i, e in enumerate(ip.log) if e[0] == 'attr-set' and e[1] == 'writing']
    idx_d = [i for i, e in enumerate(ip.log) if e[0] in ('create-dataset', 'dataset-write', 'dataset-resize')]
    ip.prove('file/writing-set-before-any-data', z3.BoolVal(bool(idx_w) and (not idx_d or idx_w[0] < min(idx_d))))
    want_removeable = (filename is None) or (mode == 'overwrite')
    ip.prove('file/remove-guard-flag', z3.BoolVal(o.fields['_removeable'] is want_removeable))


# ---- mutators keep the flag
def scen_mutator(which):
    def scen(ip, repo):
        return {'args': [], 'kwargs': _ctor_kwargs('write', 'f.h5', ip), 'which': which, 'inputs': {'mutator': which}}
    return scen


def invoke_mutator(ip, repo, fref, ctx):
    cls = repo.resolve(CLS)
    o = ip.call(cls, [], ctx['kwargs'])
    ip.ghost['created_at'] = len(ip.log)
    which = ctx['which']
    step = Int('step')
    ip.assume(step >= 0)
    ten = Vc('tensor')
    ip.assume(ten != NONE)
    if which in ('set_mpo_tensor', 'set_cap_tensor'):
        ip.call(ip.getattr(o, which), [step, ten], {})
    elif which == 'set_initial_tensor':
        ip.call(ip.getattr(o, which), [ten], {})
    elif which in ('name', 'description'):
        ip.setattr(o, which, 'new text')
    elif which == 'set_mpo_tensor(None)':
        ip.call(ip.getattr(o, 'set_mpo_tensor'), [step, None], {})
    return o


def post_mutator(ip, ctx, out):
    if out.raised('FileExistsError') or out.raised('AssertionError'):
        return ip.prove('path-accounted', z3.BoolVal(True))
    if not expect_no_other_exception(ip, out):
        return
    o = out.value
    disk = ip.ghost['disk'][str(o.fields['_filename'])]
    later = [e for e in ip.log[ip.ghost['created_at']:] if e[0] == 'attr-set' and e[1] == 'writing']
    ip.prove('file/writing-invariant', z3.BoolVal(disk['attrs'].get('writing') is True and not later))


# ---- a writer that fails and is then finalised by the interpreter must not look complete
def invoke_fail_then_finalise(ip, repo, fref, ctx):
    cls = repo.resolve(CLS)
    o = ip.call(cls, [], ctx['kwargs'])
    ip.ghost['created_at'] = len(ip.log)
    # the writer fails somewhere before its own close(): here, a write that raises
    ten = Vc('tensor')
    ip.add_pc(ten != NONE)
    ip.call(ip.getattr(o, 'set_mpo_tensor'), [0, ten], {})
    ip.ghost['failed_at'] = len(ip.log)
    # ... the exception propagates; Python then finalises the object (reference counting / gc):
    # every finaliser hook the class defines runs
    for hook in ('__del__',):
        m = cls.find(hook)
        if m is not None:
            try:
                ip.call(m, [o], {})
            except PyRaise:
                pass
    return o


def post_fail_then_finalise(ip, ctx, out):
    if out.raised('FileExistsError') or out.raised('AssertionError'):
        return ip.prove('path-accounted', z3.BoolVal(True))
    if not expect_no_other_exception(ip, out):
        return
    o = out.value
    disk = ip.ghost['disk'][str(o.fields['_filename'])]
    ip.prove('file/writing-survives-finalisation', z3.BoolVal(disk['attrs'].get('writing') is True),
             {'finaliser_defined': repo_has_del(ip)})


def repo_has_del(ip):
    cls = ip.repo.resolve(CLS)
    return cls is not None and cls.find('__del__') is not None


# ---- close
def scen_close(mode):
    def scen(ip, repo):
        if mode == 'read':
            _preexisting(ip, repo, writing=z3.Bool('stored_writing'))
            ip.assume(ip.ghost_file_exists)
        return {'args': [], 'kwargs': _ctor_kwargs(mode, 'f.h5', ip), 'mode': mode, 'inputs': {'mode': mode}}
    return scen


def invoke_close(ip, repo, fref, ctx):
    cls = repo.resolve(CLS)
    o = ip.call(cls, [], ctx['kwargs'])
    ip.ghost['created_at'] = len(ip.log)
    ip.call(ip.getattr(o, 'close'), [], {})
    return o


def post_close(ip, ctx, out):
    if out.raised('FileExistsError') or out.raised('FileNotFoundError') or out.raised('AssertionError'):
        return ip.prove('path-accounted', z3.BoolVal(True))
    if not expect_no_other_exception(ip, out):
        return
    o = out.value
    disk = ip.ghost['disk'][str(o.fields['_filename'])]
    closed = bool(_events(ip, 'h5-close'))
    if ctx['mode'] == 'read':
        ip.prove('file/reader-never-writes', z3.BoolVal(closed and not _events(ip, 'write-to-readonly-file') and
                                                        not [e for e in ip.log if e[0] == 'attr-set']))
    else:
        w = disk['attrs'].get('writing')
        ip.prove('file/writing-reset', z3.BoolVal(closed and w is False))


# ---- reading
def _preexisting(ip, repo, writing):
    ver = repo.module('version')
    import ast
    vstr = None
    for st in ver.tree.body:
        if isinstance(st, ast.Assign) and st.targets[0].id == '__version__':
            vstr = st.value.value
    ip.ghost['preexisting_attrs'] = {'oqupy_version': vstr, 'name': 'stored name', 'description': 'stored description',
                                     'writing': writing}
    ds = {}
    for nm in ('hs_dim', 'dt', 'transform_in', 'transform_out', 'initial_tensor_data', 'initial_tensor_shape',
               'mpo_tensors_data', 'mpo_tensors_shape', 'cap_tensors_data', 'cap_tensors_shape'):
        n = Int('len_' + nm)
        ip.assume(n >= (1 if nm in ('hs_dim', 'dt', 'transform_in', 'transform_out', 'initial_tensor_data', 'initial_tensor_shape') else 0))
        f = z3.Function('stored_' + nm, z3.IntSort(), V if nm != 'hs_dim' else z3.IntSort())
        ds[nm] = Obj('H5Dataset', {'name': nm, 'items': Seq(n, (lambda f: lambda i: f(i))(f), 'list'), 'file': None, 'whole': None})
    ip.ghost['preexisting_datasets'] = ds
    ip.ghost_file_exists = z3.Bool('file_exists_f.h5')


def scen_read(ip, repo):
    w = z3.Bool('stored_writing')
    _preexisting(ip, repo, w)
    return {'args': [], 'kwargs': {'mode': 'read', 'filename': 'f.h5'}, 'w': w, 'mode': 'read', 'filename': 'f.h5',
            'inputs': {'stored_writing': w}}


def post_read(ip, ctx, out):
    if out.raised('FileNotFoundError'):
        return ip.prove('path-accounted', z3.BoolVal(True))
    if not expect_no_other_exception(ip, out, allowed=('AssertionError',)):
        return
    warned = any(e[0] == 'warn' for e in ip.log)
    ip.prove('file/warn-iff-writing', z3.BoolVal(warned) == ctx['w'])
    ip.prove('file/reader-never-writes', z3.BoolVal(not _events(ip, 'write-to-readonly-file') and not _events(ip, 'attr-set')
                                                    and not _events(ip, 'h5-truncate')))
    if out.returned:
        ip.prove('file/remove-guard-flag', z3.BoolVal(out.value.fields['_removeable'] is False))


# ---- remove
def scen_remove(mode, filename):
    def scen(ip, repo):
        if mode == 'read':
            _preexisting(ip, repo, writing=z3.BoolVal(False))
        return {'args': [], 'kwargs': _ctor_kwargs(mode, filename, ip) if mode != 'read' else {'mode': 'read', 'filename': filename},
                'mode': mode, 'filename': filename, 'inputs': {'mode': mode, 'filename': filename}}
    return scen


def invoke_remove(ip, repo, fref, ctx):
    cls = repo.resolve(CLS)
    o = ip.call(cls, [], ctx['kwargs'])
    ip.ghost['created_at'] = len(ip.log)
    ip.call(ip.getattr(o, 'remove'), [], {})
    return o


def post_remove(ip, ctx, out):
    removed = _events(ip, 'os-remove')
    entitled = (ctx['filename'] is None and ctx['mode'] != 'read') or ctx['mode'] == 'overwrite'
    created = 'created_at' in ip.ghost
    if not created:
        return ip.prove('file/remove-guard', z3.BoolVal(not removed))
    if entitled:
        ip.prove('file/remove-guard', z3.BoolVal(out.returned and len(removed) == 1))
    else:
        ip.prove('file/remove-guard', z3.BoolVal(out.raised('FileExistsError') and not removed))


def rp(func):
    def f(ob):
        return {'func': func, 'inputs': {'obligation': ob['name'], 'target': ob.get('target')}}
    return f


# ---- export(): a writer that fails at some data-set write must leave the file flagged
def invoke_export_failing(ip, repo, fref, ctx):
    S = ctx['S']
    ip.add_pc(z3.Not(z3.Bool('file_exists_f.h5')))
    ip.ghost['h5_write_may_fail'] = True
    return ip.call(ip.getattr(S, 'export'), ['f.h5'], {})


def post_export_failing(ip, ctx, out):
    failed = [e for e in ip.log if e[0] == 'dataset-write-failed']
    disk = ip.ghost.get('disk', {}).get('f.h5')
    if out.kind == 'raise' and failed and disk is not None and disk.get('attrs') is not None:
        ip.prove('file/interrupted-export-keeps-flag', z3.BoolVal(disk['attrs'].get('writing') is True),
                 {'writing': repr(disk['attrs'].get('writing')), 'failed write': failed[0][1]})
    elif out.kind == 'return':
        ip.prove('file/complete-export-resets-flag', z3.BoolVal(disk is not None and disk['attrs'].get('writing') is False))
    else:
        ip.prove('path-accounted', z3.BoolVal(True))


def path_end_export(ip, ctx):
    ip.prove('path-accounted', z3.BoolVal(True))


def targets(tier='quick'):
    R = base_registry()
    T = []
    for mode, fn in (('write', 'f.h5'), ('write', None), ('overwrite', 'f.h5'), ('append', 'f.h5')):
        T.append(Target('file/create[%s,%s]' % (mode, fn), CLS + '.__init__', scen_ctor(mode, fn), post_ctor, R, PROP,
                        invoke=invoke_ctor, replay=rp('file_protocol')))
    for which in ('set_mpo_tensor', 'set_cap_tensor', 'set_initial_tensor', 'name', 'description', 'set_mpo_tensor(None)'):
        T.append(Target('file/mutator[%s]' % which, CLS + '.set_mpo_tensor', scen_mutator(which), post_mutator, R, PROP,
                        invoke=invoke_mutator, replay=rp('file_protocol')))
    for mode in ('write', 'overwrite'):
        T.append(Target('file/fail-then-finalise[%s]' % mode, CLS + '.__init__', scen_ctor(mode, 'f.h5'), post_fail_then_finalise, R, PROP,
                        invoke=invoke_fail_then_finalise, replay=rp('file_protocol')))
    for mode in ('write', 'overwrite', 'read'):
        T.append(Target('file/close[%s]' % mode, CLS + '.close', scen_close(mode), post_close, R, PROP, invoke=invoke_close,
                        replay=rp('file_protocol')))
    from . import c16
    for init_none in (True, False):
        t = Target('file/export-interrupted[init=%s]' % ('None' if init_none else 'tensor'), 'process_tensor.SimpleProcessTensor.export',
                   c16.scen_export_import('file', init_none, True), post_export_failing, c16.exp_registry(), PROP, invoke=invoke_export_failing,
                   replay=rp('file_protocol'), max_paths=3000)
        t.keep = lambda name: name.startswith(('file/', 'path-accounted', 'unexpected'))
        T.append(t)
    T.append(Target('file/read', CLS + '._read_file', scen_read, post_read, R, PROP, invoke=invoke_ctor, replay=rp('file_protocol')))
    for mode, fn in (('write', 'f.h5'), ('write', None), ('overwrite', 'f.h5'), ('read', 'f.h5')):
        T.append(Target('file/remove[%s,%s]' % (mode, fn), CLS + '.remove', scen_remove(mode, fn), post_remove, R, PROP,
                        invoke=invoke_remove, replay=rp('file_protocol')))
    return T


META = {'level': 'proof', 'explanation': '', 'trusted_base': [], 'clauses': []}
