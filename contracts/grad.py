"""Contracts for gradient.compute_gradient_and_dynamics and gradient._chain_rule
(used by C08, C13, C19).

Forward pass: same ghost vocabulary as dyn.py (X, Pre, Post, P1, P2, recorded).
Backward pass:   Bk(N)   = SupOpt(T(Pre N), Target0)
                 Bk(s)   = SupOptT(Pre s, SupOptT(Post s, SupT(P1 s, ApplyMpos(SupT(P2 s, Bk(s+1)), BackMpos(s)))))
                 Dv(n)   = DerivMpo(Fwd n, Mpos n) @ Repl(Bk(n+1))            n = N-1 .. 0
where T(.) is the (uninterpreted) transpose, Fwd(n) the forward node stored at step n
(after the controls of step n, before its first half propagator), and propagator_derivatives[n]
must be Dv(n) for every n (list alignment after the final reversal).
"""
import z3
from .common import *
from . import dyn
from .dyn import Xf, P1, P2, Pre, Post, SupOpt, SupF, ApplyMpos, EdgesF, recorded

IntS = z3.IntSort()
Tr = z3.Function('attr_T', V, V)
Repl = z3.Function('Replicate', V, V)
DerivMpo = z3.Function('DerivMpo', V, V, V)
BackMpos = z3.Function('BackMpos', V, V)
Bk = z3.Function('Bk', IntS, V)
MpoE = z3.Function('MpoTensor', IntS, IntS, V)      # (environment, step)
NENVS = [1]
CapE = z3.Function('CapOfEnv', IntS, IntS, V)       # (environment, step)
Outer = z3.Function('outer_product', V, V, V)


def pack(mpos):
    if isinstance(mpos, list):
        return uf('mpo_list', *mpos) if mpos else z3.Const('EmptyMpoList', V)
    return mpos


def mpos_at(k):
    return [MpoE(e, k) for e in range(NENVS[0])]


def MposL(k):
    return pack(mpos_at(k))
Target0 = z3.Const('TargetNode0', V)
MatMul = z3.Function('matmul_nodes', V, V, V)
GetTensor = z3.Function('meth_get_tensor', V, V)


def after_controls(k):
    return SupOpt(Post(k), SupOpt(Pre(k), Xf(k)))


def fwd_stored(k):
    return Repl(after_controls(k))


def step_expr(k, x):
    a = SupOpt(Post(k), SupOpt(Pre(k), x))
    return SupOpt(P2(k), ApplyMpos(SupOpt(P1(k), a), MposL(k)))


def supT(s, n):
    """apply the transposed superoperator (None = identity)"""
    return z3.If(s == NONE, n, SupF(Tr(s), n))


def back_mpos_at(s):
    return [BackMpos(m) for m in mpos_at(s)]


def back_step(s, b):
    """adjoint of one forward step: transposed second half propagator, the transposed MPOs
    in the REVERSE order of the forward pass (each on its own bond leg), transposed first half"""
    b = SupF(Tr(P2(s)), b)
    bm = back_mpos_at(s)
    for e in reversed(range(len(bm))):
        single = [None] * len(bm)
        single[e] = bm[e]
        b = ApplyMpos(b, pack(single))
    b = SupF(Tr(P1(s)), b)
    b = supT(Post(s), b)
    return supT(Pre(s), b)


def dv(n):
    return MatMul(DerivMpo(fwd_stored(n), MposL(n)), Repl(Bk(n + 1)))


def grad_registry():
    R = dyn.base_registry()
    R.model_bases['PSystem'] = ['ParameterizedSystem', 'BaseSystem']
    R.model_bases['Control'] = ['Control']

    @model
    def m_input_parse(ip, args, kw):
        if ip.may_raise('input-parse-raises'):
            raise PyRaise(ExcVal('ValueError', ('input',)))
        g = ip.ghost['cd']
        return (g['system'], g['initial_state'], g['dt'], g['num_steps'], g['start_time'],
                g['process_tensors'], g['control'], args[8], g['hs_dim'])

    @model
    def m_get_propagators(ip, args, kw):
        g = ip.ghost['cd']
        ip.prove('call/get_propagators/dt', veq(args[1], g['dt']))

        @model
        def propagators(ip2, a2, k2):
            step = to_int(a2[0])
            ip2.log.append(('propagators', step))
            if ip2.may_raise('propagators-raises'):
                ip2.log.append(('user-raise', 'propagators'))
                raise PyRaise(ExcVal('UserError', ('hamiltonian',)))
            r1, r2 = P1(step), P2(step)
            ip2.add_pc(z3.And(r1 != NONE, r2 != NONE))     # propagators are arrays
            return r1, r2
        return propagators

    @model
    def m_get_controls(ip, args, kw):
        g = ip.ghost['cd']
        step = to_int(args[1])
        ip.prove('call/get_controls/dt', veq(kw.get('dt'), g['dt']))
        ip.prove('call/get_controls/start_time', veq(kw.get('start_time'), g['start_time']))
        return Pre(step), Post(step)

    @model
    def m_get_pt_mpos(ip, args, kw):
        pts, step = args
        if ip.may_raise('get_mpo_tensor-raises'):
            raise PyRaise(ExcVal('IndexError', ('mpo tensor',)))
        return mpos_at(to_int(step))

    @model
    def m_apply_pt_mpos(ip, args, kw):
        node, edges, mpos = args
        ip.prove('call/_apply_pt_mpos/edges-belong-to-node', edges == EdgesF(node))
        new = ApplyMpos(node, pack(mpos))
        return new, EdgesF(new)

    @model
    def m_back_mpos(ip, args, kw):
        mpo_list, step = args
        from pyvc.lib import getitem
        return [BackMpos(m) for m in getitem(ip, mpo_list, step)]

    @model
    def m_deriv_mpos(ip, args, kw):
        node, edges, mpos = args
        ip.prove('call/_apply_derivative_pt_mpos/edges-belong-to-node', edges == EdgesF(node))
        new = DerivMpo(node, pack(mpos))
        return new, uf('DerivEdges', new)

    @model
    def m_replicate(ip, args, kw):
        return [Repl(args[0][0])]

    @model
    def m_tn_node(ip, args, kw):
        g = ip.ghost['cd']
        n = g.setdefault('nodes_built', 0)
        g['nodes_built'] = n + 1
        from .dyn import check_flattened
        if n == 0:
            g['node0_arg'] = args[0]
            check_flattened(ip, 'initial-state', args[0], g['initial_state'], g['hs_dim'])
            return g['node0']
        # the node the backward pass starts from: caps of the last step on the bond legs (environment order), the flattened target on
        # the system leg:  outer(cap_0, outer(cap_1, .. flat(target)))
        arg, ok_caps = args[0], True
        for e in range(NENVS[0]):
            if z3.is_app(arg) and arg.decl().name() == 'outer_product' and z3.eq(arg.arg(0), CapE(e, to_int(g['num_steps']))):
                arg = arg.arg(1)
            else:
                ok_caps = False
                break
        ip.prove('grad/backward-start-carries-the-caps', z3.BoolVal(ok_caps), {'node built from': str(args[0])[:300],
                                                                                'required': 'outer(cap_0(N), outer(cap_1(N), ... flat(target)))'})
        g['target_arg'] = arg
        if g.get('target_source') is not None and ok_caps:
            check_flattened(ip, 'target-derivative', arg, g['target_source'], g['hs_dim'])
        return Target0

    @model
    def m_enumerate_mpos(ip, args, kw):
        raise Unsupported('enumerate')

    R.models['system_dynamics._compute_dynamics_input_parse'] = m_input_parse
    R.models['PSystem.get_propagators'] = m_get_propagators
    R.models['Control.get_controls'] = m_get_controls
    R.models['system_dynamics._get_pt_mpos'] = m_get_pt_mpos
    R.models['system_dynamics._apply_pt_mpos'] = m_apply_pt_mpos
    R.models['system_dynamics._get_pt_mpos_backprop'] = m_back_mpos
    R.models['system_dynamics._apply_derivative_pt_mpos'] = m_deriv_mpos
    R.lib_models['tensornetwork.replicate_nodes'] = m_replicate
    R.lib_models['tensornetwork.Node'] = m_tn_node

    # caps per environment (the backward pass closes each bond leg with the cap of the last step, like the forward pass)
    @model
    def m_get_caps_list(ip, args, kw):
        pts, step = args
        ip.log.append(('get_caps', step))
        if ip.may_raise('_get_caps-raises'):
            raise PyRaise(ExcVal('ValueError', ('no cap tensor',)))
        ip.ghost['cd']['caps_step'] = to_int(step)
        return [CapE(e, to_int(step)) for e in range(NENVS[0])]

    @model
    def m_apply_caps_list(ip, args, kw):
        from .dyn import ApplyCaps, CapsF
        node, edges, caps = args
        ip.prove('call/_apply_caps/edges-belong-to-node', edges == EdgesF(node))
        if isinstance(caps, list) and len(caps) == NENVS[0] and caps:
            # the caps of ONE step, in environment order, are what the forward specification calls CapsAt(step)
            k = caps[0].arg(1) if z3.is_app(caps[0]) and caps[0].decl().name() == 'CapOfEnv' else None
            if k is not None and all(z3.is_app(c) and c.decl().name() == 'CapOfEnv' and z3.eq(c.arg(1), k) and z3.eq(c.arg(0), z3.IntVal(e))
                                     for e, c in enumerate(caps)):
                return ApplyCaps(node, CapsF(k))
        if isinstance(caps, list):
            caps = uf('cap_list', *caps) if caps else CapsF(ip.ghost['cd']['caps_step'])       # no environment: nothing to close
        return ApplyCaps(node, caps)
    R.models['system_dynamics._get_caps'] = m_get_caps_list
    R.models['system_dynamics._apply_caps'] = m_apply_caps_list

    @model
    def m_outer(ip, args, kw):
        if not (is_z3(args[0]) and is_z3(args[1])):
            # arrays of the aliasing model (C20): a fresh array
            from pyvc import npalias
            return npalias.intercept(ip, 'numpy.multiply.outer', args, kw)
        return Outer(args[0], args[1])
    R.lib_models['numpy.multiply.outer'] = m_outer
    R.lib_models['numpy.outer'] = m_outer

    def matmul(ip, a, b):
        return MatMul(a, b)
    R.matmul = matmul

    def fwd_template(ip, frame, k):
        g = ip.ghost['cd']
        N, ra = g['num_steps'], g['record_all']
        ip.assume(Xf(k + 1) == step_expr(k, Xf(k)), 'definition of X (recurrence in the property statement)')
        ip.assume(Xf(0) == g['node0'], 'definition of X(0)')
        return {'@facts': [k >= 0, k <= N], 'current_node': Xf(k), 'current_edges': EdgesF(Xf(k)),
                'states': Seq(z3.If(ra, k, 0), lambda j: recorded(j, Xf(j)), 'list'),
                'forwardprop_derivs_list': Seq(k, lambda j: fwd_stored(j), 'list'),
                'mpo_list': Seq(k, lambda j: mpos_at(j), 'list')}
    R.invariants[('gradient.compute_gradient_and_dynamics', 'over:range(num_steps+1)')] = LoopInv(fwd_template, 'grad-forward-loop')

    def bwd_template(ip, frame, i):
        g = ip.ghost['cd']
        N = g['num_steps']
        s = N - 1 - i                      # step handled in iteration i
        ip.assume(z3.Implies(z3.And(s >= 1, s <= N - 1), Bk(s) == back_step(s, Bk(s + 1))), 'definition of Bk (recurrence)')
        ip.assume(Bk(N) == supT(Pre(N), Target0), 'definition of Bk(N)')
        first = Repl(dv(N - 1))
        return {'@facts': [i >= 0, i <= N - 1], 'current_node': Bk(s + 1), 'current_edges': EdgesF(Bk(s + 1)),
                'combined_deriv_list': Seq(i + 1, lambda j: z3.If(j == 0, first, GetTensor(dv(N - 1 - j))), 'list')}
    R.invariants[('gradient.compute_gradient_and_dynamics', 'over:reversed(range(1,num_steps))')] = LoopInv(bwd_template, 'grad-backward-loop')
    return R


def grad_scenario(num_envs=1, record_all=None, target_callable=False):
    def scen(ip, repo):
        NENVS[0] = num_envs
        ctx = dyn.cd_scenario(ip, repo, num_envs=num_envs, record_all=record_all)
        g = ctx['g']
        ip.assume(g['num_steps'] >= 1, 'requires num_steps >= 1')
        g['system'] = Obj('PSystem', {})
        params = Vc('parameters')
        if target_callable:
            tgt = user_callable('target_derivative')
        else:
            tgt = Vc('target_derivative')
            ip.assume(tgt != NONE)
            ip.ghost.setdefault('vtypes', {})[str(tgt)] = {'ndarray'}
            g['target_source'] = tgt
        kwargs = dict(ctx['kwargs'])
        kwargs.pop('process_tensor')
        kwargs.update({'system': g['system'], 'target_derivative': tgt, 'process_tensors': g['process_tensors'],
                       'parameters': params})
        ctx['kwargs'] = kwargs
        return ctx
    return scen
