"""C15 — covariance under translation of the time origin (relational / two-run contracts).

Every function under contract is executed symbolically twice on the same path: once with
(start_time, user functions g, float times t_i) and once with (start_time + tau, g_tau, t_i + tau)
where g_tau(t) := g(t - tau).  Outputs must be equal and reported times shifted by tau.
Arithmetic over the reals (REAL_FLOAT).
"""
import z3
from .common import *

PROP = 'C15'
IntS, RealS = z3.IntSort(), z3.RealSort()
TAU = z3.Real('tau')


def shifted_callable(name, shift, nargs_after_t=0, sort=None):
    """user function of time (first argument), evaluated at t - shift"""
    @model
    def call(ip, args, kw):
        t = to_real(args[0]) - shift
        rest = list(args[1:])
        if sort == 'cx':
            return Cx(uf(name + '_re', t, *rest, sort=RealS), uf(name + '_im', t, *rest, sort=RealS))
        return uf(name, t, *rest)
    return call


@model
def m_liouvillian_fn(ip, args, kw):
    return uf('Liouvillian', *args)


@model
def m_quad_vec(ip, args, kw):
    """scipy.integrate.quad_vec(f, a, b) modelled as INT(lambda s. f(a+s), b-a): the exact
    integral re-parameterised from its lower limit (translation invariance of the integral)."""
    f = args[0]
    a, b = to_real(kw.get('a', args[1] if len(args) > 1 else None)), to_real(kw.get('b', args[2] if len(args) > 2 else None))
    s = fresh_real('qs')
    ip.add_pc(z3.And(s >= 0, s <= b - a))
    ip.hidden_decisions += 1
    try:
        body = ip.call(f, [a + s], {})
    finally:
        ip.hidden_decisions -= 1
    val = uf('Integral', z3.Lambda([s], to_z3(body)), b - a)
    return (val, uf('IntegralErr', val))


def sys_registry():
    R = Registry()
    R.models['system._liouvillian'] = m_liouvillian_fn
    R.lib_models['scipy.integrate.quad_vec'] = m_quad_vec
    return R


def td_system(repo, shift, with_field=False, nlind=1):
    cls = 'system.TimeDependentSystemWithField' if with_field else 'system.TimeDependentSystem'
    H = shifted_callable('H', shift)
    gammas = [shifted_callable('gamma%d' % i, shift) for i in range(nlind)]
    lops = [shifted_callable('lop%d' % i, shift) for i in range(nlind)]
    return mkobj(repo, cls, _hamiltonian=H, _gammas=gammas, _lindblad_operators=lops, _dimension=Int('dim'))


def scen_props(with_field, integrate):
    def scen(ip, repo):
        dt, t0 = Real('dt'), Real('start_time')
        ip.assume(dt > 0)
        step = Int('step')
        ip.assume(step >= 0)
        return {'dt': dt, 't0': t0, 'step': step, 'with_field': with_field, 'integrate': integrate,
                'inputs': {'dt': dt, 'start_time': t0, 'step': step, 'tau': TAU}}
    return scen


def invoke_props(ip, repo, fref, ctx):
    outs = []
    for shift in (z3.RealVal(0), TAU):
        sysobj = td_system(repo, shift, ctx['with_field'])
        subdiv = Int('subdiv_limit') if ctx['integrate'] else None
        props = ip.call(fref, [sysobj, ctx['dt'], ctx['t0'] + shift, subdiv, Real('epsrel')], {})
        if ctx['with_field']:
            a = Cx(Real('a_re'), Real('a_im'))
            da = Cx(Real('da_re'), Real('da_im'))
            outs.append(ip.call(props, [ctx['step'], a, da], {}))
        else:
            outs.append(ip.call(props, [ctx['step']], {}))
    return outs


def post_props(ip, ctx, out):
    if not expect_no_other_exception(ip, out):
        return
    (p1, p2), (q1, q2) = out.value
    ip.prove('shift/propagators-first-half', p1 == q1)
    ip.prove('shift/propagators-second-half', p2 == q2)


# ---- time labels
def scen_time(cls):
    def scen(ip, repo):
        return {'cls': cls, 'dt': Real('dt'), 't0': Real('start_time'), 'step': Int('step'),
                'inputs': {'tau': TAU}}
    return scen


def invoke_time(ip, repo, fref, ctx):
    outs = []
    for shift in (z3.RealVal(0), TAU):
        params = mkobj(repo, 'tempo.TempoParameters', _dt=ctx['dt'])
        self_ = mkobj(repo, ctx['cls'], _start_time=ctx['t0'] + shift, _parameters=params)
        outs.append(ip.call(fref, [self_, ctx['step']], {}))
    return outs


def post_time(ip, ctx, out):
    if not expect_no_other_exception(ip, out):
        return
    a, b = out.value
    ip.prove('shift/time-label', b == a + TAU)


# ---- number of steps depends on end - start only
def scen_steps(cls):
    def scen(ip, repo):
        dt = Real('dt')
        ip.assume(dt > 0)
        # the end is a grid point, or clearly off-grid; for ends closer to a grid point than the rounding of the times themselves
        # (which grows with |start|/dt, so it is not shift invariant) either count is right: that band is C13's (grid/steps/*)
        from .c13 import U
        t0, q = Real('start_time'), Real('steps_to_the_end')
        T = t0 + q * dt
        absv = lambda x: z3.If(x >= 0, x, -x)
        m = round_half_even(q)
        dist = absv(q - z3.ToReal(m))
        offs = [(absv(t0 + sh) + absv(T + sh)) / dt for sh in (z3.RealVal(0), TAU)]
        ip.assume(z3.And(q >= 0, q <= 2 ** 20, offs[0] <= 2 ** 40, offs[1] <= 2 ** 40), 'requires (|start| + |end|)/dt <= 2^40 for both time origins')
        ip.assume(z3.Or(dist == 0, z3.And([dist >= z3.RealVal('1/1000000') + 64 * U * o for o in offs])),
                  'the end is a grid point or clearly off-grid (C13 owns the band in between)')
        return {'cls': cls, 'dt': dt, 't0': t0, 'T': T, 'ss': Int('start_step'),
                'inputs': {'tau': TAU}}
    return scen


def invoke_steps(ip, repo, fref, ctx):
    outs = []
    for shift in (z3.RealVal(0), TAU):
        params = mkobj(repo, 'tempo.TempoParameters', _dt=ctx['dt'])
        self_ = mkobj(repo, ctx['cls'], _start_time=ctx['t0'] + shift, _parameters=params)
        outs.append(ip.call(fref, [self_, ctx['ss'], ctx['T'] + shift], {}))
    return outs


def post_steps(ip, ctx, out):
    if not expect_no_other_exception(ip, out):
        return
    a, b = out.value
    ip.prove('shift/num-steps', a == b)


# ---- float control times
def scen_ctrl(npre, npost):
    def scen(ip, repo):
        dt = Real('dt')
        ip.assume(dt > 0)
        return {'npre': npre, 'npost': npost, 'dt': dt, 't0': Real('start_time'), 'step': Int('step'),
                'inputs': {'tau': TAU}}
    return scen


def invoke_ctrl(ip, repo, fref, ctx):
    from .c18 import control_obj
    outs = []
    base, maps, tvals = control_obj(ip, repo, ctx['npre'], ctx['npost'])
    for shift in (z3.RealVal(0), TAU):
        # the same control table with every float time shifted
        tctl, ctimes = {}, {}
        for side in ('pre', 'post'):
            ts, ops = tvals[side]
            m = SymMap()
            for t, o in zip(ts, ops):
                m.set(t + shift, o)
            tctl[side] = m
            ctimes[side] = Seq.from_list([t + shift for t in ts], 'ndarray') if ts else Seq(0, lambda i: z3.RealVal(0), 'ndarray')
        o = mkobj_init(ip, repo, 'control.Control', [base.fields['_dimension']],
                       _step_controls=base.fields['_step_controls'], _time_controls=tctl, _control_times=ctimes)
        outs.append(ip.call(fref, [o, ctx['step']], {'dt': ctx['dt'], 'start_time': ctx['t0'] + shift}))
    return outs


def post_ctrl(ip, ctx, out):
    if not expect_no_other_exception(ip, out):
        return
    (p, q), (p2, q2) = out.value
    ip.prove('shift/controls-pre', veq(p, p2))
    ip.prove('shift/controls-post', veq(q, q2))


# ---- float correlation times
def scen_parse(kind):
    def scen(ip, repo):
        dt, N = Real('dt'), Int('N')
        ip.assume(z3.And(dt > 0, N >= 0))
        return {'kind': kind, 'dt': dt, 'N': N, 't0': Real('start_time'), 'a': Real('a'), 'b': Real('b'),
                'inputs': {'tau': TAU}}
    return scen


def invoke_parse(ip, repo, fref, ctx):
    outs = []
    for shift in (z3.RealVal(0), TAU):
        spec = ctx['a'] + shift if ctx['kind'] == 'float' else (ctx['a'] + shift, ctx['b'] + shift)
        try:
            outs.append(ip.call(fref, [spec, ctx['N'], ctx['dt'], ctx['t0'] + shift], {}))
        except PyRaise as pr:
            outs.append(pr.exc)
    return outs


def post_parse(ip, ctx, out):
    a, b = out.value
    if isinstance(a, ExcVal) or isinstance(b, ExcVal):
        ip.prove('shift/parse-times-same-exception',
                 z3.BoolVal(isinstance(a, ExcVal) and isinstance(b, ExcVal) and a.typ == b.typ))
        return
    ip.prove('shift/parse-times', veq(a, b))


# ---- lemma over the contracts of C09: the field sequence is shift invariant
def lemma_field_sequence():
    class L:
        name = 'shift/field-sequence-lemma'

        def run(self, timeout_ms, tier):
            import time
            t0_ = time.time()
            # A(k+1) = Heun(f, start + k dt, ...); A'(k+1) = Heun(f', start + tau + k dt, ...),
            # f'(t, r, a) = f(t - tau, r, a).  Induction step: A(k) = A'(k) and equal states
            # => A(k+1) = A'(k+1).
            f = z3.Function('f', RealS, V, RealS, RealS)
            start, dt, tau, a, k = z3.Reals('start dt tau a k')
            r, r2 = z3.Consts('rho rho2', V)

            def heun(ff, t):
                k1 = ff(t, r, a)
                k2 = ff(t + dt, r2, a + dt * k1)
                return a + dt / 2 * (k1 + k2)
            lhs = heun(lambda t, s, x: f(t, s, x), start + k * dt)
            rhs = heun(lambda t, s, x: f(t - tau, s, x), start + tau + k * dt)
            s = z3.Solver()
            s.set('timeout', timeout_ms)
            s.add(lhs != rhs)
            res = s.check()
            ob = {'name': self.name, 'backend': 'z3', 'flags': ['REAL_FLOAT'], 'info': {}, 'pc_sat': 'sat',
                  'result': 'discharged' if res == z3.unsat else ('refuted' if res == z3.sat else 'unknown'),
                  'seconds': round(time.time() - t0_, 3)}
            return {'target': self.name, 'function': '(lemma over the Heun recurrence used as contract in C09)',
                    'property': PROP, 'paths': 1, 'obligations': [ob], 'undecided': [], 'errors': [],
                    'flags': ['REAL_FLOAT'], 'lib_pure': [], 'lib_used': [], 'seconds': ob['seconds']}
    return L()


def mk_replay(kind):
    def rp(ob):
        return {'func': 'shift', 'inputs': {'kind': kind, 'obligation': ob['name'], 'model': ob.get('model')}}
    return rp


def targets(tier='quick'):
    T = []
    RS = sys_registry()
    for wf in (False, True):
        cls = 'system.TimeDependentSystemWithField' if wf else 'system.TimeDependentSystem'
        for integ in (False, True):
            T.append(Target('shift/propagators[%s,%s]' % ('field' if wf else 'plain', 'integrated' if integ else 'sampled'),
                            cls + '.get_propagators', scen_props(wf, integ), post_props, RS, PROP, invoke=invoke_props, replay=mk_replay('propagators')))
    R = Registry()
    for cls in ('tempo.Tempo', 'tempo.MeanFieldTempo'):
        T.append(Target('shift/time[%s]' % cls, cls + '._time', scen_time(cls), post_time, R, PROP, invoke=invoke_time, replay=mk_replay('time')))
        T.append(Target('shift/num-steps[%s]' % cls, cls + '._get_num_step', scen_steps(cls), post_steps, R, PROP, invoke=invoke_steps, replay=mk_replay('steps')))
    from .c18 import matmul_hook
    RC = Registry()
    RC.matmul = matmul_hook
    for npre, npost in ((1, 0), (0, 1), (2, 1)):
        T.append(Target('shift/controls[%d,%d]' % (npre, npost), 'control.Control.get_controls', scen_ctrl(npre, npost),
                        post_ctrl, RC, PROP, invoke=invoke_ctrl, max_paths=3000, replay=mk_replay('controls')))
    for kind in ('float', 'interval'):
        T.append(Target('shift/parse-times[%s]' % kind, 'system_dynamics._parse_times', scen_parse(kind), post_parse, R, PROP, invoke=invoke_parse, replay=mk_replay('parse')))
    T.append(lemma_field_sequence())
    # MeanFieldTempo evaluates the user's field equation of motion (Heun update AND the slope handed to the propagators) at the
    # ABSOLUTE time start_time + step dt: contracts of C09, kept here as far as they are about the time origin
    from . import c09
    RF = Registry()
    RF.models['MFS.field_eom'] = c09.m_field_eom
    rpf = lambda ob: {'func': 'mean_field_shift', 'inputs': {'obligation': ob['name']}}
    T.append(Target('shift/mf-heun-at-step', 'tempo.MeanFieldTempo._compute_field', c09.scen_compute_field, c09.post_compute_field, RF, PROP, replay=rpf))
    T.append(Target('shift/mf-derivative-at-step', 'tempo.MeanFieldTempo._compute_field_derivative', c09.scen_field_derivative,
                    c09.post_field_derivative, RF, PROP, replay=rpf))
    # multi-time correlations: the dynamics inside are computed with the caller's start time (and dt): contract of C07, kept
    # here as far as it is about the time origin
    from . import c07
    for dg in (False, True):
        t = Target('shift/correlations[dt_given=%s]' % dg, 'system_dynamics.compute_correlations_nt', c07.scen_nt(dg), c07.post_nt, c07.nt_registry(), PROP,
                   replay=mk_replay('correlations'), max_paths=2000)
        t.keep = lambda name: name.startswith(('nt/start-time-governs-dynamics', 'nt/dt-governs-dynamics', 'nt/axes', 'unexpected-exception'))
        T.append(t)
    return T


META = {'level': 'proof', 'explanation': '', 'trusted_base': [], 'clauses': []}
