"""Abstract state machines (ghost models) of the TEMPO back ends as seen by the method
objects, plus scenarios for Tempo.compute / MeanFieldTempo.compute.   Used by C13, C14, C19.

AbsTempo = (k, Net_k, [(Label(j), rho_j)] j<=k)   with uninterpreted StateAt(j): only *how
often and with which arguments* the back end is advanced matters.
"""
import z3
from .common import *
from . import dyn

IntS = z3.IntSort()
StateAt = z3.Function('StateAt', IntS, V)       # state the back end reports after step j
FieldAt = z3.Function('FieldAt', IntS, V)


def backend_models(R, cls='TempoBackend', with_field=False):
    """contract of TempoBackend as a client sees it (proved for the real class in C14):
       initialize(): step None -> 0, returns (0, StateAt(0))
       compute_step(): either raises and leaves step unchanged, or step -> step+1 and returns
                       (step+1, StateAt(step+1))"""
    @model
    def initialize(ip, args, kw):
        o = args[0]
        ip.log.append(('backend-initialize',))
        o.fields['step'] = z3.IntVal(0)
        if with_field:
            return z3.IntVal(0), raw_states(z3.IntVal(0)), FieldAt(0)
        return z3.IntVal(0), StateAt(0)

    @model
    def compute_step(ip, args, kw):
        o = args[0]
        if ip.may_raise('compute_step-raises'):
            ip.log.append(('user-raise', 'compute_step'))
            raise PyRaise(ExcVal('UserError', ('propagators',)))
        s = o.fields['step'] + 1
        o.fields['step'] = s
        ip.log.append(('backend-step', s))
        if with_field:
            return s, raw_states(s), FieldAt(s)
        return s, StateAt(s)
    R.models[cls + '.initialize'] = initialize
    R.models[cls + '.compute_step'] = compute_step


def stored_state(j, dim):
    """what Dynamics.add stores for the state reported after step j"""
    return uf('np_array', uf('meth_reshape', StateAt(j), dim, dim))


def label(start, dt, j):
    return start + z3.ToReal(j) * dt


def tempo_registry():
    R = Registry()
    dyn.make_progress_models(R)
    backend_models(R, 'TempoBackend')

    def template(ip, frame, i):
        g = ip.ghost['tempo']
        s0 = to_int(ip.lookup_name('start_step', frame))   # step counter when the loop was entered
        n = s0 + i
        times = Seq(n + 1, lambda j: label(g['start'], g['dt'], j), 'list')
        states = Seq(n + 1, lambda j: stored_state(j, g['dim']), 'list')
        return {'@facts': [i >= 0], 'self._backend_instance.step': n,
                'self._dynamics._times': times, 'self._dynamics._states': states}
    R.invariants[('tempo.Tempo.compute', 0)] = LoopInv(template, 'tempo-loop')
    return R


def tempo_scenario(fresh):
    """fresh=True: object on which compute was never called (step None);
       fresh=False: object in the canonical state after s0 >= 0 steps."""
    def scen(ip, repo):
        start, dt, T = Real('start'), Real('dt'), Real('end_time')
        dim = Int('dim')
        ip.assume(z3.And(dt > 0, dim >= 1), 'TempoParameters ensures dt > 0')
        params = mkobj(repo, 'tempo.TempoParameters', _dt=dt)
        shape = Vc('state_shape')
        ip.assume(shape != NONE)
        be = Obj('TempoBackend', {'step': None})
        self_ = mkobj(repo, 'tempo.Tempo', _start_time=start, _parameters=params, _dimension=dim,
                      _backend_instance=be, _dynamics=None, _name='tempo')
        g = {'start': start, 'dt': dt, 'dim': dim, 'shape': shape, 'T': T}
        if not fresh:
            s0 = Int('s0')
            ip.assume(s0 >= 0)
            be.fields['step'] = s0
            d = mkobj(repo, 'dynamics.Dynamics', _name='d', _description='d', _shape=shape,
                      _times=Seq(s0 + 1, lambda j: label(start, dt, j), 'list'),
                      _states=Seq(s0 + 1, lambda j: stored_state(j, dim), 'list'))
            self_.fields['_dynamics'] = d
            g['s0_pre'] = s0
        ip.ghost['tempo'] = g
        return {'args': [self_, T], 'kwargs': {}, 'self': self_, 'g': g,
                'inputs': {'start_time': start, 'dt': dt, 'end_time': T, 's0': g.get('s0_pre', -1)}}
    return scen


# ------------------------------------------------------------------------------------
# MeanFieldTempo.compute (client of the MeanFieldTempoBackend contract and of the
# MeanFieldDynamics.add contract: sorted insertion; here times increase, so it appends)
def mf_registry():
    R = Registry()
    dyn.make_progress_models(R)
    backend_models(R, 'MFBackend', with_field=True)

    @model
    def mfd_ctor(ip, args, kw):
        return Obj('MFDyn', {'times': Seq(0, lambda j: z3.RealVal(0), 'list'),
                             'states': Seq(0, lambda j: NONE, 'list'), 'fields': Seq(0, lambda j: NONE, 'list')})

    @model
    def mfd_add(ip, args, kw):
        o, t, states, field = args
        times = o.fields['times']
        n = times.length
        last_ok = z3.Or(n == 0, times.fn(n - 1) <= to_real(t))
        ip.prove('call/MeanFieldDynamics.add/appends-in-time-order', last_ok)
        for key, val in (('times', to_real(t)), ('states', states), ('fields', field)):
            s = o.fields[key]
            old, m = s.fn, s.length
            if concrete_int(m) == 0:
                s.fn = (lambda val: lambda j: val)(val)
            else:
                s.fn = (lambda old, m, val: lambda j: ite(j == m, val, old(j)))(old, m, val)
            s.length = z3.simplify(m + 1)
        ip.log.append(('mfd-add', t))
    R.models['dynamics.MeanFieldDynamics'] = mfd_ctor
    R.models['MFDyn.add'] = mfd_add

    def template(ip, frame, i):
        g = ip.ghost['tempo']
        s0 = to_int(ip.lookup_name('start_step', frame))
        n = s0 + i
        return {'@facts': [i >= 0], 'self._backend_instance.step': n,
                'self._dynamics.times': Seq(n + 1, lambda j: label(g['start'], g['dt'], j), 'list'),
                'self._dynamics.states': Seq(n + 1, lambda j: mf_states(g, j), 'list'),
                'self._dynamics.fields': Seq(n + 1, lambda j: FieldAt(j), 'list')}
    R.invariants[('tempo.MeanFieldTempo.compute', 0)] = LoopInv(template, 'mf-tempo-loop')
    return R


StateOf = z3.Function('StateOf', IntS, IntS, V)      # (step, system index)
HsOf = z3.Function('HsDimOf', IntS, IntS)
NSYS = z3.Int('nsys')


def raw_states(j):
    return Seq(NSYS, lambda i: StateOf(j, i), 'list')


def mf_states(g, j):
    """what MeanFieldTempo.compute hands to MeanFieldDynamics.add for step j: the raw state
    list at initialisation (j == start), reshaped matrices afterwards"""
    resh = Seq(NSYS, lambda i: uf('meth_reshape', StateOf(j, i), (HsOf(i), HsOf(i))), 'list')
    return ite(j == 0, raw_states(j), resh)


def mf_scenario(fresh):
    def scen(ip, repo):
        start, dt, T = Real('start'), Real('dt'), Real('end_time')
        ip.assume(dt > 0)
        params = mkobj(repo, 'tempo.TempoParameters', _dt=dt)
        be = Obj('MFBackend', {'step': None})
        ip.assume(NSYS >= 1)
        hs = Seq(NSYS, lambda i: HsOf(i), 'list')
        self_ = mkobj(repo, 'tempo.MeanFieldTempo', _start_time=start, _parameters=params,
                      _parsed_parameters_dict={'hs_dim': hs}, _backend_instance=be, _dynamics=None, _name='mf')
        g = {'start': start, 'dt': dt, 'T': T, 'hs': hs}
        if not fresh:
            s0 = Int('s0')
            ip.assume(s0 >= 0)
            be.fields['step'] = s0
            self_.fields['_dynamics'] = Obj('MFDyn', {
                'times': Seq(s0 + 1, lambda j: label(start, dt, j), 'list'),
                'states': Seq(s0 + 1, lambda j: mf_states(g, j), 'list'),
                'fields': Seq(s0 + 1, lambda j: FieldAt(j), 'list')})
            g['s0_pre'] = s0
        ip.ghost['tempo'] = g
        return {'args': [self_, T], 'kwargs': {}, 'self': self_, 'g': g,
                'inputs': {'start_time': start, 'dt': dt, 'end_time': T, 's0': g.get('s0_pre', -1)}}
    return scen
