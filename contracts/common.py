"""Helpers shared by the sidecar contract files."""
import z3

from pyvc.engine import Target, Registry, LoopInv, MaybeUndef, Custom, model, goal, Outcome
from pyvc.values import Infeasible
from pyvc.values import (V, NONE, Seq, SymMap, Obj, Cx, SliceVal, ExcVal, PyRaise, Unsupported, veq, uf,
                         ite, to_z3, to_int, to_real, fresh_int, fresh_real, fresh_bool, fresh_v,
                         round_half_even, trunc, concrete_int, is_v, is_z3, map_eq, to_cx)
from pyvc.interp import Closure, BoundMethod, Builtin
from pyvc.modules import Repo, nested_function, FuncRef


def Int(n):
    return z3.Int(n)


def Real(n):
    return z3.Real(n)


def Bool(n):
    return z3.Bool(n)


def Vc(n):
    return z3.Const(n, V)


def int_seq(name, length=None, kind='list'):
    """arbitrary integer sequence (symbolic length unless given)."""
    A = z3.Array(name, z3.IntSort(), z3.IntSort())
    n = length if length is not None else z3.Int(name + '_len')
    return Seq(n, lambda i: z3.Select(A, i), kind), A, n


def real_seq(name, length=None, kind='list'):
    A = z3.Array(name, z3.IntSort(), z3.RealSort())
    n = length if length is not None else z3.Int(name + '_len')
    return Seq(n, lambda i: z3.Select(A, i), kind), A, n


def v_seq(name, length=None, kind='list'):
    f = z3.Function(name, z3.IntSort(), V)
    n = length if length is not None else z3.Int(name + '_len')
    return Seq(n, lambda i: f(i), kind), f, n


def user_callable(name, sort=None, raises=True, exc='UserError', log=None):
    """a user-supplied callable: uninterpreted function of its arguments; every call may
    raise (fork) unless raises=False."""
    @model
    def call(ip, args, kwargs):
        extra = [v for k, v in sorted(kwargs.items())]
        if log is not None:
            ip.log.append((log, tuple(args) + tuple(extra)))
        if raises and ip.may_raise(name + '-raises'):
            ip.log.append(('user-raise', name))
            raise PyRaise(ExcVal(exc, (name,)))
        if isinstance(sort, str) and sort == 'cx':
            return Cx(uf(name + '_re', *args, *extra, sort=z3.RealSort()),
                      uf(name + '_im', *args, *extra, sort=z3.RealSort()))
        return uf(name, *args, *extra, sort=sort)
    call.__name__ = name
    return call


def expect_no_other_exception(ip, out, allowed=()):
    if out.kind == 'raise' and not any(out.raised(a) for a in allowed):
        ip.prove('unexpected-exception/' + out.value.typ, z3.BoolVal(False), {'exc': out.value.typ})
        return False
    return True


def mkobj(repo, qualname, **fields):
    cls = repo.resolve(qualname)
    if cls is None:
        raise Unsupported('contract target missing: class %s' % qualname)
    return Obj(cls, dict(fields))


def mkobj_init(ip, repo, qualname, args=(), kwargs=None, **overrides):
    """object built by the REAL constructor (so fields added by a harmless refactoring are
    present), then put into the symbolic state of the scenario by overriding fields"""
    cls = repo.resolve(qualname)
    if cls is None:
        raise Unsupported('contract target missing: class %s' % qualname)
    try:
        o = ip.call(cls, list(args), dict(kwargs or {}))
    except PyRaise:
        # scenario precondition: the constructor accepts the arguments (paths on which it rejects them
        # are not scenarios of the function under contract)
        raise Infeasible()
    o.fields.update(overrides)
    return o


def frac(x):
    """decode json model value into a python Fraction-compatible pair"""
    return x
