"""C12 — bath correlation functions and their 2-D integrals.

Mathematical spec.  C: R -> C the correlation function, H(t) = int_0^t C, I(a,b) = int_a^b H,
eta(t) = I(0,t).   Trusted axioms of the I-theory (listed in the evidence):
    I(a,a) = 0,  I(a,b) + I(b,c) = I(a,c),  H(0) = 0,
    inner integral  int_0^D C(t'-t'') dt'' = H(t') - H(t'-D)        (CALC_INNER)
so the documented cells are
    square(t1,D)       = I(t1, t1+D) - I(t1-D, t1)
    rectangle(t1,t2,D) = I(t1, t2)   - I(t1-D, t2-D)
    triangle(t1,D)     = I(t1, t1+D) - D*H(t1)
"""
import ast
import time
import z3
from .common import *
from pyvc.modules import Repo, describe, nested_function
from pyvc.lib import INF

PROP = 'C12'
RealS, IntS = z3.RealSort(), z3.IntSort()
I_re, I_im = z3.Function('I_re', RealS, RealS, RealS), z3.Function('I_im', RealS, RealS, RealS)
H_re, H_im = z3.Function('H_re', RealS, RealS), z3.Function('H_im', RealS, RealS)


def Ic(a, b):
    return Cx(I_re(a, b), I_im(a, b))


def Hc(t):
    return Cx(H_re(t), H_im(t))


def cadd(a, b):
    return Cx(a.re + b.re, a.im + b.im)


def csub(a, b):
    return Cx(a.re - b.re, a.im - b.im)


def cscale(r, a):
    return Cx(r * a.re, r * a.im)


def ceq(a, b):
    return z3.And(a.re == b.re, a.im == b.im)


def additivity(a, b, c):
    return ceq(cadd(Ic(a, b), Ic(b, c)), Ic(a, c))


# ---- A. cell formulas of CustomSD.correlation_2d_integral
def cell_registry(matsubara=False):
    R = Registry()

    @model
    def m_eta(ip, args, kw):
        """eta_function(t) = I(0, t)  (its kernel/quadrature obligations are separate)"""
        t = to_real(args[1])
        ip.log.append(('eta', t, kw.get('matsubara')))
        r = Ic(z3.RealVal(0), t)
        if kw.get('matsubara'):
            return r.re
        return r
    R.models['bath_correlations.CustomSD.eta_function'] = m_eta
    return R


def scen_cell(shape, t1_zero=None):
    def scen(ip, repo):
        D, t1, t2 = Real('delta'), Real('time_1'), Real('time_2')
        ip.assume(D > 0)
        if t1_zero is True:
            ip.assume(t1 == 0)
        elif t1_zero is False:
            ip.assume(t1 != 0)
        o = mkobj(repo, 'bath_correlations.CustomSD')
        kw = {'delta': D, 'time_1': t1, 'shape': shape}
        if shape == 'rectangle':
            kw['time_2'] = t2
        return {'args': [o], 'kwargs': kw, 'D': D, 't1': t1, 't2': t2, 'shape': shape,
                'inputs': {'delta': D, 'time_1': t1, 'time_2': t2, 'shape': shape}}
    return scen


def post_cell(ip, ctx, out):
    D, t1, t2, shape = ctx['D'], ctx['t1'], ctx['t2'], ctx['shape']
    zero = z3.RealVal(0)
    if shape not in ('square', 'rectangle', 'upper-triangle'):
        return ip.prove('cell/unknown-shape-raises', z3.BoolVal(out.raised('NotImplementedError')))
    if not expect_no_other_exception(ip, out):
        return
    got = to_cx(out.value)
    # instances of the additivity axiom at the points that occur
    pts = [t1 - D, t1, t1 + D, t2 - D, t2]
    for b in pts:
        for c in pts:
            ip.assume(additivity(zero, b, c), 'I-theory: additivity instance')
    ip.assume(z3.And(H_re(zero) == 0, H_im(zero) == 0), 'I-theory: H(0) = 0')
    if shape == 'square':
        ip.prove('cell/square', ceq(got, csub(Ic(t1, t1 + D), Ic(t1 - D, t1))))
        # a square is the rectangle with t2 = t1 + D
        ip.prove('cell/square-is-rectangle', ceq(got, csub(Ic(t1, t1 + D), Ic(t1 - D, t1 + D - D))))
    elif shape == 'rectangle':
        ip.prove('cell/rectangle', ceq(got, csub(Ic(t1, t2), Ic(t1 - D, t2 - D))))
    else:
        want = csub(Ic(t1, t1 + D), cscale(D, Hc(t1)))
        ip.prove('cell/triangle[time_1 = 0]', z3.Implies(t1 == 0, ceq(got, want)))
        ip.prove('cell/triangle[time_1 != 0]', z3.Implies(t1 != 0, ceq(got, want)))


# ---- C. quadrature ranges and sign
def _free_values(f):
    """numeric values of the free variables of the integrand handed to the quadrature (looked up in the frame it closes over):
    these are what the kernel obligations of KernelTarget call `tau`, `T`, ... -- found by scope analysis, not by name"""
    node, frame = getattr(f, 'node', None), getattr(f, 'frame', None)
    if node is None or frame is None:
        return None
    bound = {a.arg for a in node.args.args + node.args.kwonlyargs}
    for n in ast.walk(node):
        if isinstance(n, ast.Name) and isinstance(n.ctx, ast.Store):
            bound.add(n.id)
    out = {}
    for n in ast.walk(node):
        if isinstance(n, ast.Name) and isinstance(n.ctx, ast.Load) and n.id not in bound and n.id not in out:
            ok, v = frame.lookup(n.id)
            if ok and (isinstance(v, (Cx, int, float, complex)) or z3.is_expr(v)) and not isinstance(v, bool):
                out[n.id] = v
    return out


def _depends_on(e, c):
    seen, todo = set(), [e]
    while todo:
        x = todo.pop()
        if x.get_id() in seen:
            continue
        seen.add(x.get_id())
        if z3.eq(x, c):
            return True
        todo.extend(x.children())
    return False


def quad_registry():
    R = Registry()

    @model
    def m_cint(ip, args, kw):
        f = args[0]
        a, b = kw['a'], kw['b']
        ip.log.append(('quad', a, b))
        ip.log.append(('quad-free', _free_values(f)))
        bb = z3.Real('INFINITY') if b is INF else to_real(b)
        return Cx(uf('Q_re', to_real(a), bb, sort=RealS), uf('Q_im', to_real(a), bb, sort=RealS))
    R.models['bath_correlations._complex_integral'] = m_cint
    return R


def scen_quad(meth, cutoff_type, matsubara, T_zero):
    def scen(ip, repo):
        wc, T, tau = Real('cutoff'), Real('temperature'), Real('tau')
        ip.assume(z3.And(wc > 0, T == 0 if T_zero else T > 0))
        o = mkobj(repo, 'bath_correlations.CustomSD', cutoff=wc, cutoff_type=cutoff_type, temperature=T if not T_zero else z3.RealVal(0),
                  j_function=user_callable('j_raw', raises=False), _spectral_density=user_callable('J', raises=False))
        return {'args': [o, tau], 'kwargs': {'matsubara': matsubara}, 'meth': meth, 'ct': cutoff_type, 'mats': matsubara, 'T0': T_zero,
                'wc': wc, 'inputs': {'cutoff_type': cutoff_type, 'matsubara': matsubara, 'T_zero': T_zero}}
    return scen


def post_quad(ip, ctx, out):
    if ctx['T0'] and ctx['mats']:
        return ip.prove('mats/requires-T>0', z3.BoolVal(out.raised('ValueError')))
    if not expect_no_other_exception(ip, out):
        return
    wc = ctx['wc']
    quads = [e for e in ip.log if e[0] == 'quad']
    inf = z3.Real('INFINITY')

    def hi(q):
        return inf if q[2] is INF else to_real(q[2])
    # the frequency range [0, cutoff] (hard cutoff) resp. [0, infinity) is covered exactly once by consecutive
    # quadrature intervals (where the range is split is the implementation's business)
    conds = [z3.BoolVal(len(quads) >= 1)]
    if quads:
        conds.append(to_real(quads[0][1]) == 0)
        for q1, q2 in zip(quads, quads[1:]):
            conds.append(z3.And(z3.BoolVal(q1[2] is not INF), hi(q1) == to_real(q2[1])))
        conds.append(hi(quads[-1]) == wc if ctx['ct'] == 'hard' else z3.BoolVal(quads[-1][2] is INF))
    ip.prove('quad/range', z3.And(conds))
    tot = Cx(z3.RealVal(0), z3.RealVal(0))
    for q in quads:
        tot = cadd(tot, Cx(uf('Q_re', to_real(q[1]), hi(q), sort=RealS), uf('Q_im', to_real(q[1]), hi(q), sort=RealS)))
    # the time the integrand closes over is the caller's time difference (tau -> -i tau for imaginary time): this links the
    # kernel obligations (KernelTarget: the integrand as an expression over ITS free variable) to the argument of the public method
    tau = ctx['args'][1]
    for fv in [e[1] for e in ip.log if e[0] == 'quad-free']:
        if fv is None:
            raise Unsupported('integrand handed to the quadrature is not a closure of the method')
        timelike = []
        for nm, v in sorted(fv.items()):
            parts = [v.re, v.im] if isinstance(v, Cx) else [v]
            if any(z3.is_expr(x) and _depends_on(x, tau) for x in parts):
                timelike.append(v)
        conds = [z3.BoolVal(len(timelike) >= 1)]
        for v in timelike:
            if ctx['mats']:
                conds.append(ceq(to_cx(v), Cx(z3.RealVal(0), -tau)))
            elif isinstance(v, Cx):
                conds.append(ceq(v, Cx(tau, z3.RealVal(0))))
            else:
                conds.append(to_real(v) == tau)
        ip.prove('quad/integrand-at-caller-time', z3.And(conds))
    sign = -1 if ctx['meth'] == 'eta_function' else 1
    got = out.value
    if ctx['mats']:
        ip.prove('quad/sign', to_real(got) == sign * tot.re)
        ip.prove('mats/result-real', z3.BoolVal(not isinstance(got, Cx)))
    else:
        ip.prove('quad/sign', ceq(to_cx(got), cscale(z3.RealVal(sign), tot)))


# ---- F. CustomCorrelations: dblquad boundaries
def cc_registry():
    R = Registry()

    @model
    def m_dblquad(ip, args, kw):
        x = fresh_real('x')
        y = fresh_real('y')
        rec = {'a': kw['a'], 'b': kw['b'], 'g': ip.call(kw['gfun'], [x], {}), 'h': ip.call(kw['hfun'], [x], {}),
               'f': ip.call(kw['func'], [y, x], {}), 'x': x, 'y': y}
        ip.ghost.setdefault('dblquad', []).append(rec)
        return (uf('DQ', z3.IntVal(len(ip.ghost['dblquad'])), sort=RealS), z3.RealVal(0))

    @model
    def m_real(ip, args, kw):
        v = args[0]
        return v.re if isinstance(v, Cx) else v

    @model
    def m_imag(ip, args, kw):
        v = args[0]
        return v.im if isinstance(v, Cx) else 0
    R.lib_models['scipy.integrate.dblquad'] = m_dblquad
    R.lib_models['numpy.real'] = m_real
    R.lib_models['numpy.imag'] = m_imag
    return R


def scen_cc(shape, with_t2):
    def scen(ip, repo):
        D, t1, t2 = Real('delta'), Real('time_1'), Real('time_2')
        ip.assume(D > 0)

        @model
        def corr(ip2, a2, k2):
            t = to_real(a2[0])
            return Cx(uf('C_re', t, sort=RealS), uf('C_im', t, sort=RealS))
        o = mkobj(repo, 'bath_correlations.CustomCorrelations', correlation_function=corr)
        kw = {'delta': D, 'time_1': t1, 'shape': shape}
        if with_t2:
            kw['time_2'] = t2
        return {'args': [o], 'kwargs': kw, 'D': D, 't1': t1, 't2': t2, 'shape': shape, 'with_t2': with_t2,
                'inputs': {'shape': shape, 'time_2_given': with_t2}}
    return scen


def post_cc(ip, ctx, out):
    D, t1, t2, shape = ctx['D'], ctx['t1'], ctx['t2'], ctx['shape']
    if ctx['with_t2'] and shape != 'rectangle':
        return ip.prove('cc/time_2-only-with-rectangle', z3.BoolVal(out.raised('AssertionError')))
    if not expect_no_other_exception(ip, out):
        return
    recs = ip.ghost.get('dblquad', [])
    conds = [z3.BoolVal(len(recs) == 2)]
    for k, r in enumerate(recs[:2]):
        x, y = r['x'], r['y']
        upper = t2 if (shape == 'rectangle' and ctx['with_t2']) else t1 + D
        inner_hi = {'square': D, 'rectangle': D, 'upper-triangle': x - t1}[shape]
        part = uf('C_re', x - y, sort=RealS) if k == 0 else uf('C_im', x - y, sort=RealS)
        conds += [to_real(r['a']) == t1, to_real(r['b']) == upper, to_real(r['g']) == 0, to_real(r['h']) == inner_hi,
                  to_real(r['f']) == part]
    ip.prove('cc/dblquad-args', z3.And(conds))
    got = to_cx(out.value)
    ip.prove('cc/combines-real-and-imaginary', z3.And(got.re == uf('DQ', z3.IntVal(1), sort=RealS), got.im == uf('DQ', z3.IntVal(2), sort=RealS)))


# ---- E. cutoff formulas and the power-law j-function
def scen_cutoff(name):
    def scen(ip, repo):
        w, wc = Real('omega'), Real('omega_c')
        ip.assume(wc > 0)
        return {'args': [w, wc], 'w': w, 'wc': wc, 'name': name, 'inputs': {}}
    return scen


def post_cutoff(ip, ctx, out):
    if not expect_no_other_exception(ip, out):
        return
    w, wc = ctx['w'], ctx['wc']
    want = {'_hard_cutoff': lambda: uf('lib_numpy_heaviside', wc - w, z3.IntVal(0)),
            '_exponential_cutoff': lambda: uf('lib_numpy_exp', -w / wc),
            '_gaussian_cutoff': lambda: uf('lib_numpy_exp', -((w / wc) * (w / wc)))}[ctx['name']]()
    ip.prove('sd/cutoff-formulas[%s]' % ctx['name'], out.value == want)


def scen_powerlaw(ip, repo):
    al, ze, wc = Real('alpha'), Real('zeta'), Real('cutoff')
    ip.assume(z3.And(wc > 0, ze > 0))
    o = mkobj(repo, 'bath_correlations.PowerLawSD')
    return {'args': [o, al, ze, wc], 'kwargs': {}, 'o': o, 'al': al, 'ze': ze, 'wc': wc, 'inputs': {}}


def pl_registry():
    R = Registry()

    @model
    def m_super_init(ip, args, kw):
        o = args[0]
        ip.ghost['j_function'] = args[1]
        ip.ghost['super_kw'] = kw
    R.models['bath_correlations.CustomSD.__init__'] = m_super_init
    return R


def post_powerlaw(ip, ctx, out):
    if not expect_no_other_exception(ip, out):
        return
    j = ip.ghost['j_function']
    w = Real('w')
    ip.add_pc(w > 0)
    got = ip.call(j, [w], {})
    al, ze, wc = ctx['al'], ctx['ze'], ctx['wc']
    P = lambda a, b: uf('pow', a, b, sort=RealS)
    ip.prove('pl/j-function', to_real(got) == 2 * al * P(w, ze) * P(wc, 1 - ze))
    kw = ip.ghost['super_kw']
    ip.prove('pl/passes-cutoff-and-temperature', z3.And(veq(kw.get('cutoff'), wc)))


def rp(func):
    def f(ob):
        return {'func': func, 'inputs': {'obligation': ob['name'], 'model': ob.get('model')}}
    return f


def targets(tier='quick'):
    T = []
    q = 'bath_correlations.CustomSD.correlation_2d_integral'
    RC = cell_registry()
    for shape in ('square', 'rectangle', 'upper-triangle', 'hexagon'):
        T.append(Target('cell/%s' % shape, q, scen_cell(shape), post_cell, RC, PROP, replay=rp('cells_vs_quadrature')))
    RQ = quad_registry()
    for meth in ('correlation', 'eta_function'):
        for ct in ('hard', 'exponential', 'gaussian'):
            for mats in (False, True):
                for T0 in (False, True):
                    T.append(Target('quad/%s[%s,matsubara=%s,T=%s]' % (meth, ct, mats, '0' if T0 else '>0'), 'bath_correlations.CustomSD.' + meth,
                                    scen_quad(meth, ct, mats, T0), post_quad, RQ, PROP, replay=rp('cells_vs_quadrature')))
    RCC = cc_registry()
    for shape in ('square', 'upper-triangle', 'rectangle'):
        for wt2 in (False, True):
            T.append(Target('cc/dblquad[%s,time_2=%s]' % (shape, wt2), 'bath_correlations.CustomCorrelations.correlation_2d_integral',
                            scen_cc(shape, wt2), post_cc, RCC, PROP, replay=rp('cells_vs_quadrature')))
    R0 = Registry()
    for nm in ('_hard_cutoff', '_exponential_cutoff', '_gaussian_cutoff'):
        T.append(Target('sd/cutoff[%s]' % nm, 'bath_correlations.' + nm, scen_cutoff(nm), post_cutoff, R0, PROP))
    T.append(Target('pl/j-function', 'bath_correlations.PowerLawSD.__init__', scen_powerlaw, post_powerlaw, pl_registry(), PROP))
    return T


META = {'level': 'proof', 'explanation': '', 'trusted_base': [
    'I-theory axioms: I(a,a)=0, I(a,b)+I(b,c)=I(a,c), H(0)=0, inner integral = H(t\') - H(t\'-D)  (calculus; not mechanised)'], 'clauses': []}


# ---- B. kernel identities (cas back end)
class KernelTarget:
    name = 'kernels/CustomSD'

    def replay(self, ob):
        return {'func': 'cells_vs_quadrature', 'inputs': {'obligation': ob['name']}}

    def run(self, timeout_ms, tier):
        import sympy as sp
        from pyvc import cas
        from pyvc.cas import w, tau, T, J
        t0 = time.time()
        repo = Repo()
        res = {'target': self.name, 'function': 'bath_correlations.CustomSD.correlation / eta_function <locals>.integrand', 'property': PROP,
               'paths': 1, 'obligations': [], 'undecided': [], 'errors': [], 'flags': ['REAL_FLOAT'], 'lib_pure': [],
               'lib_used': ['sympy: differentiation and simplification (trusted)'], 'functions_extra': []}
        fc = repo.resolve('bath_correlations.CustomSD.correlation')
        # the body of eta_function (the memoised kernel `_eta_function` where the public method only adds the memo key)
        fe = repo.resolve('bath_correlations.CustomSD._eta_function') or repo.resolve('bath_correlations.CustomSD.eta_function')
        if fc is None or fe is None:
            res['undecided'].append('contract target missing: CustomSD.correlation / eta_function')
            return res
        res['functions_extra'] += [describe(fc), describe(fe)]
        def envof(fd):
            # the integration variable is the integrand's parameter; the time is its free plain name (whatever it is called:
            # quad/integrand-at-caller-time proves that this free variable holds the caller's tau)
            e = {'w': w, 'tau': tau}
            if fd is None:
                return e
            params = [a.arg for a in fd.args.args]
            if len(params) == 1:
                e[params[0]] = w
            stores = {n.id for n in ast.walk(fd) if isinstance(n, ast.Name) and isinstance(n.ctx, ast.Store)}
            free = sorted({n.id for n in ast.walk(fd) if isinstance(n, ast.Name) and isinstance(n.ctx, ast.Load)}
                          - stores - set(params) - {'self', 'np', 'numpy', 'tau'} - set(dir(__import__('builtins'))))
            if len(free) == 1 and 'tau' not in {n.id for n in ast.walk(fd) if isinstance(n, ast.Name)}:
                e[free[0]] = tau
            return e
        try:
            fds = [nested_function(fc, 'integrand', 0), nested_function(fc, 'integrand', 1),
                   nested_function(fe, 'integrand', 0), nested_function(fe, 'integrand', 1)]
            kc0 = cas.kernel_branches(fds[0], envof(fds[0]))['plain']
            kc = cas.kernel_branches(fds[1], envof(fds[1]))
            ke0 = cas.kernel_branches(fds[2], envof(fds[2]))['plain']
            ke = cas.kernel_branches(fds[3], envof(fds[3]))
        except (cas.NotTranslatable, KeyError, TypeError, AttributeError) as e:
            res['undecided'].append('unsupported construct in integrand: %s' % e)
            return res

        def ob(name, expr):
            t1 = time.time()
            try:
                ok, rest = cas.is_zero(expr)
            except Exception as e:        # pragma: no cover
                res['undecided'].append('cas failure on %s: %s' % (name, e))
                return
            res['obligations'].append({'name': name, 'backend': 'sympy', 'flags': ['REAL_FLOAT'], 'pc_sat': 'sat',
                                       'info': {} if ok else {'residual': str(rest)[:300], 'value_at_sample_point': str(cas.witness(rest))},
                                       'model': None if ok else {'residual': str(rest)[:300], 'sample_point': 'w=1.3,tau=0.7,T=0.9,J=0.6',
                                                                 'value': str(cas.witness(rest))},
                                       'result': 'discharged' if ok else 'refuted', 'seconds': round(time.time() - t1, 3)})
        coth = (1 + sp.exp(-w / T)) / (1 - sp.exp(-w / T))            # coth(w / 2T)
        # correlation kernels against the documented formula
        ob('corr/kernel-T0', kc0 - J * sp.exp(-sp.I * w * tau))
        ob('corr/kernel-thermal', kc['thermal'] - J * (sp.cos(w * tau) * coth - sp.I * sp.sin(w * tau)))
        ob('corr/guard-limit', kc['guard'] - kc0)                    # overflow branch = the x := exp(-w/T) -> 0 instance
        ob('eta/guard-limit', ke['guard'] - ke0)
        # WHEN the zero-temperature form may stand in: exactly where exp(-w/T) has dropped below machine epsilon AT THE
        # FREQUENCY being integrated (there the two branches agree to rounding); the condition must be this one, per frequency
        ob('corr/guard-condition', kc['guard_margin'] - (sp.exp(-w / T) - cas.EPS))
        ob('eta/guard-condition', ke['guard_margin'] - (sp.exp(-w / T) - cas.EPS))
        # eta kernel is the double antiderivative of the correlation kernel (eta_function returns MINUS the integral)
        for nm, kce, kee in (('T0', kc0, ke0), ('thermal', kc['thermal'], ke['thermal']), ('guard', kc['guard'], ke['guard'])):
            ob('eta/is-double-antiderivative[%s]' % nm, sp.diff(-kee, tau, 2) - kce)
            ob('eta/zero-at-origin[%s]' % nm, kee.subs(tau, 0))
            ob('eta/zero-slope-at-origin[%s]' % nm, sp.diff(kee, tau).subs(tau, 0))
        # C(-tau) = conj C(tau) for real tau, real J
        for nm, kce in (('T0', kc0), ('thermal', kc['thermal'])):
            ob('corr/conj-symmetry[%s]' % nm, kce.subs(tau, -tau) - sp.conjugate(kce))
        # Re(-k_eta) = J/w^2 (1 - cos w tau) * (1 | coth): a product of non-negative factors for J >= 0
        ob('eta/re-nonneg-kernel[T0]', sp.re(sp.expand_complex(-ke0)) - J / w ** 2 * (1 - sp.cos(w * tau)))
        ob('eta/re-nonneg-kernel[thermal]', sp.re(sp.expand_complex(-ke['thermal'])) - J / w ** 2 * (1 - sp.cos(w * tau)) * coth)
        # Matsubara: with tau -> -i tau the kernels are real, so taking .real discards nothing
        ob('mats/integrand-real[correlation]', sp.im(sp.expand_complex(kc['thermal'].subs(tau, -sp.I * tau))))
        ob('mats/integrand-real[eta]', sp.im(sp.expand_complex(ke['thermal'].subs(tau, -sp.I * tau))))
        res['seconds'] = round(time.time() - t0, 3)
        return res


# ---- D. tiling: the cells of the first n steps sum to eta(n D)   (two inductions over the code's formulas)
class TilingTarget:
    name = 'tile/telescope'

    def replay(self, ob):
        return {'func': 'cells_vs_quadrature', 'inputs': {'obligation': ob['name']}}

    def run(self, timeout_ms, tier):
        from pyvc.engine import run_target
        t0 = time.time()
        res = {'target': self.name, 'function': 'bath_correlations.CustomSD.correlation_2d_integral (lemma over its cell formulas)',
               'property': PROP, 'paths': 1, 'obligations': [], 'undecided': [], 'errors': [], 'flags': ['REAL_FLOAT'],
               'lib_pure': [], 'lib_used': []}
        # cell formulas as computed BY THE CODE, in terms of eta at grid points: run the real function symbolically
        E = z3.Function('eta_grid', IntS, RealS)            # eta(k D), one real component (the identity is linear)
        repo = Repo()
        fref = repo.resolve('bath_correlations.CustomSD.correlation_2d_integral')
        if fref is None:
            res['undecided'].append('contract target missing')
            return res
        from pyvc.interp import Interp
        from pyvc import values as Vv
        D = z3.Real('D')

        def code_cell(shape, k):
            R = Registry()

            @model
            def m_eta(ip, args, kw):
                t = to_real(args[1])
                # t is an integer multiple of D: read the multiple off
                m = fresh_int('m')
                ip.add_pc(t == z3.ToReal(m) * D)
                return E(m)
            R.models['bath_correlations.CustomSD.eta_function'] = m_eta
            R.inline_now = {fref.qualname}
            Vv.reset_fresh()
            ip = Interp(repo, R, [], solver_timeout_ms=timeout_ms)
            ip.add_pc(D > 0)
            o = mkobj(repo, 'bath_correlations.CustomSD')
            val = ip.call(fref, [o], {'delta': D, 'time_1': z3.ToReal(k) * D, 'shape': shape})
            return ip, to_real(val)
        n = z3.Int('n')
        obs = []
        try:
            # inner telescoping:  Tsum(n) = sum_{k=1..n} sq(kD) = eta((n+1)D) - eta(nD) - eta(D) + eta(0)
            ip, sq = code_cell('square', n + 1)
            Tn = E(n + 1) - E(n) - E(1) + E(0)
            Tn1 = E(n + 2) - E(n + 1) - E(1) + E(0)
            s = z3.Solver()
            s.set('timeout', timeout_ms)
            s.add(ip.pc + [n >= 0, z3.Not(Tn + sq == Tn1)])
            obs.append(('tile/telescope[inner step]', s.check()))
            ip1, sq1 = code_cell('square', z3.IntVal(1))
            s = z3.Solver()
            s.add(ip1.pc + [z3.Not(sq1 == E(2) - E(1) - E(1) + E(0))])
            obs.append(('tile/telescope[inner base]', s.check()))
            # outer:  S(n) = n tri + sum_{k=1}^{n-1} (n-k) sq(kD) = eta(nD) - eta(0);  S(n+1) - S(n) = tri + Tsum(n)
            ip2, tri = code_cell('upper-triangle', z3.IntVal(0))
            s = z3.Solver()
            s.add(ip2.pc + [n >= 1, z3.Not((E(n) - E(0)) + tri + Tn == E(n + 1) - E(0))])
            obs.append(('tile/telescope[outer step]', s.check()))
            s = z3.Solver()
            s.add(ip2.pc + [z3.Not(tri == E(1) - E(0))])
            obs.append(('tile/telescope[outer base]', s.check()))
        except Unsupported as u:
            res['undecided'].append('unsupported construct: %s' % u)
        for nm, r in obs:
            res['obligations'].append({'name': nm, 'backend': 'z3', 'flags': ['REAL_FLOAT'], 'info': {}, 'pc_sat': 'sat', 'model': None,
                                       'result': 'discharged' if r == z3.unsat else ('refuted' if r == z3.sat else 'unknown'), 'seconds': 0.0})
        res['seconds'] = round(time.time() - t0, 3)
        return res


_t_pyvc = targets


def targets(tier='quick'):
    return _t_pyvc(tier) + [KernelTarget(), TilingTarget()]
