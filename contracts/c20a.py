"""C20 part A — caller arrays: frames, freshness, memory-layout independence (npalias domain).

Each target runs a REAL function on abstract caller arrays (one per layout/flag variant:
C-contiguous, Fortran-ordered, non-contiguous view, read-only) and states over the event log:
    frame/no-write-to-caller-buffer          no write reaches a buffer the caller owns
    frame/no-metadata-change-of-caller-array shape/flags of the caller's own array objects untouched
    frame/caller-containers-unchanged        lists/dicts handed in are left as they were
    layout/no-layout-dependent-exit          no exception that exists only for some memory layouts / flags
    layout/no-layout-reading-operation       no operation whose result depends on the memory layout
    fresh/<what>                             converted inputs own new, read-only buffers
"""
import z3
from .common import *
from pyvc import npalias
from pyvc.npalias import NArr, caller_array, events
from pyvc.engine import Outcome

PROP = 'C20'

VARIANTS = [('C', True), ('F', True), ('S', True), ('C', False)]


def vname(v):
    return {'C': 'C-contiguous', 'F': 'Fortran-ordered', 'S': 'non-contiguous view'}[v[0]] + ('' if v[1] else ', read-only')


def arr_registry(base=None):
    R = (base or Registry()).copy() if base is not None else Registry()
    npalias.install(R)
    return R


def dims(ip, *names):
    out = []
    for n in names:
        d = Int(n)
        ip.assume(d >= 1)
        out.append(d)
    return out


def snapshot(x):
    if isinstance(x, list):
        return ('list', [snapshot(y) if isinstance(y, (list, dict, tuple)) else id(y) for y in x])
    if isinstance(x, tuple):
        return ('tuple', [snapshot(y) if isinstance(y, (list, dict, tuple)) else id(y) for y in x])
    if isinstance(x, dict):
        return ('dict', sorted((str(k), snapshot(v) if isinstance(v, (list, dict, tuple)) else id(v)) for k, v in x.items()))
    return id(x)


def frame_obligations(ip, ctx, out, allow_exc=('AssertionError', 'ValueError', 'TypeError', 'NotImplementedError')):
    ev = events(ip)
    w = [e for e in ev if e['kind'] == 'write' and str(e['buffer_owner']).startswith('caller:')]
    ip.prove('frame/no-write-to-caller-buffer', z3.BoolVal(not w), {'events': w[:3]})
    m = [e for e in ev if e['kind'] == 'meta' and e['object_owner']]
    ip.prove('frame/no-metadata-change-of-caller-array', z3.BoolVal(not m), {'events': m[:3]})
    lr = [e for e in ev if e['kind'] in ('layout-raise', 'readonly-raise')]
    ip.prove('layout/no-layout-dependent-exit', z3.BoolVal(not lr), {'events': lr[:3]})
    rd = [e for e in ev if e['kind'] == 'layout-read']
    ip.prove('layout/no-layout-reading-operation', z3.BoolVal(not rd), {'events': rd[:3]})
    snaps = ctx.get('containers') or []
    changed = [nm for nm, obj, snap in snaps if snapshot(obj) != snap]
    ip.prove('frame/caller-containers-unchanged', z3.BoolVal(not changed), {'changed': changed})
    if out.kind == 'raise' and not lr:
        ok = any(out.raised(a) for a in allow_exc)
        ip.prove('path-accounted' if ok else 'unexpected-exception/' + out.value.typ, z3.BoolVal(ok), {'exc': out.value.typ})


def is_fresh(x):
    return isinstance(x, NArr) and x.buf.owner == 'lib' and x.owner is None


# ---- system._check_hamiltonian
def scen_check_h(variant):
    def scen(ip, repo):
        d0, d1 = dims(ip, 'rows', 'cols')
        h = caller_array('hamiltonian', (d0, d1), variant[0], variant[1])
        return {'args': [h], 'kwargs': {}, 'h': h, 'inputs': {'layout': vname(variant)}}
    return scen


def post_check_h(ip, ctx, out):
    frame_obligations(ip, ctx, out)
    if out.returned:
        r = out.value
        ip.prove('fresh/converted-hamiltonian-owns-its-buffer', z3.BoolVal(is_fresh(r)), {'result': repr(r)})


# ---- system._check_gammas_lindblad_operators
def scen_check_gl(variant):
    def scen(ip, repo):
        d = dims(ip, 'dim')[0]
        ops = [caller_array('lindblad_operators[%d]' % i, (d, d), variant[0], variant[1]) for i in range(2)]
        gam = [Real('gamma0'), Real('gamma1')]
        return {'args': [gam, ops], 'kwargs': {}, 'containers': [('gammas', gam, snapshot(gam)), ('lindblad_operators', ops, snapshot(ops))],
                'inputs': {'layout': vname(variant)}}
    return scen


def post_check_gl(ip, ctx, out):
    frame_obligations(ip, ctx, out)
    if out.returned:
        g, ops = out.value
        ip.prove('fresh/converted-lindblad-operators-own-their-buffers', z3.BoolVal(isinstance(ops, list) and all(is_fresh(o) for o in ops)),
                 {'result': repr(ops)})
        ip.prove('fresh/gammas-list-is-new', z3.BoolVal(g is not ctx['args'][0] and ops is not ctx['args'][1]))


# ---- util.add_singleton
def scen_add_singleton(variant, copy):
    def scen(ip, repo):
        d0, d1 = dims(ip, 'd0', 'd1')
        t = caller_array('tensor', (d0, d1), variant[0], variant[1])
        kw = {} if copy is None else {'copy': copy}
        return {'args': [t, 1], 'kwargs': kw, 't': t, 'copy': copy, 'inputs': {'layout': vname(variant), 'copy': copy}}
    return scen


def post_add_singleton(ip, ctx, out):
    if ctx['copy'] is False:
        # documented in-place mode: the caller asks for its own array to be reshaped; only the data must stay
        ev = events(ip)
        w = [e for e in ev if e['kind'] == 'write']
        ip.prove('frame/no-write-to-caller-buffer', z3.BoolVal(not w), {'events': w[:3]})
        return
    frame_obligations(ip, ctx, out)
    if out.returned:
        r = out.value
        ip.prove('fresh/add_singleton-result-owns-its-buffer', z3.BoolVal(is_fresh(r)), {'result': repr(r)})
        t = ctx['t']
        ok = isinstance(r, NArr) and r.shape is not None and len(r.shape) == 3 and r.shape[1] == 1
        ip.prove('shape/add_singleton-inserts-one-axis', z3.BoolVal(bool(ok)), {'result': repr(r)})


# ---- mps_mpo.AugmentedMPS.__init__
def scen_amps(variant, ranks):
    def scen(ip, repo):
        gam = []
        for i, r in enumerate(ranks):
            ds = dims(ip, *['g%d_%d' % (i, k) for k in range(r)])
            gam.append(caller_array('gammas[%d]' % i, tuple(ds), variant[0], variant[1]))
        self_ = mkobj(repo, 'mps_mpo.AugmentedMPS')
        return {'args': [self_, gam], 'kwargs': {}, 'self': self_, 'containers': [('gammas', gam, snapshot(gam))],
                'inputs': {'layout': vname(variant), 'ranks': list(ranks)}}
    return scen


def post_amps(ip, ctx, out):
    frame_obligations(ip, ctx, out)
    if out.returned:
        g = ctx['self'].fields.get('_gammas')
        ok = isinstance(g, list) and all(is_fresh(x) for x in g)
        ip.prove('fresh/stored-gammas-own-their-buffers', z3.BoolVal(bool(ok)), {'stored': repr(g)})


# ---- bath.Bath.__init__ and the array-valued properties
def bath_registry():
    R = arr_registry()

    @model
    def m_row_deg(ip, args, kw):
        return NArr(npalias.Buf('lib'), None, 'CF')
    R.models['bath._row_degeneracy'] = m_row_deg
    R.model_bases['Corr'] = ['BaseCorrelations']
    return R


def scen_bath(variant):
    def scen(ip, repo):
        d0, d1 = dims(ip, 'rows', 'cols')
        op = caller_array('coupling_operator', (d0, d1), variant[0], variant[1])
        self_ = mkobj(repo, 'bath.Bath')
        return {'args': [self_, op, Obj('Corr', {})], 'kwargs': {}, 'self': self_, 'inputs': {'layout': vname(variant)}}
    return scen


BATH_ARRAY_PROPS = ['coupling_operator', 'unitary_transform', 'coupling_acomm', 'coupling_comm', 'north_degeneracy_map', 'west_degeneracy_map']


def post_bath(ip, ctx, out):
    frame_obligations(ip, ctx, out)
    if not out.returned:
        return
    o = ctx['self']
    stored = {k: v for k, v in o.fields.items() if isinstance(v, NArr)}
    bad = [k for k, v in stored.items() if str(v.buf.owner).startswith('caller:')]
    ip.prove('fresh/bath-stores-no-caller-buffer', z3.BoolVal(not bad), {'fields on a caller buffer': bad})
    before = len(events(ip))
    for pr in BATH_ARRAY_PROPS:
        try:
            v = ip.getattr(o, pr)
        except PyRaise as e:
            ip.prove('unexpected-exception/' + e.exc.typ, z3.BoolVal(False), {'property': pr})
            continue
        internal = [k for k, w_ in stored.items() if isinstance(v, NArr) and w_.buf is v.buf]
        ip.prove('expose/Bath.%s-cannot-be-used-to-change-the-bath' % pr, z3.BoolVal(isinstance(v, NArr) and (not internal or not v.writable)),
                 {'writable and sharing the buffer of': internal})


# ---- system.System.__init__ and its array-valued properties
def scen_system(variant):
    def scen(ip, repo):
        d = dims(ip, 'dim')[0]
        h = caller_array('hamiltonian', (d, d), variant[0], variant[1])
        ops = [caller_array('lindblad_operators[%d]' % i, (d, d), variant[0], variant[1]) for i in range(2)]
        gam = [Real('gamma0'), Real('gamma1')]
        self_ = mkobj(repo, 'system.System')
        return {'args': [self_, h, gam, ops], 'kwargs': {}, 'self': self_,
                'containers': [('gammas', gam, snapshot(gam)), ('lindblad_operators', ops, snapshot(ops))], 'inputs': {'layout': vname(variant)}}
    return scen


def post_system(ip, ctx, out):
    frame_obligations(ip, ctx, out)
    if not out.returned:
        return
    o = ctx['self']

    def arrays(v):
        if isinstance(v, NArr):
            return [v]
        if isinstance(v, (list, tuple)):
            return [a for x in v for a in arrays(x)]
        return []
    bad = [k for k, v in o.fields.items() if any(str(a.buf.owner).startswith('caller:') for a in arrays(v))]
    ip.prove('fresh/system-stores-no-caller-buffer', z3.BoolVal(not bad), {'fields on a caller buffer': bad})
    h = ip.getattr(o, 'hamiltonian')
    ip.prove('expose/System.hamiltonian-cannot-be-used-to-change-the-system',
             z3.BoolVal(isinstance(h, NArr) and (h.buf is not o.fields['_hamiltonian'].buf or not h.writable)))
    lst = ip.getattr(o, 'lindblad_operators')
    ip.prove('expose/System.lindblad_operators-is-a-new-list', z3.BoolVal(isinstance(lst, list) and lst is not o.fields['_lindblad_operators']))


# ---- the state / target arrays of the contraction routines (real functions, ghost models of dyn/dynf/grad)
def scen_dyn(variant, which):
    from . import dyn, dynf, grad

    def scen(ip, repo):
        if which == 'compute_dynamics':
            ctx = dyn.cd_scenario(ip, repo, num_envs=1)
            g = ctx['g']
            a = caller_array('initial_state', (g['hs_dim'], g['hs_dim']), variant[0], variant[1])
            g['initial_state'] = a
            ctx['kwargs']['initial_state'] = a
            ctx['arrays'] = [a]
        elif which == 'compute_dynamics_with_field':
            ctx = dynf.cdwf_scenario(2)(ip, repo)
            g = ctx['g']
            hs = Int('hs_dim')
            ip.assume(hs >= 1)
            arrs = [caller_array('initial_state_list[%d]' % i, (hs, hs), variant[0], variant[1]) for i in range(2)]
            g['initial_states'][:] = arrs
            ctx['containers'] = [('initial_state_list', g['initial_states'], snapshot(g['initial_states']))]
            ctx['arrays'] = arrs
        else:
            ctx = grad.grad_scenario(num_envs=1)(ip, repo)
            g = ctx['g']
            a = caller_array('initial_state', (g['hs_dim'], g['hs_dim']), variant[0], variant[1])
            t = caller_array('target_derivative', (g['hs_dim'], g['hs_dim']), variant[0], variant[1])
            g['initial_state'] = a
            ctx['kwargs']['initial_state'] = a
            ctx['kwargs']['target_derivative'] = t
            ctx['arrays'] = [a, t]
        ctx['inputs'] = dict(ctx.get('inputs') or {}, layout=vname(variant))
        return ctx
    return scen


def dyn_registry(which):
    from . import dyn, dynf, grad
    R = {'compute_dynamics': dyn.cd_registry, 'compute_dynamics_with_field': dynf.cdwf_registry, 'gradient': grad.grad_registry}[which]()
    npalias.install(R)
    inner = R.lib_models['tensornetwork.Node']

    @model
    def m_node(ip, args, kw):
        """tn.Node(array) keeps the array object (numpy back end: no copy): from here on the network
        is the ghost value of the dyn/dynf/grad contracts, every operation on it builds new tensors"""
        a = args[0]
        if isinstance(a, NArr):
            ip.ghost.setdefault('node_arrays', []).append(a)
            a = Vc('value_of_array_%d' % len(ip.ghost['node_arrays']))
            ip.add_pc(a != NONE)
        return inner(ip, [a] + list(args[1:]), kw)
    R.lib_models['tensornetwork.Node'] = m_node
    return R


ARRAY_OBLIGATIONS = ('frame/', 'layout/', 'fresh/', 'expose/', 'shape/', 'unexpected-exception/', 'path-accounted')


def keep_array(name):
    # the call-site and loop obligations of the dyn/dynf/grad contracts are discharged under C02/C03/C08/C09/C13
    return name.startswith(ARRAY_OBLIGATIONS)


def path_end_dyn(ip, ctx):
    frame_obligations(ip, ctx, Outcome('return', None))


def post_dyn(ip, ctx, out):
    frame_obligations(ip, ctx, out, allow_exc=('AssertionError', 'ValueError', 'TypeError', 'IndexError', 'UserError', 'NotImplementedError'))


# ---- TEMPO: the input parser stores a converted copy of the initial state (arr/store[_tempo_physical_input_parse]); the back end works on a view of THAT
def scen_backend_init(variant):
    from . import c01

    def scen(ip, repo):
        ctx = c01.scen_init(False, False)(ip, repo)
        d = Int('dim')
        ip.assume(d >= 1)
        rho = caller_array('initial_state', (d, d), variant[0], variant[1])
        view = npalias.reshape(ip, rho, (d * d,))          # Tempo._prepare_backend: self._initial_state.reshape(dim**2)
        ctx['o'].fields['_initial_state'] = view
        ctx['rho'] = rho
        ctx['inputs'] = dict(ctx['inputs'], layout=vname(variant))
        return ctx
    return scen


def backend_registry():
    from . import c01
    R = c01.init_registry()
    npalias.install(R)
    return R


def post_backend_init(ip, ctx, out):
    # (whether the back end copies the state or works on a view of Tempo's own copy is its business; nothing is ever written through it)
    frame_obligations(ip, ctx, out)


# ---- conversion sites that STORE caller arrays in library objects / results: what is kept owns its buffer
def _reachable_arrays(x, seen=None, depth=0):
    seen = set() if seen is None else seen
    if id(x) in seen or depth > 6:
        return []
    seen.add(id(x))
    if isinstance(x, NArr):
        return [x]
    out = []
    if isinstance(x, (list, tuple)):
        for y in x:
            out += _reachable_arrays(y, seen, depth + 1)
    elif isinstance(x, dict):
        for y in x.values():
            out += _reachable_arrays(y, seen, depth + 1)
    elif hasattr(x, 'fields') and isinstance(getattr(x, 'fields'), dict):
        for y in x.fields.values():
            out += _reachable_arrays(y, seen, depth + 1)
    return out


def shares_caller_buffer(x):
    return [repr(a) for a in _reachable_arrays(x) if str(a.buf.owner).startswith('caller:')]


STORE_CASES = {
    # name: (qualname, class or None, fields of self, argument builder(ip, variant) -> (args, kwargs))
    '_parse_state': ('dynamics._parse_state', None, {}, lambda ip, v, A: ([A('state', 2), None], {})),
    'Dynamics.add': ('dynamics.Dynamics.add', 'dynamics.Dynamics', {'_times': [], '_states': [], '_shape': None},
                     lambda ip, v, A: ([Real('time'), A('state', 2)], {})),
    'SimpleProcessTensor.set_initial_tensor': ('process_tensor.SimpleProcessTensor.set_initial_tensor', 'process_tensor.SimpleProcessTensor',
                                               {'_initial_tensor': None, '_mpo_tensors': [], '_cap_tensors': []},
                                               lambda ip, v, A: ([A('initial_tensor', 2)], {})),
    'SimpleProcessTensor.set_mpo_tensor': ('process_tensor.SimpleProcessTensor.set_mpo_tensor', 'process_tensor.SimpleProcessTensor',
                                           {'_initial_tensor': None, '_mpo_tensors': [], '_cap_tensors': []},
                                           lambda ip, v, A: ([2, A('tensor', 4)], {})),
    'SimpleProcessTensor.set_cap_tensor': ('process_tensor.SimpleProcessTensor.set_cap_tensor', 'process_tensor.SimpleProcessTensor',
                                           {'_initial_tensor': None, '_mpo_tensors': [], '_cap_tensors': []},
                                           lambda ip, v, A: ([1, A('tensor', 1)], {})),
    '_tempo_physical_input_parse': ('tempo._tempo_physical_input_parse', None, {}, None),
    'SimpleProcessTensor.__init__': ('process_tensor.SimpleProcessTensor.__init__', 'process_tensor.SimpleProcessTensor', {},
                                     lambda ip, v, A: ([Int('hs_dim')], {'transform_in': A('transform_in', 2), 'transform_out': A('transform_out', 2)})),
    'Gate': ('mps_mpo.Gate.__init__', 'mps_mpo.Gate', {}, lambda ip, v, A: ([[0, 1], [A('tensors[0]', 3), A('tensors[1]', 3, first='tensors[0]_2')]], {})),
    'ChainControl.add_single_site_control': ('control.ChainControl.add_single_site_control', 'control.ChainControl',
                                             {'_hs_dims': None, '_single_site_controls_pre': [], '_single_site_controls_post': []},
                                             None),
    'Control.add_single[step]': ('control.Control.add_single', 'control.Control', {}, None),
}


def scen_store(case, variant):
    qual, cls, fields, mk = STORE_CASES[case]

    def scen(ip, repo):
        arrays = []

        def A(name, rank, first=None):
            ds = dims(ip, *['%s_%d' % (name, k) for k in range(rank)])
            if first is not None:
                ds[0] = Int(first)
            a = caller_array(name, tuple(ds), variant[0], variant[1])
            arrays.append(a)
            return a
        if case == '_tempo_physical_input_parse':
            d = dims(ip, 'hs_dim')[0]
            a = caller_array('initial_state', (d, d), variant[0], variant[1])
            arrays.append(a)
            system = mkobj(repo, 'system.System', _dimension=d)
            bath = mkobj(repo, 'bath.Bath', _dimension=d)
            return {'args': [False, system, a, bath], 'kwargs': {}, 'self': None, 'arrays': arrays, 'containers': [],
                    'inputs': {'layout': vname(variant), 'site': case}}
        if case == 'ChainControl.add_single_site_control':
            d = dims(ip, 'hs_dim')[0]
            self_ = mkobj(repo, cls, _hs_dims=[d, d], _single_site_controls_pre=[], _single_site_controls_post=[])
            a = caller_array('control', (d * d, d * d), variant[0], variant[1])
            arrays.append(a)
            args, kw = [a, 1, 3], {'post': Bool('post')}
        elif case.startswith('Control.add_single'):
            d = dims(ip, 'hs_dim')[0]
            self_ = mkobj(repo, cls, _dimension=d, _step_controls={'pre': {}, 'post': {}}, _time_controls={'pre': {}, 'post': {}},
                          _control_times={'pre': Seq(z3.IntVal(0), lambda i: z3.RealVal(0), 'ndarray'), 'post': Seq(z3.IntVal(0), lambda i: z3.RealVal(0), 'ndarray')})
            a = caller_array('control_operation', (d * d, d * d), variant[0], variant[1])
            arrays.append(a)
            args, kw = [(3 if case.endswith('[step]') else 0.3), a], {'post': Bool('post')}
        else:
            args, kw = mk(ip, variant, A)
            self_ = None
            if cls is not None:
                import copy as _c
                self_ = mkobj(repo, cls, **{k: (_c.copy(v) if isinstance(v, list) else v) for k, v in fields.items()})
        conts = [(('args[%d]' % i), a, snapshot(a)) for i, a in enumerate(args) if isinstance(a, list)]
        return {'args': ([self_] if self_ is not None else []) + args, 'kwargs': kw, 'self': self_, 'arrays': arrays, 'containers': conts,
                'inputs': {'layout': vname(variant), 'site': case}}
    return scen


def post_store(ip, ctx, out):
    frame_obligations(ip, ctx, out)
    if out.returned:
        kept = ctx['self'] if ctx['self'] is not None else out.value
        sh = shares_caller_buffer(kept)
        n = len(_reachable_arrays(kept))
        ip.prove('fresh/stored-arrays-own-their-buffers', z3.BoolVal(not sh and n >= 1), {'arrays kept': n, 'sharing a buffer with a caller array': sh[:3]})


def rp(ob):
    if 'arr/store[' in (ob.get('target') or ''):
        return {'func': 'stored_arrays', 'inputs': {'obligation': ob['name'], 'target': ob.get('target')}}
    return {'func': 'arrays', 'inputs': {'obligation': ob['name'], 'target': ob.get('target'), 'info': ob.get('info')}}


def targets(tier='quick'):
    T = []
    R = arr_registry()
    for v in VARIANTS:
        n = vname(v)
        T.append(Target('arr/_check_hamiltonian[%s]' % n, 'system._check_hamiltonian', scen_check_h(v), post_check_h, R, PROP, replay=rp))
        T.append(Target('arr/_check_gammas_lindblad_operators[%s]' % n, 'system._check_gammas_lindblad_operators', scen_check_gl(v), post_check_gl,
                        R, PROP, replay=rp))
        for cp in (None, True, False):
            T.append(Target('arr/add_singleton[%s,copy=%s]' % (n, cp), 'util.add_singleton', scen_add_singleton(v, cp), post_add_singleton, R, PROP,
                            replay=rp))
        T.append(Target('arr/Bath[%s]' % n, 'bath.Bath.__init__', scen_bath(v), post_bath, bath_registry(), PROP, replay=rp))
        T.append(Target('arr/System[%s]' % n, 'system.System.__init__', scen_system(v), post_system, R, PROP, replay=rp))
        for which, q in (('compute_dynamics', 'system_dynamics.compute_dynamics'),
                         ('compute_dynamics_with_field', 'system_dynamics.compute_dynamics_with_field'),
                         ('gradient', 'gradient.compute_gradient_and_dynamics')):
            t = Target('arr/%s[%s]' % (which, n), q, scen_dyn(v, which), post_dyn, dyn_registry(which), PROP, replay=rp)
            t.keep, t.path_end = keep_array, path_end_dyn
            T.append(t)
        t = Target('arr/TempoBackend.initialize_mps_mpo[%s]' % n, 'backends.tempo_backend.BaseTempoBackend.initialize_mps_mpo',
                   scen_backend_init(v), post_backend_init, backend_registry(), PROP, replay=rp)
        t.keep, t.path_end = keep_array, path_end_dyn
        T.append(t)
        for case in STORE_CASES:
            T.append(Target('arr/store[%s,%s]' % (case, n), STORE_CASES[case][0], scen_store(case, v), post_store, R, PROP, replay=rp))
        for ranks in ((1, 1), (2, 2), (3, 3), (4, 4), (2, 3)):
            T.append(Target('arr/AugmentedMPS[%s,ranks=%s]' % (n, ranks), 'mps_mpo.AugmentedMPS.__init__', scen_amps(v, ranks), post_amps, R, PROP,
                            replay=rp))
    return T


# ---- PtTebd: "objects built from it earlier are unaffected" -- the parameters (public setters dt / order / epsrel) and the system chain
# (public add_* methods) handed to the constructor may change afterwards; the PtTebd object answers for the values it was built with
def tebd_snapshot_registry():
    R = Registry()

    @model
    def m_prop(ip, args, kw):
        names = ['system_chain', 'time_step', 'epsrel', 'order']
        A = {n: (kw[n] if n in kw else (args[i] if i < len(args) else None)) for i, n in enumerate(names)}
        ch = A['system_chain']
        ip.ghost['prop_call'] = {'time_step': A['time_step'], 'epsrel': A['epsrel'], 'order': A['order'],
                                 'site': list(ch.fields['_site_liouvillians']) if isinstance(ch, Obj) else None,
                                 'nn': list(ch.fields['_nn_liouvillians']) if isinstance(ch, Obj) else None}
        return Obj('TebdProp', {})
    R.models['mps_mpo.compute_tebd_propagator'] = m_prop

    @model
    def m_none(ip, args, kw):
        return None

    @model
    def m_backend(ip, args, kw):
        ip.ghost['backend_epsrel'] = kw.get('epsrel')
        return Obj('TMps', {})
    R.models['backends.pt_tebd_backend.PtTebdBackend'] = m_backend
    for nm in ('_init_results', '_apply_controls', '_append_results'):
        R.models['pt_tebd.PtTebd.' + nm] = m_none

    @model
    def m_copy_generic(ip, args, kw):
        from pyvc.lib import copy_deepcopy
        return copy_deepcopy(ip, args, kw)
    return R


def scen_tebd_snapshot(ip, repo):
    dt, eps, order = Real('dt'), Real('epsrel'), Int('order')
    ip.assume(z3.And(dt > 0, eps > 0))
    par = mkobj(repo, 'pt_tebd.PtTebdParameters', _dt=dt, _epsrel=eps, _order=order, name=None, description=None)
    site, nn = [Vc('site_liouvillian_%d' % i) for i in range(3)], [Vc('nn_liouvillian_%d' % i) for i in range(2)]
    chain = mkobj(repo, 'system.SystemChain', _hs_dims=[2, 2, 2], _site_liouvillians=list(site), _nn_liouvillians=list(nn), name=None, description=None)
    mps = mkobj(repo, 'mps_mpo.AugmentedMPS', _gammas=Vc('gammas'), _lambdas=Vc('lambdas'), _n=3)
    t0, s0 = Real('start_time'), Int('start_step')
    cls = repo.resolve('pt_tebd.PtTebd')
    if cls is None:
        raise Unsupported('contract target missing: pt_tebd.PtTebd')
    try:
        ctl = mkobj(repo, 'control.ChainControl', _hs_dims=[2, 2, 2])
        o = ip.call(cls, [mps, chain, [None, None, None], par], {'start_time': t0, 'start_step': s0, 'chain_control': ctl})
    except PyRaise:
        raise Infeasible()
    # afterwards the caller changes what it handed in (through the public interface: setters, add_* methods)
    par.fields['_dt'], par.fields['_epsrel'], par.fields['_order'] = Real('dt_changed'), Real('epsrel_changed'), Int('order_changed')
    chain.fields['_site_liouvillians'][0] = Vc('site_liouvillian_changed')
    chain.fields['_nn_liouvillians'][1] = Vc('nn_liouvillian_changed')
    return {'args': [o], 'o': o, 'dt': dt, 'eps': eps, 'order': order, 'site': site, 'nn': nn, 't0': t0, 's0': s0,
            'inputs': {'history': 'PtTebd(...), then parameters.dt / epsrel / order changed and the chain extended, then initialize() / time()'}}


def invoke_tebd_snapshot(ip, repo, fref, ctx):
    o = ctx['o']
    k = Int('step')
    t = ip.call(o.cls.find('time'), [o, k], {})
    ip.call(o.cls.find('initialize'), [o], {})
    return t, k


def post_tebd_snapshot(ip, ctx, out):
    if not expect_no_other_exception(ip, out):
        return
    t, k = out.value
    ip.prove('fresh/pt-tebd/time-uses-the-dt-it-was-built-with', veq(t, ctx['t0'] + ctx['dt'] * to_real(k - ctx['s0'])), {'time(step)': repr(t)})
    pc = ip.ghost.get('prop_call')
    if pc is None:
        return ip.prove('fresh/pt-tebd/propagator-built', z3.BoolVal(False))
    ip.prove('fresh/pt-tebd/propagator-uses-the-parameters-it-was-built-with',
             z3.And(veq(pc['time_step'], ctx['dt'] / 2), veq(pc['epsrel'], ctx['eps']), veq(pc['order'], ctx['order'])),
             {'time_step': repr(pc['time_step']), 'epsrel': repr(pc['epsrel']), 'order': repr(pc['order'])})
    same_chain = pc['site'] is not None and len(pc['site']) == 3 and len(pc['nn']) == 2
    ip.prove('fresh/pt-tebd/propagator-uses-the-chain-it-was-built-with',
             z3.And([veq(a, b) for a, b in zip(pc['site'] + pc['nn'], ctx['site'] + ctx['nn'])]) if same_chain else z3.BoolVal(False),
             {'site terms': repr(pc['site']), 'bond terms': repr(pc['nn'])})
    be = ip.ghost.get('backend_epsrel')
    ip.prove('fresh/pt-tebd/backend-uses-the-tolerance-it-was-built-with', veq(be, ctx['eps']) if be is not None else z3.BoolVal(False), {'epsrel handed over': repr(be)})


_t_arr = targets


def targets(tier='quick'):
    T = _t_arr(tier)
    T.append(Target('fresh/PtTebd-snapshot', 'pt_tebd.PtTebd.__init__', scen_tebd_snapshot, post_tebd_snapshot, tebd_snapshot_registry(), PROP,
                    invoke=invoke_tebd_snapshot, replay=lambda ob: {'func': 'pt_tebd_snapshot', 'inputs': {'obligation': ob['name']}}))
    return T


# ---- ParameterizedSystem: the lists of rate / Lindblad callables it keeps are its own (the caller may go on editing its lists)
def scen_psys_lists(ip, repo):
    g0, g1, l0, l1 = [user_callable(n, raises=False) for n in ('gamma_0', 'gamma_1', 'lindblad_0', 'lindblad_1')]
    gammas, lops = [g0, g1], [l0, l1]
    return {'args': [gammas, lops, 2], 'gammas': gammas, 'lops': lops, 'inputs': {'site': 'ParameterizedSystem(gammas=[..], lindblad_operators=[..])'}}


def post_psys_lists(ip, ctx, out):
    if out.kind == 'raise':
        return ip.prove('path-accounted', z3.BoolVal(True))
    kept = out.value
    ok = isinstance(kept, tuple) and len(kept) == 2 and all(isinstance(x, list) for x in kept)
    own = ok and kept[0] is not ctx['gammas'] and kept[1] is not ctx['lops'] and kept[0] is not kept[1]
    same = ok and len(kept[0]) == 2 and len(kept[1]) == 2 and all(a is b for a, b in zip(kept[0] + kept[1], ctx['gammas'] + ctx['lops']))
    ip.prove('fresh/kept-lists-are-not-the-caller-lists', z3.BoolVal(bool(own)), {'kept': repr(kept)[:200]})
    ip.prove('fresh/kept-lists-hold-the-given-callables', z3.BoolVal(bool(same)))
    ip.prove('frame/caller-lists-unchanged', z3.BoolVal(len(ctx['gammas']) == 2 and len(ctx['lops']) == 2))


def psys_registry():
    R = Registry()

    @model
    def m_ok(ip, args, kw):
        return None
    R.models['system._check_gammas_lindblad_operators'] = m_ok
    return R


_t_arr2 = targets


def targets(tier='quick'):
    T = _t_arr2(tier)
    T.append(Target('fresh/ParameterizedSystem-lists', 'system._check_parameterized_gammas_lindblad_operators', scen_psys_lists, post_psys_lists,
                    psys_registry(), PROP, replay=lambda ob: {'func': 'parameterized_system_lists', 'inputs': {}}))
    return T
