"""C01 (partial) — the influence coefficients and memory settings have their documented meaning.

Spec (from the TempoParameters docstring and [Strathearn2017]); K = dkmax, tau = add_correlation_time:
   dk = 0        -> triangle(D = dt)
   0 < dk        -> square(t1 = dk dt)
   dk < 0        -> rectangle(t1 = K dt, t2 = K dt + min(-dk dt, dt + tau))   if tau is not None, else no influence
   Infl(cell)[i, j] = exp( -( Re eta * O-_i + i Im eta * O+_i ) * O-_j )          (i earlier, j later)
exp of a complex number = E(re) (C(im) + i S(im)) with uninterpreted E, C, S and the axioms
E(0)=1, C(0)=1, S(0)=0, C even, S odd  (EXP_AXIOMS).
"""
import z3
from .common import *
from pyvc.lib import as_seq

PROP = 'C01'
RealS, IntS = z3.RealSort(), z3.IntSort()
E = z3.Function('E_exp', RealS, RealS)
Cc = z3.Function('C_cos', RealS, RealS)
Ss = z3.Function('S_sin', RealS, RealS)
OM = z3.Function('O_minus', IntS, RealS)         # commutator eigen-differences  O-_i
OP = z3.Function('O_plus', IntS, RealS)          # anti-commutator eigen-sums     O+_i


def cexp(z):
    z = to_cx(z)
    return Cx(E(z.re) * Cc(z.im), E(z.re) * Ss(z.im))


class Mat2:
    """2-d array as an index function (npmodel, NP_ELEMENTWISE)"""

    def __init__(self, shape, fn):
        self.shape, self.fn = shape, fn

    def pv_getattr(self, ip, attr):
        if attr == 'T':
            return Mat2((self.shape[1], self.shape[0]), lambda i, j: self.fn(j, i))
        if attr == 'shape':
            return self.shape
        raise Unsupported('matrix attribute %s' % attr)

    def pv_binop(self, ip, opname, other, reflected=False):
        from pyvc.lib import binop
        import ast
        op = {'mul': ast.Mult(), 'add': ast.Add(), 'sub': ast.Sub(), 'div': ast.Div()}.get(opname)
        if op is None or isinstance(other, (Mat2, Seq)):
            raise Unsupported('matrix operator %s' % opname)
        if reflected:
            return Mat2(self.shape, lambda i, j: binop(ip, op, other, self.fn(i, j)))
        return Mat2(self.shape, lambda i, j: binop(ip, op, self.fn(i, j), other))

    def pv_getitem(self, ip, idx):
        if isinstance(idx, Seq):          # row gather with an integer array
            rows = idx.copy()
            return Mat2((rows.length, self.shape[1]), lambda i, j: self.fn(rows.fn(i), j))
        raise Unsupported('matrix index %r' % (idx,))


def np_registry():
    R = Registry()

    @model
    def m_exp(ip, args, kw):
        x = args[0]
        ip.flags.add('EXP_AXIOMS')
        if isinstance(x, Seq):
            s = x.copy()
            return Seq(s.length, lambda i: cexp(s.fn(i)), 'ndarray')
        if isinstance(x, Mat2):
            return Mat2(x.shape, lambda i, j: cexp(x.fn(i, j)))
        return cexp(x)

    @model
    def m_diag(ip, args, kw):
        x = args[0]
        if isinstance(x, Seq):
            s = x.copy()
            return Mat2((s.length, s.length), lambda i, j: ite(i == j, s.fn(i), Cx(0, 0)))
        if isinstance(x, Mat2):
            return Seq(x.shape[0], lambda i: x.fn(i, i), 'ndarray')
        raise Unsupported('np.diag')

    @model
    def m_outer(ip, args, kw):
        a, b = args[0].copy(), args[1].copy()
        from pyvc.lib import binop
        import ast
        return Mat2((a.length, b.length), lambda i, j: binop(ip, ast.Mult(), a.fn(i), b.fn(j)))

    @model
    def m_min(ip, args, kw):
        xs = args[0]
        a, b = to_real(xs[0]), to_real(xs[1])
        return z3.If(a <= b, a, b)
    R.lib_models['numpy.exp'] = m_exp
    R.lib_models['numpy.diag'] = m_diag
    R.lib_models['numpy.outer'] = m_outer
    R.lib_models['numpy.min'] = m_min

    @model
    def m_c2d(ip, args, kw):
        ip.ghost['cell'] = kw
        return Cx(Real('eta_re'), Real('eta_im'))
    R.models['Corr.correlation_2d_integral'] = m_c2d
    return R


def scen_infl(case, tau_given=True, deg=False):
    def scen(ip, repo):
        dt, eps = Real('dt'), Real('epsrel')
        K = Int('dkmax')
        dk = Int('dk')
        n = Int('n')
        ip.assume(z3.And(dt > 0, K >= 1, n >= 1))
        ip.assume({'zero': dk == 0, 'pos': dk > 0, 'neg': dk < 0}[case])
        tau = Real('add_correlation_time') if tau_given else None
        if tau_given:
            ip.assume(tau >= 0)
        # the parameters object is built by the real constructor; the stored cutoff time is left free (tcut >= 0): the
        # constructor only guarantees dkmax = ceil(round(tcut/dt)) (mem/* obligations), NOT tcut = dkmax*dt, and the
        # documented meaning of the memory length is the step count dkmax
        ip.assume(eps > 0)
        params = mkobj_init(ip, repo, 'tempo.TempoParameters', kwargs={'dt': dt, 'epsrel': eps, 'dkmax': K, 'add_correlation_time': tau})
        tc = Real('tcut')
        ip.assume(tc >= 0)
        params.fields['_tcut'] = tc
        acomm = Seq(n, lambda i: OP(i), 'ndarray')
        comm = Seq(n, lambda i: OM(i), 'ndarray')
        degp = None
        if deg:
            kn, kw_ = Int('n_north'), Int('n_west')
            ip.assume(z3.And(kn >= 1, kw_ >= 1))
            rn, rw = z3.Function('rep_north', IntS, IntS), z3.Function('rep_west', IntS, IntS)
            q = Int('q')
            ip.assume(z3.ForAll([q], z3.And(rn(q) >= 0, rn(q) < n, rw(q) >= 0, rw(q) < n)),
                      'requires: representative positions are valid indices (deg/representative)')
            degp = [Seq(kn, lambda a: rn(a), 'ndarray'), Seq(kw_, lambda b: rw(b), 'ndarray')]
        return {'args': [dk], 'kwargs': {'parameters': params, 'correlations': Obj('Corr', {}), 'coupling_acomm': acomm,
                                          'coupling_comm': comm, 'deg_positions': degp},
                'dk': dk, 'dt': dt, 'K': K, 'tau': tau, 'n': n, 'case': case, 'deg': deg, 'eps': eps,
                'inputs': {'dk': dk, 'dkmax': K, 'dt': dt}}
    return scen


def arg_of(eta, i, j):
    """-( Re eta O-_i + i Im eta O+_i ) O-_j"""
    return Cx(-(eta.re * OM(i)) * OM(j), -(eta.im * OP(i)) * OM(j))


def post_infl(ip, ctx, out):
    if not expect_no_other_exception(ip, out):
        return
    dk, dt, K, tau, case = ctx['dk'], ctx['dt'], ctx['K'], ctx['tau'], ctx['case']
    if case == 'neg' and tau is None:
        return ip.prove('infl/cell-args[no influence beyond dkmax without add_correlation_time]', z3.BoolVal(out.value is None))
    cell = ip.ghost['cell']
    t1, t2, shape = cell['time_1'], cell['time_2'], cell['shape']
    if case == 'zero':
        ok = z3.And(z3.BoolVal(shape == 'upper-triangle' and t2 is None), to_real(t1) == 0)
    elif case == 'pos':
        ok = z3.And(z3.BoolVal(shape == 'square' and t2 is None), to_real(t1) == z3.ToReal(dk) * dt)
    else:
        m = z3.If(z3.ToReal(-dk) * dt <= dt + tau, z3.ToReal(-dk) * dt, dt + tau)
        ok = z3.And(z3.BoolVal(shape == 'rectangle'), to_real(t1) == z3.ToReal(K) * dt, to_real(t2) == z3.ToReal(K) * dt + m)
    ip.prove('infl/cell-args[%s]' % case, z3.And(ok, to_real(cell['delta']) == dt, veq(cell['epsrel'], ctx['eps'])))
    eta = Cx(Real('eta_re'), Real('eta_im'))
    res = out.value
    i, j = fresh_int('i'), fresh_int('j')
    n = ctx['n']
    for f in (E, ):
        ip.assume(z3.And(E(0) == 1, Cc(0) == 1, Ss(0) == 0), 'EXP_AXIOMS: exp(0) = 1')
    if not ctx['deg']:
        if case == 'zero':
            d = res.fn(i, i)
            ip.prove('infl/formula[dk=0]', z3.Implies(z3.And(i >= 0, i < n), veq(d, cexp(arg_of(eta, i, i)))))
            off = res.fn(i, j)
            ip.prove('infl/formula[dk=0 off-diagonal zero]', z3.Implies(i != j, veq(off, Cx(0, 0))))
        else:
            got = res.fn(i, j)
            ip.prove('infl/formula', z3.Implies(z3.And(i >= 0, i < n, j >= 0, j < n), veq(got, cexp(arg_of(eta, i, j)))))
            # trace mechanism: the later index commutes  ->  factor 1
            ip.prove('infl/unit-when-later-commutes', z3.Implies(OM(j) == 0, veq(got, Cx(1, 0))))
            # Hermiticity mechanism: (i,j) -> partners with O- -> -O-, O+ -> O+ conjugates the entry
            ib, jb = fresh_int('ibar'), fresh_int('jbar')
            partner = z3.And(OM(ib) == -OM(i), OP(ib) == OP(i), OM(jb) == -OM(j), OP(jb) == OP(j))
            a = arg_of(eta, i, j)
            ip.assume(z3.And(Cc(-a.im) == Cc(a.im), Ss(-a.im) == -Ss(a.im)), 'EXP_AXIOMS: cos even, sin odd (instance)')
            gb = to_cx(res.fn(ib, jb))
            g = to_cx(got)
            ip.prove('infl/conj-symmetry', z3.Implies(partner, z3.And(gb.re == g.re, gb.im == -g.im)))
            # degeneracy congruence (C06): equal (O-, O+) rows give equal rows, equal O- columns give equal columns
            i2, j2 = fresh_int('i2'), fresh_int('j2')
            ip.prove('deg/congruence', z3.And(
                z3.Implies(z3.And(OM(i2) == OM(i), OP(i2) == OP(i)), veq(res.fn(i2, j), got)),
                z3.Implies(OM(j2) == OM(j), veq(res.fn(i, j2), got))))
    else:
        rn, rw = z3.Function('rep_north', IntS, IntS), z3.Function('rep_west', IntS, IntS)
        if case == 'zero':
            v = res.fn(i)
            ip.prove('deg/factorisation[dk=0]', veq(v, cexp(arg_of(eta, rn(i), rn(i)))))
        else:
            ip.prove('deg/factorisation', veq(res.fn(i, j), cexp(arg_of(eta, rn(i), rw(j)))))


# ---- memory parameter parsing
def scen_mem(which):
    def scen(ip, repo):
        dt = Real('dt')
        ip.assume(dt > 0)
        tcut = Real('tcut') if which in ('tcut', 'both') else None
        dk = Int('dkmax') if which in ('dkmax', 'both') else None
        return {'args': [tcut, dk, dt], 'tcut': tcut, 'dkmax': dk, 'dt': dt, 'which': which, 'inputs': {'tcut': tcut, 'dkmax': dk, 'dt': dt}}
    return scen


def post_mem(ip, ctx, out):
    which, dt = ctx['which'], ctx['dt']
    if which == 'both':
        return ip.prove('mem/exclusive', z3.BoolVal(out.raised('AssertionError')))
    if which == 'none':
        if expect_no_other_exception(ip, out):
            ip.prove('mem/none', z3.BoolVal(out.value == (None, None)))
        return
    if out.raised('ValueError'):
        neg = ctx['tcut'] < 0 if which == 'tcut' else ctx['dkmax'] < 0
        return ip.prove('mem/rejects-negative', neg)
    if not expect_no_other_exception(ip, out):
        return
    tc, dk = out.value
    if which == 'tcut':
        ip.prove('mem/dkmax-from-tcut', z3.And(to_int(dk) == round_half_even(ctx['tcut'] / dt), veq(tc, ctx['tcut'])))
    else:
        ip.prove('mem/tcut-from-dkmax', z3.And(to_real(tc) == z3.ToReal(ctx['dkmax']) * dt, to_int(dk) == ctx['dkmax']))


def rp(ob):
    if ob['name'].startswith('mem/'):
        return {'func': 'memory_time_parsing', 'inputs': {'obligation': ob['name']}}
    return {'func': 'independent_boson', 'inputs': {'obligation': ob['name']}}


def targets(tier='quick'):
    R = np_registry()
    T = []
    q = 'tempo.influence_matrix'
    for case in ('zero', 'pos', 'neg'):
        for deg in (False, True):
            T.append(Target('infl[%s,deg=%s]' % (case, deg), q, scen_infl(case, True, deg), post_infl, R, PROP, replay=rp))
    T.append(Target('infl[neg,no add_correlation_time]', q, scen_infl('neg', False), post_infl, R, PROP, replay=rp))
    R0 = Registry()
    for which in ('tcut', 'dkmax', 'both', 'none'):
        T.append(Target('mem/%s' % which, 'tempo._parameter_memory_input_parse', scen_mem(which), post_mem, R0, PROP, replay=rp))
    return T


META = {'level': 'proof', 'explanation': '', 'trusted_base': [], 'clauses': []}


_t_infl = targets


def targets(tier='quick'):
    from . import na
    return _t_infl(tier) + na.targets_na(PROP)


# ---- which influence enters at which position at step n (tempo/step-cells, tempo/mps-length, tempo/mpo-frame)
Tm = z3.Function('mpo_tensor_for_dk', IntS, V)       # the persistent MPO tensor for separation dk (built by initialize_mps_mpo)
InflF = z3.Function('Infl', IntS, V)


def step_registry():
    from . import na
    R = Registry()
    na.client_models(R)

    @model
    def zip_up(ip, args, kw):
        o, arr = args[0], args[1]
        s = o.fields['sites']
        n = s.length
        li, ri = kw.get('left_index'), kw.get('right_index')
        m = arr.fields['sites'].length
        # contract of _parse_left_right_index (na/zip-alignment): the span must be len(array) sites inside self
        norm = lambda i: z3.If(to_int(i) < 0, n + to_int(i), to_int(i))
        if li is not None and ri is not None:
            ip.prove('tempo/mps-length[zip_up span matches]', norm(ri) - norm(li) + 1 == m, {'array': kw.get('name')})
        ip.log.append(('zip_up', arr.fields['sites'].copy(), n, m))
        old = s.copy()
        o.fields['sites'] = Seq(n, lambda j: uf('zipped', old.fn(j)), 'list')

    @model
    def contract(ip, args, kw):
        o = args[0]
        s = o.fields['sites'].copy()
        ip.log.append(('contract', s.length))
        o.fields['sites'] = Seq(s.length - 1, lambda j: uf('merged', s.fn(j + 1)), 'list')

    @model
    def m_delta(ip, args, kw):
        return uf('delta4', args[0])

    @model
    def nodes_get(ip, args, kw):
        return args[0].fields['sites']

    @model
    def false_(ip, args, kw):
        return False

    @model
    def rank(ip, args, kw):
        return 1
    R.models['NA.zip_up'] = zip_up
    R.models['NA.contract'] = contract
    R.models['util.create_delta'] = m_delta
    R.models['NA.nodes'] = nodes_get
    R.models['NA.left'] = false_
    R.models['NA.right'] = false_
    R.models['NA.rank'] = rank
    for nm in ('nodes', 'left', 'right', 'rank'):
        R.model_properties.add('NA.' + nm)

    def template(ip, frame, k):
        tmp = ip.lookup_name('tmp_mps', frame)
        g = ip.ghost['step']
        return {'@facts': [k >= 0], 'tmp_mps.sites': Custom(Seq(g['L_after'] - k, lambda j: Vc('x'), 'list'),
                                                             lambda ip_, have, want: have.length == want.length)}
    R.invariants[('backends.tempo_backend.BaseTempoBackend.compute_system_step', 0)] = LoopInv(template, 'readout-loop')
    return R


def scen_step(K_none, tau_none):
    def scen(ip, repo):
        n = Int('current_step')
        ip.assume(n >= 1)
        K = None if K_none else Int('dkmax')
        if K is not None:
            ip.assume(K >= 1)
            mpo_sites = Seq(K + 1, lambda j: Tm(K - j), 'list')
            Lpre = z3.If(n < K + 2, n, K + 2)
        else:
            mpo_sites = Seq(n, lambda j: Tm(n - 1 - j), 'list')
            Lpre = n
        mps = Obj('NA', {'sites': Seq(Lpre, (lambda f: lambda j: f(j))(z3.Function('mps_site', IntS, V)), 'list'), 'left': False, 'right': True})
        mpo = Obj('NA', {'sites': mpo_sites, 'left': True, 'right': True})

        @model
        def influence(ip2, a2, k2):
            dk = to_int(a2[0])
            ip2.log.append(('influence', dk))
            r = InflF(dk)
            if tau_none:
                # beyond dkmax and without add_correlation_time there is no influence (infl/cell-args)
                ip2.add_pc(z3.Implies(dk < 0, r == NONE))
            else:
                ip2.add_pc(r != NONE)
            ip2.add_pc(z3.Implies(dk >= 0, r != NONE))
            return r
        o = mkobj(repo, 'backends.tempo_backend.BaseTempoBackend', _mpo=mpo, _mps=mps, _dkmax=K, _influence=influence,
                  _sum_west=Vc('sum_west'), _sum_north_na=Obj('NA', {'sites': Seq(1, lambda j: Vc('sum_north'), 'list'), 'left': False, 'right': False}),
                  _epsrel=Real('epsrel'))
        p1, p2 = Vc('prop_1'), Vc('prop_2')
        L = n if K is None else z3.If(n < K + 1, n, K + 1)
        ip.ghost['step'] = {'L_after': L + 1}
        return {'args': [o, n, p1, p2], 'o': o, 'n': n, 'K': K, 'L': L, 'mpo': mpo, 'tau_none': tau_none,
                'inputs': {'current_step': n, 'dkmax': K if K is not None else -1}}
    return scen


def post_step(ip, ctx, out):
    if not expect_no_other_exception(ip, out, allowed=('AssertionError',)):
        return
    if not out.returned:
        return ip.prove('tempo/internal-assertion-never-fires', z3.BoolVal(False), {'exc': out.value.typ})
    o, n, K, L = ctx['o'], ctx['n'], ctx['K'], ctx['L']
    zips = [e for e in ip.log if e[0] == 'zip_up']
    arr = zips[1][1]                      # the temporary MPO zipped onto the MPS
    j = fresh_int('j')
    dk = L - 1 - j                        # separation of the influence sitting at position j
    if K is None:
        want = Tm(dk)
    else:
        far = z3.And(j == 0, n > K)
        if ctx['tau_none']:
            want = Tm(dk)                 # the square(K dt) influence stays at the far end
        else:
            want = z3.If(far, uf('delta4', InflF(K - n)), Tm(dk))      # rectangle with -dk = n - K
    ip.prove('tempo/step-cells', z3.And(arr.length == L, z3.Implies(z3.And(j >= 0, j < L), arr.fn(j) == want)))
    # MPS length after the step = L + 1 (representation invariant for the next step)
    ip.prove('tempo/mps-length', o.fields['_mps'].fields['sites'].length == L + 1)
    pm = o.fields['_mpo'].fields['sites']
    if K is None:
        ip.prove('tempo/mpo-frame', z3.And(pm.length == n + 1, z3.Implies(z3.And(j >= 0, j <= n), pm.fn(j) == z3.If(j == 0, uf('delta4', InflF(n)), Tm(n - j)))))
    else:
        ip.prove('tempo/mpo-frame', z3.And(pm.length == K + 1, z3.Implies(z3.And(j >= 0, j <= K), pm.fn(j) == Tm(K - j)),
                                           z3.BoolVal(o.fields['_mpo'] is ctx['mpo'])))
    ip.prove('tempo/step-returns-a-state', z3.BoolVal(out.value is not None))


_t_na = targets


def targets(tier='quick'):
    T = _t_na(tier)
    RS = step_registry()
    for kn in (False, True):
        for tn_ in ((False, True) if not kn else (True,)):
            T.append(Target('tempo/step[dkmax=%s,add_correlation_time=%s]' % ('None' if kn else 'K', 'None' if tn_ else 'tau'),
                            'backends.tempo_backend.BaseTempoBackend.compute_system_step', scen_step(kn, tn_), post_step, RS, PROP, replay=rp))
    return T


# ---- tempo/init-labels: the persistent MPO is [T(K), ..., T(1), T(0)] with T(dk>0) = delta(Infl(dk))
def init_registry():
    R = step_registry()

    @model
    def m_lrs(ip, args, kw):
        return uf('left_right_super', *args)
    R.models['operators.left_right_super'] = m_lrs

    def template(ip, frame, k):
        g = ip.ghost['init']
        return {'@facts': [k >= 0], 'influences': Seq(k, lambda i: ite(i == 0, g['T0'], uf('delta4', InflF(i))), 'list')}
    R.invariants[('backends.tempo_backend.BaseTempoBackend.initialize_mps_mpo', 0)] = LoopInv(template, 'init-loop')

    @model
    def m_zeros(ip, args, kw):
        return z3.Const('scattered_dk0_tensor', V)
    R.lib_models['numpy.zeros'] = m_zeros

    def scatter_template(ip, frame, k):
        # the scatter loop of the degeneracy-reduced dk=0 tensor: element stores into an opaque array
        # (its content is deg/scatter, not tracked here)
        return {'@facts': [k >= 0]}
    R.invariants[('backends.tempo_backend.BaseTempoBackend.initialize_mps_mpo', 1)] = LoopInv(scatter_template, 'scatter-loop')
    return R


def scen_init(K_none, deg=False):
    def scen(ip, repo):
        K = None if K_none else Int('dkmax')
        if K is not None:
            ip.assume(K >= 1)

        @model
        def influence(ip2, a2, k2):
            r = InflF(to_int(a2[0]))
            ip2.add_pc(r != NONE)
            return r
        U = Vc('unitary')
        ip.assume(U != NONE)
        degmaps = None
        if deg:
            nsq = Int('dim') * Int('dim')
            degmaps = [Seq(nsq, (lambda f: lambda j: f(j))(z3.Function('north_map', IntS, IntS)), 'ndarray'),
                       Seq(nsq, (lambda f: lambda j: f(j))(z3.Function('west_map', IntS, IntS)), 'ndarray')]
            ip.assume(Int('dim') >= 1)
        o = mkobj(repo, 'backends.tempo_backend.BaseTempoBackend', _initial_state=Vc('rho0'), _unitary_transform=U, _sum_north=Vc('sn'),
                  _dkmax=K, _influence=influence, _degeneracy_maps=degmaps, _dim=Int('dim'))
        sud = uf('left_right_super', uf('attr_T', uf('meth_conjugate', U)), U)
        su = uf('left_right_super', U, uf('attr_T', uf('meth_conjugate', U)))
        d = uf('delta4', InflF(0))
        if deg:
            d = z3.Const('scattered_dk0_tensor', V)        # whatever the scatter loop builds (deg/scatter)
            ip.ghost['scatter'] = d
        t = uf('lib_numpy_dot', uf('lib_numpy_moveaxis', d, z3.IntVal(1), z3.IntVal(-1)), sud)
        t = uf('lib_numpy_moveaxis', t, z3.IntVal(-1), z3.IntVal(1))
        T0 = uf('lib_numpy_dot', t, uf('attr_T', su))
        ip.ghost['init'] = {'T0': T0}
        return {'args': [o], 'o': o, 'K': K, 'T0': T0, 'deg': deg, 'inputs': {'dkmax': K if K is not None else -1, 'degeneracy_maps': deg}}
    return scen


def post_init(ip, ctx, out):
    if not expect_no_other_exception(ip, out):
        return
    o, K = ctx['o'], ctx['K']
    sites = o.fields['_mpo'].fields['sites']
    j = fresh_int('j')
    Kk = K if K is not None else z3.IntVal(0)
    ip.prove('tempo/init-labels', z3.And(sites.length == Kk + 1,
             z3.Implies(z3.And(j >= 0, j <= Kk), sites.fn(j) == z3.If(Kk - j == 0, ctx['T0'], uf('delta4', InflF(Kk - j))))))
    ip.prove('tempo/init-mps-length', o.fields['_mps'].fields['sites'].length == 1)


_t_step = targets


def targets(tier='quick'):
    T = _t_step(tier)
    RI = init_registry()
    for kn in (False, True):
        for dg in (False, True):
            T.append(Target('tempo/init[dkmax=%s,degeneracy_maps=%s]' % ('None' if kn else 'K', dg), 'backends.tempo_backend.BaseTempoBackend.initialize_mps_mpo',
                            scen_init(kn, dg), post_init, RI, PROP, replay=rp))
    return T


# ---- PT-TEMPO back end: which influences make up column c (pt/column-cells and friends)
PI = z3.Function('pt_persistent_influence', IntS, V)       # I(dk), built by initialize for dk = 0 .. num_infl-1


def pt_registry():
    R = step_registry()

    @model
    def m_add_singleton(ip, args, kw):
        return uf('add_singleton', *args)
    R.models['util.add_singleton'] = m_add_singleton

    @model
    def apply_vector(ip, args, kw):
        o = args[0]
        s = o.fields['sites'].copy()
        n = s.length
        left = kw.get('left', True)
        ip.log.append(('apply_vector', left))
        # contracts a vector into the dangling leg: the array keeps its length, loses that leg
        o.fields['sites'] = Seq(n, lambda j: ite(j == (0 if left else n - 1), uf('capped', s.fn(j)), s.fn(j)), 'list')
        o.fields['left' if left else 'right'] = False

    @model
    def zip_up(ip, args, kw):
        o, arr = args[0], args[1]
        s = o.fields['sites']
        n, m = s.length, arr.fields['sites'].length
        ri = kw.get('right_index')
        norm = lambda i: z3.If(to_int(i) < 0, n + to_int(i), to_int(i))
        # _parse_left_right_index with right_index only: left = right - len(b) + 1 must be >= 0
        ip.prove('pt/zip-fits', norm(ri) - m + 1 >= 0)
        ip.log.append(('zip_up', arr.fields['sites'].copy(), n, m, norm(ri) - m + 1))
        old = s.copy()
        o.fields['sites'] = Seq(n, lambda j: uf('zipped', old.fn(j)), 'list')

    @model
    def svd_sweep(ip, args, kw):
        o = args[0]
        n = o.fields['sites'].length
        fi = kw.get('from_index')
        ip.prove('pt/sweep-index', z3.And(to_int(fi) >= -n, to_int(fi) < n))

    @model
    def right_p(ip, args, kw):
        r = args[0].fields['right']
        return r
    R.models['NA.apply_vector'] = apply_vector
    R.models['NA.zip_up'] = zip_up
    R.models['NA.svd_sweep'] = svd_sweep
    R.models['NA.right'] = right_p
    return R


def scen_pt_step(tau_none):
    def scen(ip, repo):
        s, N, K = Int('step'), Int('N'), Int('dkmax')
        ip.assume(z3.And(N >= 2, K >= 1, K <= N, s >= 1, s < N))
        num_infl = z3.If(N < K + 1, N, K + 1)
        grown = s <= N - num_infl + 1          # every column so far was built in the grow phase
        far_prev = z3.Const('far_of_previous_column', V)
        length = z3.If(grown, num_infl, N - (s - 1))
        mpo = Obj('NA', {'sites': Seq(length, lambda j: z3.If(z3.And(grown, j == num_infl - 1), far_prev, PI(j)), 'list'), 'left': False, 'right': True})
        ip.assume(z3.Implies(z3.Not(grown), True))
        # the MPS has one site per time index reached so far: column 0 spans num_infl rows, every grow step adds one
        mps_len = z3.If(grown, num_infl + s - 1, N)
        mps = Obj('NA', {'sites': Seq(mps_len, (lambda f: lambda j: f(j))(z3.Function('row', IntS, V)), 'list'), 'left': False,
                         'right': z3.Bool('mps_has_right_leg')})
        one = Obj('NA', {'sites': Seq(1, lambda j: Vc('one'), 'list'), 'left': True, 'right': False})

        @model
        def influence(ip2, a2, k2):
            dk = to_int(a2[0])
            ip2.log.append(('influence', dk))
            r = InflF(dk)
            ip2.add_pc((r == NONE) if tau_none else (r != NONE))
            return r
        o = mkobj(repo, 'backends.pt_tempo_backend.PtTempoBackend', _step=s, _num_steps=N, _num_infl=num_infl, _dkmax=K,
                  _influence=influence, _mps=mps, _mpo=mpo, _one_na=one, _sum_north_scaled=Vc('sns'), _epsrel=Real('epsrel'), _backend=None)
        # in the grow phase the MPS still has its right leg (where the next column is attached)
        ip.assume(z3.Implies(s + 1 <= N - num_infl + 1, mps.fields['right']), 'representation invariant: open right leg while growing')
        return {'args': [o], 'o': o, 's': s, 'N': N, 'K': K, 'num_infl': num_infl, 'far_prev': far_prev, 'tau_none': tau_none,
                'inputs': {'step': s, 'N': N, 'dkmax': K}}
    return scen


def post_pt_step(ip, ctx, out):
    if not expect_no_other_exception(ip, out):
        return
    o, s, N, K, ni = ctx['o'], ctx['s'], ctx['N'], ctx['K'], ctx['num_infl']
    c = s                                     # the column built by this call (later index m = c + dk)
    end_phase = c + ni > N
    ip.prove('pt/end-phase-iff', z3.Implies(K + 1 <= N, end_phase == (c + K >= N)))
    zips = [e for e in ip.log if e[0] == 'zip_up']
    col, n_mps, m, left = zips[0][1], zips[0][2], zips[0][3], zips[0][4]
    j = fresh_int('dk')
    L = z3.If(end_phase, N - c, ni)           # number of influences in column c: dk = 0 .. min(K, N-1-c)
    far = z3.And(z3.Not(end_phase), j == ni - 1)
    if ctx['tau_none']:
        want = z3.If(far, ctx['far_prev'], PI(j))
    else:
        want = z3.If(far, uf('add_singleton', uf('add_singleton', InflF(-(c + 1)), z3.IntVal(1)), z3.IntVal(3)), PI(j))
    body = z3.Implies(z3.And(j >= 0, j < L), z3.Or(col.fn(j) == want, col.fn(j) == uf('capped', want)))
    ip.prove('pt/column-cells', z3.And(col.length == L, body))
    rows = z3.If(end_phase, N, ni + c)          # rows 0 .. rows-1 exist after this step
    ip.prove('pt/column-position', z3.And(n_mps == rows, left == c))        # column c occupies rows c .. c+L-1
    ip.prove('pt/mps-length', z3.And(o.fields['_mps'].fields['sites'].length == rows, rows <= N))
    ip.prove('pt/step-counter', z3.And(o.fields['_step'] == s + 1, to_z3(out.value) == (s + 1 < N)))
    infl_calls = [e for e in ip.log if e[0] == 'influence']
    ip.prove('pt/far-influence-argument', z3.And([z3.BoolVal(len(infl_calls) <= 1)] + [e[1] == -(c + 1) for e in infl_calls]))


def lemma_same_cells():
    class L:
        name = 'c01/same-cells'

        def run(self, timeout_ms, tier):
            import time
            t0 = time.time()
            n, K, c = z3.Ints('n K c')
            s = z3.Solver()
            # TEMPO at step n > K asks influence(K - n); PT-TEMPO for column c asks influence(-(c+1));
            # the state index is m = n - 1 and the column with separation K from it is c = m - K.
            s.add(n > K, K >= 1, c == (n - 1) - K, z3.Not(K - n == -(c + 1)))
            r = s.check()
            ob = {'name': 'c01/same-cells', 'backend': 'z3', 'flags': [], 'info': {}, 'pc_sat': 'sat', 'model': None,
                  'result': 'discharged' if r == z3.unsat else 'refuted', 'seconds': round(time.time() - t0, 3)}
            return {'target': self.name, 'function': '(lemma over tempo/step-cells and pt/column-cells)', 'property': PROP, 'paths': 1,
                    'obligations': [ob], 'undecided': [], 'errors': [], 'flags': [], 'lib_pure': [], 'lib_used': [], 'seconds': ob['seconds']}
    return L()


_t_init = targets


def targets(tier='quick'):
    T = _t_init(tier)
    RP = pt_registry()
    for tn_ in (False, True):
        T.append(Target('pt/step[add_correlation_time=%s]' % ('None' if tn_ else 'tau'), 'backends.pt_tempo_backend.PtTempoBackend.compute_step',
                        scen_pt_step(tn_), post_pt_step, RP, PROP, replay=rp))
    T.append(lemma_same_cells())
    # the cells themselves: what a correlations object returns for (shape, time_1, time_2) is the contract of C12; it is
    # discharged here as well (TEMPO asks for triangles at time_1 = 0 only -- infl/cell-args[zero] -- so C12's open finding
    # about triangles at time_1 != 0 does not concern this property)
    from . import c12
    for t in c12.targets(tier):
        if not (t.name.startswith(('cell/', 'cc/', 'quad/', 'kernels/')) or 'tile' in t.name):
            continue
        t.prop = PROP
        t.keep = lambda name: name != 'cell/triangle[time_1 != 0]'
        T.append(t)
    # what the API object hands to the back end (its own influence closure, the bath's transform, memory settings, ...)
    from . import prep
    T += [t for t in prep.targets(PROP, rp) if 'MeanField' not in t.name]
    # the compression sweeps: truncation parameters reach every SVD, nothing else changes the network
    from . import nasvd
    T += nasvd.targets(PROP, 'svd_sweep_parameters')
    # the index duplication every influence tensor goes through: the contract the steps above assume, on the real body
    from . import delta
    T += delta.targets(PROP)
    return T
