"""C16 — process tensors survive export, import and file-backed computation unchanged.

Abstract view of any process tensor:
  View = (hs_dim, dt?, Tin?, Tout?, name, description, initial?, mpo: Seq<Ten>, caps: Seq<Ten>)
The HDF5 encoding stores a tensor as (flattened data, shape); None as the one-element NaN
sentinel.  numpy's reshape contract (assumed, conformance-checked): reshape(reshape(T,-1), T.shape) = T.
"""
import z3
from .common import *
from .h5 import h5_registry
from . import c17

PROP = 'C16'
IntS, BoolS = z3.IntSort(), z3.BoolSort()
SENTINEL = z3.Const('NaNSentinelArray', V)            # np.array([nan])
ARRAY_OF_NONE = z3.Const('ArrayOfNone', V)            # np.array(None): a 0-d object array, NOT None
ShapeOf = z3.Function('attr_shape', V, V)
Resh = z3.Function('meth_reshape', V, V, V)
IsNoneEnc = z3.Function('is_hdf5_none', V, BoolS)


def c16_registry():
    R = c17.base_registry()

    @model
    def np_array_any(ip, args, kw):
        v = args[0]
        if v is None:
            return ARRAY_OF_NONE
        if isinstance(v, list) and len(v) == 1 and v[0] == 'NaN':
            return SENTINEL
        if isinstance(v, Obj) and v.cls == 'H5Dataset':
            w = v.fields.get('whole')
            if w is not None and is_v(w):
                return w
            if isinstance(w, list) and len(w) == 1 and isinstance(w[0], str) and w[0] == 'NaN':
                return SENTINEL                 # the data set was created from HDF5None: reading it back gives np.array([nan])
            return uf('dataset_as_array', z3.StringVal(v.fields['name']))
        if is_v(v):
            # np.array(x) of an array is an equal array (a copy): at this level tensors are
            # compared by value, so the copy *is* the value (aliasing is the subject of C20)
            ip.flags.add('NP_ARRAY_IS_VALUE_COPY')
            return v
        from pyvc.lib import np_array
        return np_array(ip, args, kw)
    R.lib_models['numpy.array'] = np_array_any

    @model
    def m_is_hdf5_none(ip, args, kw):
        """contract of _is_hdf5_none as an uninterpreted predicate with the two facts the
        encoding relies on: the sentinel is recognised, genuine tensors are not (requires:
        a genuine tensor is not a one-element NaN array)."""
        t = args[0]
        if isinstance(t, Obj) and t.cls == 'H5Dataset':
            w = t.fields.get('whole')
            if isinstance(w, list) and len(w) == 1:
                return isinstance(w[0], str) and w[0] == 'NaN'    # created from HDF5None / from [value]
            if w is not None and is_v(w):
                return IsNoneEnc(w)
            return IsNoneEnc(uf('dataset_as_array', z3.StringVal(t.fields['name'])))
        return IsNoneEnc(t)
    R.models['process_tensor._is_hdf5_none'] = m_is_hdf5_none

    @model
    def m_create_delta(ip, args, kw):
        return uf('create_delta', args[0], *args[1])
    R.models['util.create_delta'] = m_create_delta

    def opaque_attr(ip, o, attr):
        if attr == 'reshape':
            def reshape(ip_, a, k):
                s = a[0] if len(a) == 1 else tuple(a)
                if isinstance(s, int) and s == -1:
                    r = Resh(o, uf('minus_one'))
                    ip_.add_pc(z3.And(r != NONE, IsNoneEnc(r) == IsNoneEnc(o)))
                    return r
                if is_v(s):
                    r = Resh(o, s)
                    # numpy contract: un-flattening with the original shape gives the tensor back
                    if o.decl().name() == 'meth_reshape' and o.num_args() == 2 and o.arg(1).eq(uf('minus_one')):
                        t = o.arg(0)
                        ip_.add_pc(z3.Implies(s == ShapeOf(t), r == t))
                    ip_.add_pc(r != NONE)
                    return r
                return uf('meth_reshape_t', o, *([s] if not isinstance(s, tuple) else list(s)))
            return (Builtin('ndarray.reshape', reshape),)
        return None
    R.opaque_attr = opaque_attr
    return R


def _facts(ip, tensors=()):
    ip.assume(z3.And(IsNoneEnc(SENTINEL), SENTINEL != NONE, ARRAY_OF_NONE != NONE, z3.Not(IsNoneEnc(ARRAY_OF_NONE))),
              'np.array([nan]) is recognised as the None sentinel; np.array(None) is a 0-d array')
    for t in tensors:
        ip.assume(z3.And(t != NONE, z3.Not(IsNoneEnc(t))), 'requires: a genuine tensor is not a one-element NaN array')


def _dataset(name, n, fn=None):
    f = z3.Function('old_' + name, IntS, V)
    return Obj('H5Dataset', {'name': name, 'items': Seq(n, fn or (lambda i: f(i)), 'list'),
                             'file': Obj('H5File', {'mode': 'x', 'open': True, 'key': 'f.h5'}), 'whole': None}), f


# ---- 1. set/get round trip of the encoding
def scen_roundtrip(none_case):
    def scen(ip, repo):
        n, step = Int('n_old'), Int('step')
        ip.assume(z3.And(n >= 0, step >= 0))
        data, fd = _dataset('data', n)
        shape, fs = _dataset('shape', n)
        T = None if none_case else Vc('T')
        _facts(ip, [] if none_case else [T])
        return {'data': data, 'shape': shape, 'fd': fd, 'fs': fs, 'n': n, 'step': step, 'T': T,
                'inputs': {'n_old': n, 'step': step}}
    return scen


def invoke_roundtrip(ip, repo, fref, ctx):
    setf = repo.resolve('process_tensor._set_data_and_shape')
    getf = repo.resolve('process_tensor._get_data_and_shape')
    ip.call(setf, [ctx['step'], ctx['data'], ctx['shape'], ctx['T']], {})
    got = ip.call(getf, [ctx['step'], ctx['data'], ctx['shape']], {})
    j = fresh_int('other')
    ip.add_pc(z3.And(j >= 0, j < ctx['n'], j != ctx['step']))
    other_d = ctx['data'].fields['items'].fn(j)
    other_s = ctx['shape'].fields['items'].fn(j)
    beyond = Int('beyond')
    ip.add_pc(beyond >= ctx['data'].fields['items'].length)
    try:
        ip.call(getf, [beyond, ctx['data'], ctx['shape']], {})
        oob = 'returned'
    except PyRaise as pr:
        oob = pr.exc.typ
    return got, other_d, other_s, j, oob


def post_roundtrip(ip, ctx, out):
    if not expect_no_other_exception(ip, out):
        return
    got, od, os_, j, oob = out.value
    if ctx['T'] is None:
        ip.prove('h5/roundtrip-none', z3.BoolVal(got is None))
    else:
        ip.prove('h5/roundtrip', z3.BoolVal(got is not None) if not is_z3(got) else got == ctx['T'])
    ip.prove('h5/resize-monotone', z3.And(od == ctx['fd'](j), os_ == ctx['fs'](j)))
    n2 = ctx['data'].fields['items'].length
    ip.prove('h5/length', z3.And(n2 == z3.If(ctx['step'] >= ctx['n'], ctx['step'] + 1, ctx['n']),
                                 ctx['shape'].fields['items'].length == n2))
    ip.prove('h5/index-error-iff', z3.BoolVal(oob == 'IndexError'))


# ---- 2. SimpleProcessTensor.set_initial_tensor
def scen_simple_initial(none_case):
    def scen(ip, repo):
        o = mkobj(repo, 'process_tensor.SimpleProcessTensor', _initial_tensor=Vc('previous_initial'))
        T = None if none_case else Vc('T')
        _facts(ip, [] if none_case else [T])
        return {'args': [o, T], 'o': o, 'T': T, 'inputs': {'initial_tensor_is_None': none_case}}
    return scen


def post_simple_initial(ip, ctx, out):
    if not expect_no_other_exception(ip, out):
        return
    got = ip.call(ip.getattr(ctx['o'], 'get_initial_tensor'), [], {})
    if ctx['T'] is None:
        ip.prove('simple/initial', z3.BoolVal(got is None) if not is_z3(got) else got == NONE)
    else:
        ip.prove('simple/initial', got == ctx['T'])


# ---- 3. export then import (both kinds): the abstract view is preserved
Mf = z3.Function('orig_mpo', IntS, V)
Cf = z3.Function('orig_cap', IntS, V)


def exp_registry():
    R = c16_registry()

    def export_tmpl(which):
        def template(ip, frame, k):
            g = ip.ghost['c16']
            src = Mf if which == 'mpo' else Cf
            pt_file = ip.lookup_name('pt_file', frame)
            t = {'@facts': [k >= 0]}
            prefix = 'pt_file._%s_tensors_' % which
            t[prefix + 'data.items'] = Seq(k, lambda j: Resh(src(j), uf('minus_one')), 'list')
            t[prefix + 'shape.items'] = Seq(k, lambda j: ShapeOf(src(j)), 'list')
            return t
        return template
    R.invariants[('process_tensor.SimpleProcessTensor.export', 0)] = LoopInv(export_tmpl('mpo'), 'export-mpo-loop')
    R.invariants[('process_tensor.SimpleProcessTensor.export', 1)] = LoopInv(export_tmpl('cap'), 'export-cap-loop')

    def import_tmpl(which):
        def template(ip, frame, k):
            g = ip.ghost['c16']
            src = Mf if which == 'mpo' else Cf
            return {'@facts': [k >= 0, k <= (g['n_mpo'] if which == 'mpo' else g['n_cap'])], 'step': k,
                    'pt._%s_tensors' % which: Seq(k, lambda j: src(j), 'list')}
        return template
    R.invariants[('process_tensor.import_process_tensor', 0)] = LoopInv(import_tmpl('mpo'), 'import-mpo-loop')
    R.invariants[('process_tensor.import_process_tensor', 1)] = LoopInv(import_tmpl('cap'), 'import-cap-loop')
    return R


def scen_export_import(kind, init_none=True, with_dt=True, transforms='both'):
    def scen(ip, repo):
        nm, nc = Int('n_mpo'), Int('n_cap')
        ip.assume(z3.And(nm >= 0, nc >= 0))
        hs = Int('hs_dim')
        ip.assume(hs >= 1)
        j = Int('jj')
        ip.assume(z3.ForAll([j], z3.And(Mf(j) != NONE, z3.Not(IsNoneEnc(Mf(j))), Cf(j) != NONE, z3.Not(IsNoneEnc(Cf(j))))),
                  'requires: stored tensors are genuine tensors (not None, not a one-element NaN array)')
        init = None if init_none else Vc('initial_tensor')
        _facts(ip, [] if init_none else [init])
        dt = Real('dt_pt') if with_dt else None
        tin = Vc('Tin') if transforms in ('both', 'in-only') else None
        tout = Vc('Tout') if transforms in ('both', 'out-only') else None
        _facts(ip, [x for x in (tin, tout) if x is not None])
        S = mkobj(repo, 'process_tensor.SimpleProcessTensor', _hs_dim=hs, _dt=dt, _transform_in=tin, _transform_out=tout,
                  _name='the name', _description='the description', _initial_tensor=init,
                  _mpo_tensors=Seq(nm, lambda i: Mf(i), 'list'), _cap_tensors=Seq(nc, lambda i: Cf(i), 'list'))
        ip.ghost['c16'] = {'n_mpo': nm, 'n_cap': nc}
        ip.ghost_file = 'f.h5'
        return {'S': S, 'kind': kind, 'nm': nm, 'nc': nc, 'hs': hs, 'dt': dt, 'tin': tin, 'tout': tout, 'init': init,
                'inputs': {'n_mpo': nm, 'n_cap': nc, 'import_type': kind, 'initial_tensor_is_None': init_none, 'transforms': transforms}}
    return scen


def invoke_export_import(ip, repo, fref, ctx):
    S = ctx['S']
    ip.add_pc(z3.Not(z3.Bool('file_exists_f.h5')))      # a fresh file name
    ip.call(ip.getattr(S, 'export'), ['f.h5'], {})
    imp = repo.resolve('process_tensor.import_process_tensor')
    return ip.call(imp, ['f.h5', ctx['kind']], {})


def post_export_import(ip, ctx, out):
    if out.raised('AssertionError'):
        return ip.prove('path-accounted', z3.BoolVal(True))       # transform-shape checks of the constructor
    if not expect_no_other_exception(ip, out):
        return
    P = out.value
    kind = ctx['kind']
    tag = 'import/%s-view' % kind
    g = lambda name, *a: ip.call(ip.getattr(P, name), list(a), {})
    ip.prove(tag + '/length', to_z3(ip.call(ip.lookup_global('len', None), [P], {})) == ctx['nm'])
    ip.prove(tag + '/hs_dim', veq(ip.getattr(P, 'hilbert_space_dimension'), ctx['hs']))
    dt = ip.getattr(P, 'dt')
    ip.prove(tag + '/dt', veq(dt, ctx['dt']) if ctx['dt'] is not None else z3.BoolVal(dt is None))
    ip.prove(tag + '/name-description', z3.BoolVal(ip.getattr(P, 'name') == 'the name' and ip.getattr(P, 'description') == 'the description'))
    tin, tout = ip.getattr(P, 'transform_in'), ip.getattr(P, 'transform_out')
    def same_transform(got, want):
        if want is None:
            return z3.BoolVal(got is None) if not is_z3(got) else got == NONE
        if got is None:
            return z3.BoolVal(False)
        return z3.Or(got == want, got == uf('np_array', want))
    ip.prove(tag + '/transforms', z3.And(same_transform(tin, ctx['tin']), same_transform(tout, ctx['tout'])),
             {'transform_in stored': repr(tin), 'transform_out stored': repr(tout)})
    init = g('get_initial_tensor')
    if ctx['init'] is None:
        ip.prove(tag + '/initial', z3.BoolVal(init is None) if not is_z3(init) else init == NONE)
    else:
        ip.prove(tag + '/initial', z3.Or(init == ctx['init'], init == uf('np_array', ctx['init'])))
    j = fresh_int('j')
    ip.add_pc(z3.And(j >= 0, j < ctx['nm']))
    if ip.feasible():
        try:
            if kind == 'simple':
                from pyvc.lib import getitem
                m = getitem(ip, P.fields['_mpo_tensors'], j)      # the stored (raw) tensor
            else:
                m = g('get_mpo_tensor', j, False)
            ip.prove(tag + '/mpo', z3.Or(m == Mf(j), m == uf('np_array', Mf(j))))
        except PyRaise as pr:
            ip.prove(tag + '/mpo', z3.BoolVal(False), {'exc': pr.exc.typ})
    c = fresh_int('c')
    ip.add_pc(z3.And(c >= 0, c < ctx['nc']))
    if ip.feasible():
        cap = g('get_cap_tensor', c)
        cz = NONE if cap is None else cap
        ip.prove(tag + '/caps', z3.Or(cz == Cf(c), cz == uf('np_array', Cf(c))))
    c2 = fresh_int('c2')
    ip.add_pc(c2 >= ctx['nc'])
    cap2 = g('get_cap_tensor', c2)
    ip.prove(tag + '/no-extra-caps', z3.BoolVal(cap2 is None) if not is_z3(cap2) else cap2 == NONE)


def scen_import_bad(ip, repo):
    ctx = scen_export_import('array')(ip, repo)
    return ctx


def post_import_bad(ip, ctx, out):
    if out.raised('AssertionError'):
        return ip.prove('path-accounted', z3.BoolVal(True))
    ip.prove('import/type-error', z3.BoolVal(out.raised('ValueError')))


def rp(func):
    def f(ob):
        return {'func': func, 'inputs': {'obligation': ob['name'], 'target': ob.get('target')}}
    return f


def post_metadata_setter(which):
    def post(ip, ctx, out):
        if out.raised('FileExistsError') or out.raised('AssertionError'):
            return ip.prove('path-accounted', z3.BoolVal(True))
        if not expect_no_other_exception(ip, out):
            return
        o = out.value
        attrs = ip.ghost['disk'][str(o.fields['_filename'])]['attrs']
        other = 'description' if which == 'name' else 'name'
        ip.prove('file/metadata-setter-writes-its-own-key', z3.BoolVal(attrs.get(which) == 'new text'), {'stored': {k: attrs.get(k) for k in ('name', 'description')}})
        ip.prove('file/metadata-setter-leaves-the-other-key', z3.BoolVal(attrs.get(other) == ctx['kwargs'][other]),
                 {'stored': {k: attrs.get(k) for k in ('name', 'description')}})
        ip.prove('file/metadata-setter-object-view', z3.BoolVal(ip.getattr(o, which) == 'new text' and ip.getattr(o, other) == ctx['kwargs'][other]))
    return post


def targets(tier='quick'):
    R = c16_registry()
    T = []
    for nc in (False, True):
        T.append(Target('h5/roundtrip[%s]' % ('None' if nc else 'tensor'), 'process_tensor._set_data_and_shape',
                        scen_roundtrip(nc), post_roundtrip, R, PROP, invoke=invoke_roundtrip, replay=rp('roundtrip')))
        T.append(Target('simple/initial[%s]' % ('None' if nc else 'tensor'), 'process_tensor.SimpleProcessTensor.set_initial_tensor',
                        scen_simple_initial(nc), post_simple_initial, R, PROP, replay=rp('roundtrip')))
    RE = exp_registry()
    for kind in ('file', 'simple'):
        for init_none in (True, False):
            for with_dt in (True, False):
                T.append(Target('export-import[%s,init=%s,dt=%s]' % (kind, 'None' if init_none else 'tensor', with_dt),
                                'process_tensor.import_process_tensor', scen_export_import(kind, init_none, with_dt),
                                post_export_import, RE, PROP, invoke=invoke_export_import, replay=rp('roundtrip'), max_paths=3000))
        for tr in ('none', 'in-only', 'out-only'):
            T.append(Target('export-import[%s,transforms=%s]' % (kind, tr), 'process_tensor.import_process_tensor',
                            scen_export_import(kind, True, True, tr), post_export_import, RE, PROP, invoke=invoke_export_import,
                            replay=rp('roundtrip'), max_paths=3000))
    from . import wire
    T += wire.targets_file(PROP)           # file-backed accessor and caps = in-memory ones (tnnorm)
    # metadata assigned AFTER the file was created must reach the file under its own key (what a later import reads)
    from . import c17
    for which in ('name', 'description'):
        T.append(Target('file/metadata-setter[%s]' % which, c17.CLS + '.__init__', c17.scen_mutator(which), post_metadata_setter(which),
                        c17.base_registry(), PROP, invoke=c17.invoke_mutator,
                        replay=lambda ob: {'func': 'rename_then_import', 'inputs': {'obligation': ob['name']}}))
    T.append(Target('import/bad-type', 'process_tensor.import_process_tensor', scen_import_bad, post_import_bad, RE, PROP,
                    invoke=invoke_export_import))
    # util.create_delta on its real body: the contract the targets above assume at its call sites
    from . import delta
    T += delta.targets(PROP)
    return T


META = {'level': 'proof', 'explanation': '', 'trusted_base': [], 'clauses': []}
