"""Shared contracts (callee models, ghost functions, loop invariant) for
system_dynamics.compute_dynamics.  Used by C02, C03, C13, C15, C18, C19.

Abstract vocabulary (all uninterpreted — the numbers are not our business):
  Node0              the initial network built from the initial state
  Sup(s, n)          network n with system superoperator s applied   (wire/superop)
  Mpo(k, n)          network n with the MPO tensors of step k applied (wire/mpo)
  Caps(k, n)         state tensor read out of n through the caps of step k (wire/caps)
  P1(k), P2(k)       the two half-step propagators the system returns for step k
  Pre(k), Post(k)    what control.get_controls(k, dt, start_time) returns (NONE if nothing)
  X(k)               network at the top of iteration k, *defined* by the recurrence the
                     property states:  X(0)=Node0,
                     X(k+1) = Sup(P2 k, Mpo(k, Sup(P1 k, SupOpt(Post k, SupOpt(Pre k, X k)))))
  recorded state k   = Obs(k, SupOpt(Pre k, X k))
"""
import z3
from .common import *

IntS, RealS = z3.IntSort(), z3.RealSort()

Xf = z3.Function('X', IntS, V)
SupF = z3.Function('Sup', V, V, V)
MpoF = z3.Function('Mpo', IntS, V, V)
ObsF = z3.Function('Obs', IntS, V, V)
P1 = z3.Function('P1', IntS, V)
P2 = z3.Function('P2', IntS, V)
Pre = z3.Function('Pre', IntS, V)
Post = z3.Function('Post', IntS, V)
EdgesF = z3.Function('EdgesOf', V, V)
CapsF = z3.Function('CapsAt', IntS, V)
MposF = z3.Function('MposAt', IntS, V)
ApplyCaps = z3.Function('ApplyCaps', V, V, V)
ApplyMpos = z3.Function('ApplyMpos', V, V, V)
Reshape2 = z3.Function('ReshapeSq', V, V)


def SupOpt(s, n):
    return z3.If(s == NONE, n, SupF(s, n))


def step_expr(k, x):
    """one full step of the recurrence in the property statement"""
    a = SupOpt(Pre(k), x)
    b = SupOpt(Post(k), a)
    return SupOpt(P2(k), ApplyMpos(SupOpt(P1(k), b), MposF(k)))


HS = z3.Int('hs_dim')


def recorded(k, x):
    return uf('meth_reshape', ApplyCaps(SupOpt(Pre(k), x), CapsF(k)), HS, HS)


# ------------------------------------------------------------------------------------
# callee models

@model
def m_apply_system_superoperator(ip, args, kw):
    node, edges, sup = args
    ip.prove('call/_apply_system_superoperator/edges-belong-to-node', edges == EdgesF(node))
    if sup is None:
        return node, edges
    new = z3.If(sup == NONE, node, SupF(sup, node))
    return new, EdgesF(new)


@model
def m_apply_pt_mpos(ip, args, kw):
    node, edges, mpos = args
    ip.prove('call/_apply_pt_mpos/edges-belong-to-node', edges == EdgesF(node))
    if isinstance(mpos, list):
        mpos = uf('mpo_list', *mpos) if mpos else z3.Const('EmptyMpoList', V)
    new = ApplyMpos(node, mpos)
    return new, EdgesF(new)


@model
def m_apply_caps(ip, args, kw):
    node, edges, caps = args
    ip.prove('call/_apply_caps/edges-belong-to-node', edges == EdgesF(node))
    if isinstance(caps, list):
        caps = uf('cap_list', *caps) if caps else z3.Const('EmptyCapList', V)
    return ApplyCaps(node, caps)


@model
def m_get_caps(ip, args, kw):
    pts, step = args
    ip.log.append(('get_caps', step))
    if ip.may_raise('_get_caps-raises'):
        raise PyRaise(ExcVal('ValueError', ('no cap tensor',)))
    return CapsF(to_int(step))


@model
def m_get_pt_mpos(ip, args, kw):
    pts, step = args
    ip.log.append(('get_pt_mpos', step))
    if ip.may_raise('get_mpo_tensor-raises'):
        raise PyRaise(ExcVal('IndexError', ('mpo tensor',)))
    return MposF(to_int(step))


def make_progress_models(R):
    """the progress reporter as a typestate object: events go to the ghost log."""
    @model
    def get_progress(ip, args, kw):
        @model
        def ctor(ip2, a2, k2):
            o = Obj('Progress', {'max_value': a2[0] if a2 else None})
            ip2.ghost.setdefault('progress_objects', []).append(o)
            return o
        return ctor

    @model
    def enter(ip, args, kw):
        ip.log.append(('enter', args[0]))
        return args[0]

    @model
    def exit_(ip, args, kw):
        ip.log.append(('exit', args[0]))

    @model
    def update(ip, args, kw):
        ip.log.append(('update', args[0], args[1] if len(args) > 1 else None))

    @model
    def cm_enter(ip, args, kw):
        ip.log.append(('enter', args[0]))
        return args[0]

    @model
    def cm_exit(ip, args, kw):
        ip.log.append(('exit', args[0]))
        return None
    R.models['util.get_progress'] = get_progress
    R.models['Progress.enter'] = enter
    R.models['Progress.exit'] = exit_
    R.models['Progress.update'] = update
    R.models['Progress.__enter__'] = cm_enter
    R.models['Progress.__exit__'] = cm_exit


def progress_balanced(ip):
    """entered => exited, for every reporter created on this path"""
    entered = [e[1] for e in ip.log if e[0] == 'enter']
    exited = [e[1] for e in ip.log if e[0] == 'exit']
    return all(any(o is x for x in exited) for o in entered)


@model
def m_dynamics_ctor(ip, args, kw):
    """Dynamics(times=..., states=...): abstract view = the two sequences as handed in.
    (That the real constructor stores them sorted and aligned is dynlist/* in C13.)"""
    times = kw.get('times', args[0] if args else None)
    states = kw.get('states', args[1] if len(args) > 1 else None)
    return Obj('DynamicsView', {'times': times, 'states': states})


@model
def m_tn_node(ip, args, kw):
    g = ip.ghost.get('cd')
    if g is not None and 'node0' in g and not g.get('node0_built'):
        g['node0_built'] = True
        g['node0_arg'] = args[0]
        check_flattened(ip, 'initial-state', args[0], g['initial_state'], g['hs_dim'])
        return g['node0']
    return uf('tn_Node', args[0])


def check_flattened(ip, what, got, source, hs):
    """the vector a contraction starts from is the ROW-MAJOR flattening of the caller's matrix (plain reshape to hs_dim**2): stated where
    the property is about the values (C02, C03, C08); the other users of this scenario do not depend on it"""
    if getattr(getattr(ip, 'target', None), 'prop', None) not in ('C02', 'C03', 'C08'):
        return
    import ast as _ast
    from pyvc.lib import binop
    n2 = binop(ip, _ast.Pow(), hs, 2)
    want = uf('meth_reshape', source, n2)
    gz = to_z3(got) if is_z3(got) else None
    if gz is not None and z3.is_app(gz) and gz.decl().name() == 'setattr_shape' and gz.num_args() >= 1:
        gz = gz.arg(0)          # `x.shape = (1, .., hs**2)`: singleton bond legs in front, the same entries in the same order
    if gz is None or not z3.is_app(gz):
        raise Unsupported('the array handed to tn.Node is not a term this contract can read')
    name = gz.decl().name()
    a = [gz.arg(i) for i in range(gz.num_args())]
    src = to_z3(source)
    # the ways of writing the row-major flattening of a matrix (all the same values in the same order)
    row_major = (name in ('meth_reshape', 'lib_numpy_reshape') and len(a) == 2 and a[0].eq(src) and (a[1].eq(to_z3(n2)) or (z3.is_int_value(a[1]) and a[1].as_long() == -1))) \
        or (name in ('meth_flatten', 'meth_ravel', 'lib_numpy_ravel') and len(a) == 1 and a[0].eq(src))
    # ... and of NOT doing so: an explicit memory order, or a transposed / conjugated source
    def mentions(t, names):
        return z3.is_app(t) and (t.decl().name() in names or any(mentions(t.arg(i), names) for i in range(t.num_args())))
    wrong = any(x.sort() == z3.StringSort() for x in a[1:]) or mentions(gz, ('attr_T', 'meth_transpose', 'meth_conjugate', 'meth_swapaxes', 'lib_numpy_transpose'))
    if not row_major and not wrong:
        raise Unsupported('the flattening of the %s handed to tn.Node is written in a form this contract does not recognise: %s' % (what, gz))
    ok = z3.BoolVal(bool(row_major))
    ip.prove('call/tn.Node/%s-flattened-row-major' % what, ok, {'handed to tn.Node': repr(got), 'required': repr(want)})


def _opaque_getitem(ip, o, idx):
    if isinstance(idx, SliceVal) and idx.start is None and idx.stop is None and idx.step is None:
        return (EdgesF(o),)      # node[:] = the list of its dangling edges, in order
    return None


def base_registry():
    R = Registry()
    make_progress_models(R)
    R.models['system_dynamics._apply_system_superoperator'] = m_apply_system_superoperator
    R.models['system_dynamics._apply_pt_mpos'] = m_apply_pt_mpos
    R.models['system_dynamics._apply_caps'] = m_apply_caps
    R.models['system_dynamics._get_caps'] = m_get_caps
    R.models['system_dynamics._get_pt_mpos'] = m_get_pt_mpos
    R.models['dynamics.Dynamics'] = m_dynamics_ctor
    R.lib_models['tensornetwork.Node'] = m_tn_node
    R.opaque_getitem = _opaque_getitem
    return R


# ------------------------------------------------------------------------------------
# scenario for compute_dynamics

def cd_registry(record_all_sym=True):
    R = base_registry()

    @model
    def m_input_parse(ip, args, kw):
        """contract of _compute_dynamics_input_parse as far as compute_dynamics relies on it:
        may raise; otherwise num_steps is an int >= 0, dt > 0 is the agreed time step, the
        other entries are passed through (parse/* obligations of C03 verify the real one)."""
        (with_field, system, initial_state, dt, num_steps, start_time, process_tensor, control,
         record_all) = args
        if ip.may_raise('input-parse-raises'):
            raise PyRaise(ExcVal('ValueError', ('input',)))
        g = ip.ghost['cd']
        return (g['system'], g['initial_state'], g['dt'], g['num_steps'], g['start_time'],
                g['process_tensors'], g['control'], record_all, g['hs_dim'])

    @model
    def m_get_propagators(ip, args, kw):
        self_, dt, start_time = args[0], args[1], args[2]
        g = ip.ghost['cd']
        ip.prove('call/get_propagators/dt', veq(dt, g['dt']))
        ip.prove('call/get_propagators/start_time', veq(start_time, g['start_time']))

        @model
        def propagators(ip2, a2, k2):
            step = to_int(a2[0])
            ip2.log.append(('propagators', step))
            if ip2.may_raise('propagators-raises'):
                ip2.log.append(('user-raise', 'propagators'))
                raise PyRaise(ExcVal('UserError', ('hamiltonian',)))
            return P1(step), P2(step)
        return propagators

    @model
    def m_get_controls(ip, args, kw):
        self_, step = args[0], to_int(args[1])
        g = ip.ghost['cd']
        ip.prove('call/get_controls/dt', veq(kw.get('dt', args[2] if len(args) > 2 else None), g['dt']))
        ip.prove('call/get_controls/start_time',
                 veq(kw.get('start_time', args[3] if len(args) > 3 else 0.0), g['start_time']))
        ip.log.append(('get_controls', step))
        return Pre(step), Post(step)

    R.models['system_dynamics._compute_dynamics_input_parse'] = m_input_parse
    R.models['System.get_propagators'] = m_get_propagators
    R.models['Control.get_controls'] = m_get_controls
    R.model_bases['System'] = ['System', 'BaseSystem']
    R.model_bases['Control'] = ['Control']

    def template(ip, frame, k):
        g = ip.ghost['cd']
        N = g['num_steps']
        ra = g['record_all']
        facts = [k >= 0, k <= N]
        # definitional axiom of the ghost sequence X at this k (recurrence of the property)
        ip.assume(Xf(k + 1) == step_expr(k, Xf(k)), 'definition of X (recurrence in the property statement)')
        ip.assume(Xf(0) == g['node0'], 'definition of X(0)')
        states = Seq(z3.If(ra, k, 0), lambda j: recorded(j, Xf(j)), 'list')
        return {'@facts': facts, 'current_node': Xf(k), 'current_edges': EdgesF(Xf(k)), 'states': states}
    R.invariants[('system_dynamics.compute_dynamics', 0)] = LoopInv(template, 'dyn-loop')
    return R


def cd_scenario(ip, repo, num_envs=1, record_all=None, progress='sym'):
    dt, t0 = Real('dt'), Real('start_time')
    N, hs = Int('num_steps'), Int('hs_dim')
    ra = Bool('record_all') if record_all is None else record_all
    ip.assume(z3.And(dt > 0, N >= 0, hs >= 1), 'ensures of _compute_dynamics_input_parse: dt > 0, num_steps >= 0')
    system = Obj('System', {})
    control = Obj('Control', {})
    init = Vc('initial_state')
    ip.assume(init != NONE)
    pts = [Obj('PT', {'id': i}) for i in range(num_envs)]
    ip.ghost['cd'] = {'system': system, 'initial_state': init, 'dt': dt, 'num_steps': N,
                      'start_time': t0, 'process_tensors': pts, 'control': control,
                      'record_all': ra, 'hs_dim': hs}
    # the initial node exactly as the code builds it (evaluated by the code itself on the
    # first path; here only its *name*): whatever tn.Node(...) of the reshaped state is.
    ip.ghost['cd']['node0'] = z3.Const('Node0', V)
    kwargs = {'system': system, 'initial_state': init, 'dt': dt, 'num_steps': N, 'start_time': t0,
              'process_tensor': pts, 'control': control, 'record_all': ra}
    return {'args': [], 'kwargs': kwargs, 'g': ip.ghost['cd'],
            'inputs': {'dt': dt, 'start_time': t0, 'num_steps': N, 'record_all': ra}}
