"""Leg-wiring obligations (tnnorm back end) for the tensor helpers of system_dynamics /
process_tensor / gradient.  Tensor symbols are free, dimensions are not represented: each
verdict holds for all tensors of all sizes.  Shared by C03, C08, C16, C05.
"""
import time
import z3
from .common import *
from pyvc import tnnorm
from pyvc.tnnorm import TArr, TNode, TEdge, einsum_spec, equal
from pyvc.interp import Interp
from pyvc.modules import Repo, describe
from pyvc import values as Vv


class WireTarget:
    """one wiring obligation: run a real function on free tensor symbols, compare with an
    einsum spec by tnnorm."""

    def __init__(self, name, qualname, build, check, prop, registry=None, replay=None):
        self.name, self.qualname, self.build, self.check, self.prop = name, qualname, build, check, prop
        self.registry, self.replay_fn = registry, replay

    def replay(self, ob):
        if self.replay_fn:
            return self.replay_fn(ob)
        default = {'C03': 'exact_ancilla', 'C08': 'gradient_vs_finite_difference', 'C16': 'roundtrip', 'C05': 'basis_rotation'}.get(self.prop)
        return {'func': default, 'inputs': {'obligation': ob['name']}} if default else None

    def run(self, timeout_ms, tier):
        t0 = time.time()
        repo = Repo()
        res = {'target': self.name, 'function': self.qualname, 'property': self.prop, 'paths': 0, 'obligations': [],
               'undecided': [], 'errors': [], 'flags': ['FREE_TENSOR_SYMBOLS'], 'lib_pure': [],
               'lib_used': ['tensornetwork (Node, ^, @, copy, replicate_nodes, get_tensor, reorder_edges)', 'numpy.dot/moveaxis/swapaxes/.T']}
        fref = repo.resolve(self.qualname)
        if fref is None:
            res['undecided'].append('contract target missing: %s' % self.qualname)
            return res
        res['function_info'] = describe(fref)
        R = (self.registry or Registry()).copy()
        tnnorm.install(R)
        R.lib_models.update(getattr(self.registry, 'lib_models_after', {}) if self.registry else {})
        R.inline_now = {self.qualname}
        work = [[]]
        while work:
            prefix = work.pop()
            Vv.reset_fresh()
            ip = Interp(repo, R, prefix, solver_timeout_ms=timeout_ms)
            try:
                args, kwargs, ctx = self.build(ip, repo)
                try:
                    out = ('return', ip.call(fref, args, kwargs))
                except PyRaise as pr:
                    out = ('raise', pr.exc)
                for nm, ok, info in self.check(ip, ctx, out):
                    res['obligations'].append({'name': nm, 'backend': 'tnnorm', 'flags': ['FREE_TENSOR_SYMBOLS'], 'info': info,
                                               'pc_sat': 'sat', 'result': 'discharged' if ok else 'refuted', 'model': info,
                                               'seconds': 0.0})
                res['paths'] += 1
            except Unsupported as u:
                res['undecided'].append('unsupported construct: %s' % u)
            except Vv.Infeasible:
                pass
            work.extend(ip.new_forks)
        res['seconds'] = round(time.time() - t0, 3)
        return res


def cmp(name, got, want):
    ok = equal(got, want)
    return (name, ok, {'computed': repr(got), 'required': repr(want)})


def dangling_in_order(node, edges):
    return isinstance(edges, list) and len(edges) == len(node.edges) and all(a is b for a, b in zip(edges, node.edges)) \
        and all(e.is_dangling() for e in edges)


def edges_cover_node(node, edges):
    """the edge list names every dangling edge of the node exactly once (in its own order)"""
    return isinstance(edges, list) and len(edges) == len(node.edges) and \
        sorted(map(id, edges)) == sorted(map(id, node.edges)) and all(e.is_dangling() for e in edges)


def in_edge_order(node, edges):
    """tensor of the node with its axes listed in the order of the edge list (the order the
    callers address legs by: edges 0..E-1 = bond legs of the environments, edge -1 = system)"""
    perm = [next(i for i, e in enumerate(node.edges) if e is x) for x in edges]
    return node.tensor_value().permute(perm)


# ---------------------------------------------------------------------------------
# system_dynamics helpers
def labels(n):
    return 'abcdefgh'[:n]


def build_superop(num_envs, none=False):
    def build(ip, repo):
        cur = TArr.sym('cur', num_envs + 1)
        node = TNode(cur)
        edges = node.pv_getitem(ip, SliceVal(None, None, None))
        sup = None if none else TArr.sym('sup', 2)
        return [node, edges, sup], {}, {'cur': cur, 'sup': sup, 'E': num_envs, 'node': node}
    return build


def check_superop(ip, ctx, out):
    kind, val = out
    if kind != 'return':
        return [('wire/superop', False, {'exception': val.typ})]
    node, edges = val
    E = ctx['E']
    b = labels(E)
    if ctx['sup'] is None:
        want = ctx['cur']
    else:
        # new[b..., s'] = sum_s cur[b..., s] sup[s', s]      (i.e. sup @ vec)
        want = einsum_spec('%ss,ts->%st' % (b, b), cur='cur', sup='sup')
    if not edges_cover_node(node, edges):
        return [('wire/superop-edges', False, {})]
    return [cmp('wire/superop', in_edge_order(node, edges), want),
            ('wire/superop-edges', True, {})]


def build_mpos(num_envs, none_at=()):
    def build(ip, repo):
        cur = TArr.sym('cur', num_envs + 1)
        node = TNode(cur)
        edges = node.pv_getitem(ip, SliceVal(None, None, None))
        mpos = [None if i in none_at else TArr.sym('mpo%d' % i, 4) for i in range(num_envs)]
        return [node, edges, mpos], {}, {'E': num_envs, 'none_at': none_at}
    return build


def check_mpos(ip, ctx, out):
    kind, val = out
    if kind != 'return':
        return [('wire/mpo', False, {'exception': val.typ})]
    node, edges = val
    E = ctx['E']
    # new[..b_i'.., s'] = sum cur[..b_i.., s0] prod_i mpo_i[b_i, b_i', s_i, s_{i+1}]   (list order)
    ins = labels(E)
    outs = 'ijklmnop'[:E]
    sys_ = 'stuvwxyz'
    terms, names = ['%s%s' % (ins, sys_[0])], {'cur': 'cur'}
    k = 0
    res_b = ''
    for i in range(E):
        if i in ctx['none_at']:
            res_b += ins[i]
            continue
        terms.append('%s%s%s%s' % (ins[i], outs[i], sys_[k], sys_[k + 1]))
        names['mpo%d' % i] = 'mpo%d' % i
        res_b += outs[i]
        k += 1
    want = einsum_spec('%s->%s%s' % (','.join(terms), res_b, sys_[k]), **names)
    if not edges_cover_node(node, edges):
        return [('wire/mpo-edges', False, {})]
    return [cmp('wire/mpo', in_edge_order(node, edges), want), ('wire/mpo-edges', True, {}),
            ('wire/mpo-node-axes-follow-edge-list (informative for C08)', True, {'holds': dangling_in_order(node, edges)})]


def build_caps(num_envs):
    def build(ip, repo):
        cur = TArr.sym('cur', num_envs + 1)
        node = TNode(cur)
        edges = node.pv_getitem(ip, SliceVal(None, None, None))
        caps = [TArr.sym('cap%d' % i, 1) for i in range(num_envs)]
        return [node, edges, caps], {}, {'E': num_envs, 'node': node, 'edges': edges, 'cur': cur}
    return build


def check_caps(ip, ctx, out):
    kind, val = out
    if kind != 'return':
        return [('wire/caps', False, {'exception': val.typ})]
    E = ctx['E']
    b = labels(E)
    names = {'cur': 'cur'}
    terms = ['%ss' % b]
    for i in range(E):
        terms.append(b[i])
        names['cap%d' % i] = 'cap%d' % i
    want = einsum_spec('%s->s' % ','.join(terms), **names)
    node = ctx['node']
    try:
        untouched = equal(node.tensor_value(), ctx['cur']) and dangling_in_order(node, ctx['edges'])
    except Unsupported:
        untouched = False            # the caller's network was connected to the caps (consumed)
    return [cmp('wire/caps', val, want), ('wire/caps-network-not-consumed', untouched, {})]


def build_backprop(num_envs):
    def build(ip, repo):
        mpos = [TArr.sym('mpo%d' % i, 4) for i in range(num_envs)]
        return [[mpos], 0], {}, {'E': num_envs}
    return build


def check_backprop(ip, ctx, out):
    kind, val = out
    if kind != 'return':
        return [('bp/swap', False, {'exception': val.typ})]
    obs = []
    for i, t in enumerate(val):
        # axes 0<->1 and 2<->3: the MPO as a map (bond x system) -> (bond x system), transposed
        want = einsum_spec('abst->bats', **{'m': 'mpo%d' % i})
        obs.append(cmp('bp/swap[%d]' % i, t, want))
    obs.append(('bp/swap-count', len(val) == ctx['E'], {}))
    return obs


def targets_c03(prop='C03'):
    T = []
    q = 'system_dynamics.'
    for E in (0, 1, 2, 3):
        T.append(WireTarget('wire/superop[envs=%d]' % E, q + '_apply_system_superoperator', build_superop(E), check_superop, prop))
        T.append(WireTarget('wire/caps[envs=%d]' % E, q + '_apply_caps', build_caps(E), check_caps, prop))
    T.append(WireTarget('wire/superop[None]', q + '_apply_system_superoperator', build_superop(1, none=True), check_superop, prop))
    for E, none_at in ((0, ()), (1, ()), (2, ()), (3, ()), (2, (0,)), (3, (1,)), (1, (0,))):
        T.append(WireTarget('wire/mpo[envs=%d,None at %s]' % (E, list(none_at)), q + '_apply_pt_mpos', build_mpos(E, none_at), check_mpos, prop))
    return T


# ---------------------------------------------------------------------------------
# process_tensor: get_mpo_tensor (delta expansion + in/out transforms), compute_caps
def pt_registry():
    R = Registry()

    @model
    def m_create_delta(ip, args, kw):
        """contract of util.create_delta(t, scrambling): ret[i_scr[0],...,i_scr[k]] = t[i_0..i_r]
        (zero elsewhere) = the tensor with its legs copied according to the scrambling list"""
        t, scr = args
        return TArr(t.factors, [t.out[i] for i in scr], t.coeff)
    R.models['util.create_delta'] = m_create_delta

    @model
    def m_array(ip, args, kw):
        v = args[0]
        if isinstance(v, TArr):
            return v
        if isinstance(v, list) and len(v) == 1:
            return TArr.sym('ONE', 1)          # np.array([1.0]): the trivial cap
        raise Unsupported('np.array in wiring context')
    R.lib_models_after = {'numpy.array': m_array}
    return R


def pt_obj(repo, cls, mpos, tin, tout):
    fields = dict(_mpo_tensors=mpos, _transform_in=tin, _transform_out=tout,
                  _trace=TArr.sym('tr', 1), _trace_square=TArr.sym('trsq', 1),
                  _trace_in=TArr.sym('tr_in', 1), _trace_out=TArr.sym('tr_out', 1), _cap_tensors=[])
    return mkobj(repo, cls, **fields)


def simple_pt_real(ip, repo, tin, tout):
    """SimpleProcessTensor built by its REAL constructor (so that fields a refactoring adds exist); only the
    base-class constructor (dimension checks, trace vectors) is replaced by its symbolic outcome"""
    cls = repo.resolve('process_tensor.SimpleProcessTensor')
    if cls is None:
        raise Unsupported('contract target missing: SimpleProcessTensor')

    @model
    def m_base_init(ip2, args, kw):
        o = args[0]
        o.fields.update(dict(_hs_dim=tnnorm.TDim('hs'), _dt=None, _rho_dim=tnnorm.TDim('hs**2'), _transform_in=tin, _transform_out=tout,
                             _trace=TArr.sym('tr', 1), _trace_square=TArr.sym('trsq', 1), _trace_in=TArr.sym('tr_in', 1),
                             _trace_out=TArr.sym('tr_out', 1), name=None, description=None))
    ip.registry.models['process_tensor.BaseProcessTensor.__init__'] = m_base_init
    return ip.call(cls, [tnnorm.TDim('hs')], {'transform_in': tin, 'transform_out': tout})


def build_get_mpo(rank, with_in, with_out, transformed=True, cls='process_tensor.SimpleProcessTensor', history=False):
    def build(ip, repo):
        t = TArr.sym('t', rank)
        tin = TArr.sym('Tin', 2) if with_in else None
        tout = TArr.sym('Tout', 2) if with_out else None
        if cls.endswith('SimpleProcessTensor'):
            o = simple_pt_real(ip, repo, tin, tout)
            setm = repo.resolve(cls + '.set_mpo_tensor')
            getm = repo.resolve(cls + '.get_mpo_tensor')
            if history:
                # the step is read, replaced by another tensor, and read again: the second read must see the new tensor
                ip.call(setm, [o, 0, TArr.sym('t_old', rank)], {})
                ip.call(getm, [o, 0], {})
                ip.call(getm, [o, 0, False], {})
            ip.call(setm, [o, 0, t], {})
        else:
            o = pt_obj(repo, cls, [t], tin, tout)
        return [o, 0] + ([] if transformed else [False]), {}, {'rank': rank, 'in': with_in, 'out': with_out, 'transformed': transformed}
    return build


def check_get_mpo(ip, ctx, out):
    kind, val = out
    if kind != 'return':
        return [('pt/get-mpo', False, {'exception': val.typ})]
    base = 'abs' if ctx['rank'] == 3 else 'abjp'
    names = {'t': 't'}
    terms = [base]
    # rank 3: delta between input and output leg:  t[a,b,s] delta(s,s')  -> legs (a,b,s,s)
    cur_in, cur_out = ('s', 's') if ctx['rank'] == 3 else ('j', 'p')
    if ctx['transformed'] is False:
        want = einsum_spec('%s->ab%s%s' % (base, cur_in, cur_out), **names)
        return [cmp('pt/delta-expand[untransformed]', val, want)]
    if ctx['in']:
        # transform_in contracted over its SECOND index with the input leg
        if ctx['rank'] == 3 and ctx['out']:
            pass
        terms.append('i%s' % cur_in)
        names['Tin'] = 'Tin'
        new_in = 'i'
    else:
        new_in = cur_in
    if ctx['out']:
        # transform_out contracted over its FIRST index with the output leg
        terms.append('%so' % cur_out)
        names['Tout'] = 'Tout'
        new_out = 'o'
    else:
        new_out = cur_out
    if ctx['rank'] == 3 and ctx['in'] and ctx['out']:
        # the copied leg s feeds both transforms: t[a,b,s] Tin[i,s] Tout[s,o]
        want = einsum_spec('abs,is,so->abio', t='t', Tin='Tin', Tout='Tout')
    else:
        want = einsum_spec('%s->ab%s%s' % (','.join(terms), new_in, new_out), **names)
    nm = 'pt/delta-expand' if not (ctx['in'] or ctx['out']) else 'pt/transform'
    return [cmp(nm + '[rank=%d,in=%s,out=%s]' % (ctx['rank'], ctx['in'], ctx['out']), val, want)]


def build_caps_simple(ranks):
    def build(ip, repo):
        mpos = [TArr.sym('m%d' % k, r) for k, r in enumerate(ranks)]
        o = pt_obj(repo, 'process_tensor.SimpleProcessTensor', mpos, None, None)
        return [o], {}, {'ranks': ranks, 'o': o}
    return build


def check_caps_simple(ip, ctx, out):
    kind, val = out
    if kind != 'return':
        return [('pt/caps', False, {'exception': val.typ})]
    caps = ctx['o'].fields['_cap_tensors']
    ranks = ctx['ranks']
    N = len(ranks)
    obs = [('pt/caps-count', len(caps) == N + 1, {'len': len(caps)})]
    if len(caps) != N + 1:
        return obs
    obs.append(cmp('pt/caps[last]', caps[N], TArr.sym('ONE', 1)))
    # cap_k[a] = sum MPO_k[a,b,(s|s,s')] cap_{k+1}[b] tr...   built recursively
    for k in range(N):
        terms, names = [], {}
        bonds = 'abcdefgh'
        for j in range(k, N):
            a, b = bonds[j - k], bonds[j - k + 1]
            if ranks[j] == 3:
                terms += ['%s%ss%d' % (a, b, j), 's%d' % j]
            else:
                terms += ['%s%ss%dt%d' % (a, b, j, j), 's%d' % j, 't%d' % j]
        # einsum_spec wants single-character labels: build the term by hand
        lab = {}

        def f(c):
            if c not in lab:
                lab[c] = tnnorm.new_label()
            return lab[c]
        factors = []
        for j in range(k, N):
            a, b = 'B%d' % j, 'B%d' % (j + 1)
            if ranks[j] == 3:
                # a rank-3 tensor stands for m[a,b,s] delta(s,s') on the (transformed) in and out legs: BOTH traces, at the same index
                factors += [('m%d' % j, (f(a), f(b), f('s%d' % j))), ('tr_in', (f('s%d' % j),)), ('tr_out', (f('s%d' % j),))]
            else:
                factors += [('m%d' % j, (f(a), f(b), f('s%d' % j), f('t%d' % j))), ('tr_in', (f('s%d' % j),)), ('tr_out', (f('t%d' % j),))]
        factors.append(('ONE', (f('B%d' % N),)))
        want = TArr(factors, [f('B%d' % k)])
        obs.append(cmp('pt/caps[%d of %s]' % (k, ranks), caps[k], want))
    return obs


def targets_pt(prop='C03'):
    T = []
    R = pt_registry()
    for cls in ('process_tensor.SimpleProcessTensor', 'process_tensor.FileProcessTensor'):
        if cls.endswith('FileProcessTensor'):
            continue       # file-backed accessor goes through the h5 model: see C16 (view/mpo-accessor-equal)
        for rank in (3, 4):
            for wi in (False, True):
                for wo in (False, True):
                    T.append(WireTarget('pt/get_mpo_tensor[rank=%d,in=%s,out=%s]' % (rank, wi, wo), cls + '.get_mpo_tensor',
                                        build_get_mpo(rank, wi, wo, cls=cls), check_get_mpo, prop, registry=R,
                                        replay=(lambda ob: {'func': 'pt_accessor', 'inputs': {'obligation': ob['name'], 'history': False}})
                                        if prop == 'C03' else None))
            T.append(WireTarget('pt/get_mpo_tensor[rank=%d,untransformed]' % rank, cls + '.get_mpo_tensor',
                                build_get_mpo(rank, True, True, transformed=False, cls=cls), check_get_mpo, prop, registry=R))
            for tr in (True, False):
                T.append(WireTarget('pt/get_mpo_tensor[rank=%d,%s,after the step was read and replaced]' % (rank, 'transformed' if tr else 'untransformed'),
                                    cls + '.get_mpo_tensor', build_get_mpo(rank, True, True, transformed=tr, cls=cls, history=True), check_get_mpo, prop,
                                    registry=R, replay=(lambda ob: {'func': 'pt_accessor', 'inputs': {'obligation': ob['name'], 'history': True}})
                                    if prop == 'C03' else (lambda ob: {'func': 'set_after_get', 'inputs': {'obligation': ob['name']}})))
    for ranks in ((4,), (3,), (4, 4), (3, 4), (4, 3, 4)):
        T.append(WireTarget('pt/compute_caps%s' % (list(ranks),), 'process_tensor.SimpleProcessTensor.compute_caps',
                            build_caps_simple(ranks), check_caps_simple, prop, registry=R,
                            replay=lambda ob: {'func': 'rank3_with_transforms', 'inputs': {'obligation': ob['name']}}))
    return T


# ---- FileProcessTensor.compute_caps against the in-memory one (same stored tensors, same transforms)
def file_registry():
    R = pt_registry()

    @model
    def m_get(ip, args, kw):
        step = kw.get('step', args[0] if args else None)
        data = kw.get('data', args[1] if len(args) > 1 else None)
        items = data.fields['items']
        k = concrete_int(step)
        if k is None or k >= len(items) or k < 0:
            raise PyRaise(ExcVal('IndexError', ('index',)))
        return items[k]

    @model
    def m_set(ip, args, kw):
        step = concrete_int(kw.get('step', args[0] if args else None))
        data = kw.get('data', args[1] if len(args) > 1 else None)
        tensor = kw.get('tensor', args[3] if len(args) > 3 else None)
        items = data.fields['items']
        while len(items) <= step:
            items.append(None)
        items[step] = tensor

    @model
    def ds_shape(ip, args, kw):
        return (len(args[0].fields['items']),)
    R.models['process_tensor._get_data_and_shape'] = m_get
    R.models['process_tensor._set_data_and_shape'] = m_set
    R.models['TDS.shape'] = ds_shape
    R.model_properties.add('TDS.shape')
    return R


def build_caps_file(ranks, with_transforms):
    def build(ip, repo):
        mpos = [TArr.sym('m%d' % k, r) for k, r in enumerate(ranks)]
        tin = TArr.sym('Tin', 2) if with_transforms else None
        tout = TArr.sym('Tout', 2) if with_transforms else None
        o = pt_obj(repo, 'process_tensor.FileProcessTensor', None, tin, tout)
        o.fields.update(_mpo_tensors_data=Obj('TDS', {'items': list(mpos)}), _mpo_tensors_shape=Obj('TDS', {'items': list(mpos)}),
                        _cap_tensors_data=Obj('TDS', {'items': []}), _cap_tensors_shape=Obj('TDS', {'items': []}))
        return [o], {}, {'ranks': ranks, 'o': o}
    return build


def check_caps_file(ip, ctx, out):
    kind, val = out
    if kind != 'return':
        return [('pt/caps-file', False, {'exception': val.typ})]
    o = ctx['o']
    fake = {'ranks': ctx['ranks'], 'o': Obj('x', {'_cap_tensors': o.fields['_cap_tensors_data'].fields['items']})}
    obs = check_caps_simple(ip, fake, out)
    return [(nm.replace('pt/caps', 'pt/caps-file-equals-in-memory'), ok, info) for nm, ok, info in obs]


def build_get_mpo_file(rank, with_in, with_out, transformed=True):
    def build(ip, repo):
        t = TArr.sym('t', rank)
        tin = TArr.sym('Tin', 2) if with_in else None
        tout = TArr.sym('Tout', 2) if with_out else None
        o = pt_obj(repo, 'process_tensor.FileProcessTensor', None, tin, tout)
        o.fields.update(_mpo_tensors_data=Obj('TDS', {'items': [t]}), _mpo_tensors_shape=Obj('TDS', {'items': [t]}))
        return [o, 0] + ([] if transformed else [False]), {}, {'rank': rank, 'in': with_in, 'out': with_out, 'transformed': transformed}
    return build


def check_get_mpo_file(ip, ctx, out):
    if ctx['transformed'] is False:
        # the file-backed accessor returns the stored tensor as it is when transformed=False
        kind, val = out
        return [('view/file-raw-tensor', kind == 'return' and equal(val, TArr.sym('t', ctx['rank'])), {})]
    return [(nm.replace('pt/', 'view/file-'), ok, info) for nm, ok, info in check_get_mpo(ip, ctx, out)]


def targets_file(prop):
    T = []
    R = file_registry()
    rpf = lambda ob: {'func': 'file_view_equals_simple', 'inputs': {'obligation': ob['name']}}
    for rank in (3, 4):
        for wi in (False, True):
            for wo in (False, True):
                T.append(WireTarget('view/mpo-accessor-equal[file,rank=%d,in=%s,out=%s]' % (rank, wi, wo), 'process_tensor.FileProcessTensor.get_mpo_tensor',
                                    build_get_mpo_file(rank, wi, wo), check_get_mpo_file, prop, registry=R, replay=rpf))
        T.append(WireTarget('view/mpo-accessor[file,rank=%d,untransformed]' % rank, 'process_tensor.FileProcessTensor.get_mpo_tensor',
                            build_get_mpo_file(rank, True, True, transformed=False), check_get_mpo_file, prop, registry=R, replay=rpf))
    for ranks in ((4,), (3,), (4, 4), (3, 4)):
        for wt in (False, True):
            T.append(WireTarget('pt/file-compute_caps%s[transforms=%s]' % (list(ranks), wt), 'process_tensor.FileProcessTensor.compute_caps',
                                build_caps_file(ranks, wt), check_caps_file, prop, registry=R,
                                replay=lambda ob: {'func': 'rank3_with_transforms', 'inputs': {'obligation': ob['name']}}))
    return T


# ---- order of the process-tensor list (C03: "does not depend on their order in the list")
class OrderTarget(WireTarget):
    def __init__(self, prop):
        self.name = 'c03/order-independent'
        self.qualname = 'system_dynamics._apply_pt_mpos'
        self.prop = prop
        self.registry = None
        self.replay_fn = lambda ob: {'func': 'order_of_environments', 'inputs': {'obligation': ob['name']}}

    def run(self, timeout_ms, tier):
        t0 = time.time()
        repo = Repo()
        res = {'target': self.name, 'function': self.qualname, 'property': self.prop, 'paths': 1, 'obligations': [],
               'undecided': [], 'errors': [], 'flags': ['FREE_TENSOR_SYMBOLS'], 'lib_pure': [], 'lib_used': ['tensornetwork']}
        fref = repo.resolve(self.qualname)
        res['function_info'] = describe(fref)
        R = Registry()
        tnnorm.install(R)
        R.inline_now = {self.qualname}

        def apply(order):
            Vv.reset_fresh()
            ip = Interp(repo, R, [], solver_timeout_ms=timeout_ms)
            cur = TArr([('cur', (1, 2, 3))], [1, 2, 3]).relabel()          # legs: bond A, bond B, system
            if order == 'BA':
                cur = cur.permute([1, 0, 2])
            node = TNode(cur)
            edges = node.pv_getitem(ip, SliceVal(None, None, None))
            mpos = [TArr.sym('mpoA', 4), TArr.sym('mpoB', 4)]
            if order == 'BA':
                mpos = mpos[::-1]
            n2, e2 = ip.call(fref, [node, edges, mpos], {})
            t = in_edge_order(n2, e2)
            return t if order == 'AB' else t.permute([1, 0, 2])
        try:
            ab, ba = apply('AB'), apply('BA')
            ok = equal(ab, ba)
            res['obligations'].append({'name': 'c03/order-independent[non-commuting-environments]', 'backend': 'tnnorm',
                                       'flags': ['FREE_TENSOR_SYMBOLS'], 'info': {'list [A,B]': repr(ab), 'list [B,A]': repr(ba)},
                                       'model': {'list [A,B]': repr(ab), 'list [B,A]': repr(ba)},
                                       'pc_sat': 'sat', 'result': 'discharged' if ok else 'refuted', 'seconds': 0.0})
        except Unsupported as u:
            res['undecided'].append('unsupported construct: %s' % u)
        res['seconds'] = round(time.time() - t0, 3)
        return res


# ---------------------------------------------------------------------------------
# gradient: one backward iteration of compute_gradient_and_dynamics, executed as a fragment
import ast
from pyvc.interp import Frame, Closure


def find_loops(funcref):
    loops = [n for n in ast.walk(funcref.node) if isinstance(n, (ast.For, ast.While))]
    loops.sort(key=lambda n: (n.lineno, n.col_offset))
    return loops


def spec_forward_transposed(E, none_at=()):
    """<back| applied to one forward step  P2 . M_{E-1} ... M_0 . P1, as a covector on the
    (bond legs..., system leg) of the step's input:   y[b.., s0]"""
    lab = {}

    def f(c):
        if c not in lab:
            lab[c] = tnnorm.new_label()
        return lab[c]
    factors = [('back', tuple(f('c%d' % i) for i in range(E)) + (f('t_out'),)),
               ('P2', (f('t_out'), f('x%d' % E)))]
    out_b = []
    for i in range(E):
        factors.append(('M%d' % i, (f('b%d' % i), f('c%d' % i), f('x%d' % i), f('x%d' % (i + 1)))))
        out_b.append(f('b%d' % i))
    factors.append(('P1', (f('x0'), f('s0'))))
    return TArr(factors, out_b + [f('s0')])


def spec_derivative(E):
    """network with the two half propagators of step n removed: open legs
    (out of previous step | in of MPO_0 | out of last MPO | in of next step)"""
    lab = {}

    def f(c):
        if c not in lab:
            lab[c] = tnnorm.new_label()
        return lab[c]
    factors = [('fwd', tuple(f('b%d' % i) for i in range(E)) + (f('t0'),))]
    for i in range(E):
        factors.append(('Mprev%d' % i, (f('b%d' % i), f('c%d' % i), f('x%d' % i), f('x%d' % (i + 1)))))
    factors.append(('backnew', tuple(f('c%d' % i) for i in range(E)) + (f('t3'),)))
    return TArr(factors, [f('t0'), f('x0'), f('x%d' % E), f('t3')])


class BackwardStepTarget(WireTarget):
    def __init__(self, E, prop='C08'):
        self.E = E
        self.name = 'grad/backward-iteration[envs=%d]' % E
        self.qualname = 'gradient.compute_gradient_and_dynamics'
        self.prop = prop
        self.registry = None
        self.replay_fn = None

    def run(self, timeout_ms, tier):
        t0 = time.time()
        E = self.E
        repo = Repo()
        res = {'target': self.name, 'function': self.qualname + ' (backward loop body, executed as a fragment)', 'property': self.prop,
               'paths': 1, 'obligations': [], 'undecided': [], 'errors': [], 'flags': ['FREE_TENSOR_SYMBOLS'],
               'lib_pure': [], 'lib_used': ['tensornetwork', 'numpy.swapaxes']}
        fref = repo.resolve(self.qualname)
        if fref is None:
            res['undecided'].append('contract target missing')
            return res
        res['function_info'] = describe(fref)
        loops = find_loops(fref)
        try:
            bw = [l for l in loops if isinstance(l, ast.For) and 'reversed' in ast.dump(l.iter) and 'range' in ast.dump(l.iter)][0]
        except IndexError:
            res['undecided'].append('contract target missing: backward loop of compute_gradient_and_dynamics')
            return res
        R = Registry()
        tnnorm.install(R)

        @model
        def noop(ip, args, kw):
            return None
        R.models['Prog.update'] = noop
        Vv.reset_fresh()
        ip = Interp(repo, R, [], solver_timeout_ms=timeout_ms)
        frame = Frame(fref.module, func=fref.node, qualname=fref.qualname)
        back = TArr.sym('back', E + 1)
        node = TNode(back)

        @model
        def controls(ip_, a, k):
            return None, None

        @model
        def propagators(ip_, a, k):
            return TArr.sym('P1', 2), TArr.sym('P2', 2)
        step = 1
        fwd_prev = TNode(TArr.sym('fwd', E + 1))
        frame.vars.update({
            'current_node': node, 'current_edges': list(node.edges), 'controls': controls, 'propagators': propagators,
            'mpo_list': [[TArr.sym('Mprev%d' % i, 4) for i in range(E)], [TArr.sym('M%d' % i, 4) for i in range(E)]],
            'forwardprop_derivs_list': [fwd_prev], 'combined_deriv_list': [], 'prog_bar': Obj('Prog', {}),
            'loop': 0, 'step': step, 'num_steps': 2})
        try:
            ip.exec_block(bw.body, frame)
            n2, e2 = frame.vars['current_node'], frame.vars['current_edges']
            got = in_edge_order(n2, e2) if edges_cover_node(n2, e2) else None
            want = spec_forward_transposed(E)
            ok = got is not None and equal(got, want)
            res['obligations'].append({'name': 'grad/backstep-is-transpose', 'backend': 'tnnorm', 'flags': ['FREE_TENSOR_SYMBOLS'],
                                       'info': {'computed': repr(got), 'required': repr(want), 'environments': E},
                                       'model': {'environments': E, 'computed': repr(got), 'required': repr(want)},
                                       'pc_sat': 'sat', 'result': 'discharged' if ok else 'refuted', 'seconds': 0.0})
            d = frame.vars['combined_deriv_list'][-1]
            # the derivative tensor must pair the stored forward node with the NEW backward node
            want_d = spec_derivative(E)
            got_d = d
            # rename: the backward node after this iteration is `got`; express it as a free symbol
            ok_d = self._deriv_matches(got_d, got, E)
            res['obligations'].append({'name': 'grad/open-legs', 'backend': 'tnnorm', 'flags': ['FREE_TENSOR_SYMBOLS'],
                                       'info': {'computed': repr(got_d), 'environments': E}, 'model': {'environments': E, 'computed': repr(got_d)},
                                       'pc_sat': 'sat', 'result': 'discharged' if ok_d else 'refuted', 'seconds': 0.0})
        except Unsupported as u:
            res['undecided'].append('unsupported construct: %s' % u)
        except PyRaise as pr:
            res['obligations'].append({'name': 'grad/backward-iteration-raises', 'backend': 'tnnorm', 'flags': [], 'info': {'exc': pr.exc.typ},
                                       'pc_sat': 'sat', 'result': 'refuted', 'model': {'exc': pr.exc.typ}, 'seconds': 0.0})
        res['seconds'] = round(time.time() - t0, 3)
        return res

    def _deriv_matches(self, got_d, backnew, E):
        """got_d must equal  fwd . Mprev_0..Mprev_{E-1} . (backward node after this iteration)
        with open legs (t0 | in of Mprev_0 | out of last Mprev | system leg of the backward node)."""
        if got_d is None or backnew is None:
            return False
        lab = {}

        def f(c):
            if c not in lab:
                lab[c] = tnnorm.new_label()
            return lab[c]
        b = backnew.relabel()
        # bond legs of the backward node (in edge order) connect to the future bonds of Mprev_i
        ren = {b.out[i]: f('c%d' % i) for i in range(E)}
        ren[b.out[E]] = f('t3')
        bf = [(s, tuple(ren.get(l, l) for l in ls)) for s, ls in b.factors]
        factors = [('fwd', tuple(f('b%d' % i) for i in range(E)) + (f('t0'),))]
        for i in range(E):
            factors.append(('Mprev%d' % i, (f('b%d' % i), f('c%d' % i), f('x%d' % i), f('x%d' % (i + 1)))))
        want = TArr(factors + bf, [f('t0'), f('x0'), f('x%d' % E), f('t3')])
        return equal(got_d, want)


def build_combine(which):
    def build(ip, repo):
        fref = repo.resolve('gradient._chain_rule')
        from pyvc.modules import nested_function
        node = nested_function(fref, 'combine_derivs')
        clo = Closure(node, Frame(fref.module), fref.module, 'gradient._chain_rule.<locals>.combine_derivs')
        D = TArr.sym('D', 4)
        pre, post = TArr.sym('pre', 2), TArr.sym('post', 2)
        return [clo, D, pre, post], {}, {}
    return build


class CombineTarget(WireTarget):
    def __init__(self, prop='C08'):
        self.name, self.qualname, self.prop, self.registry, self.replay_fn = 'chain/wiring', 'gradient._chain_rule', prop, None, None

    def run(self, timeout_ms, tier):
        t0 = time.time()
        repo = Repo()
        res = {'target': self.name, 'function': 'gradient._chain_rule.<locals>.combine_derivs', 'property': self.prop, 'paths': 1,
               'obligations': [], 'undecided': [], 'errors': [], 'flags': ['FREE_TENSOR_SYMBOLS'], 'lib_pure': [], 'lib_used': ['tensornetwork']}
        fref = repo.resolve(self.qualname)
        from pyvc.modules import nested_function
        node = nested_function(fref, 'combine_derivs') if fref else None
        clo = None
        if node is not None:
            clo = Closure(node, Frame(fref.module), fref.module, 'gradient._chain_rule.<locals>.combine_derivs')
        else:
            # the same helper hoisted to module level (with or without a leading underscore)
            for nm in ('gradient._combine_derivs', 'gradient.combine_derivs'):
                clo = repo.resolve(nm)
                if clo is not None:
                    break
        if clo is None:
            res['undecided'].append('contract target missing: combine_derivs')
            return res
        res['function_info'] = describe(fref)
        R = Registry()
        tnnorm.install(R)
        Vv.reset_fresh()
        ip = Interp(repo, R, [], solver_timeout_ms=timeout_ms)
        try:
            got = ip.call(clo, [TArr.sym('D', 4), TArr.sym('pre', 2), TArr.sym('post', 2)], {})
            # adjoint legs 0,1 with the first-half factor, legs 2,3 with the second-half factor
            want = einsum_spec('stuv,st,uv->', D='D', pre='pre', post='post')
            res['obligations'].append(dict(zip(('name', 'ok', 'info'), cmp('chain/wiring', got, want))))
            ob = res['obligations'][-1]
            ob.update({'backend': 'tnnorm', 'flags': ['FREE_TENSOR_SYMBOLS'], 'pc_sat': 'sat', 'model': ob['info'],
                       'result': 'discharged' if ob.pop('ok') else 'refuted', 'seconds': 0.0})
        except Unsupported as u:
            res['undecided'].append('unsupported construct: %s' % u)
        res['seconds'] = round(time.time() - t0, 3)
        return res


# ---------------------------------------------------------------------------------
# operators.py: the superoperator helpers every other module builds on (row-major vectorisation: vec(A rho B) = (A (x) B^T) vec(rho))
class OperatorsTarget:
    """real oqupy.operators helpers on free matrix symbols; required (grouped legs (a,b) -> (c,d)):
        left_super(A)            A[a,c] d[b,d]
        right_super(B)           d[a,c] B[d,b]
        left_right_super(A, B)   A[a,c] B[d,b]
        commutator(O)            O[a,c] d[b,d] - d[a,c] O[d,b]
        acommutator(O)           O[a,c] d[b,d] + d[a,c] O[d,b]"""

    def __init__(self, prop, replay_func='superoperator_helpers'):
        self.prop, self.name, self.qualname = prop, 'ops/superoperator-helpers', 'operators.left_right_super'
        self.replay_func = replay_func

    def replay(self, ob):
        return {'func': self.replay_func, 'inputs': {'obligation': ob['name']}}

    def run(self, timeout_ms, tier):
        from pyvc.tnnorm import TSum, sum_equal, new_label
        t0 = time.time()
        repo = Repo()
        res = {'target': self.name, 'function': 'operators.left_super/right_super/left_right_super/commutator/acommutator', 'property': self.prop,
               'paths': 0, 'obligations': [], 'undecided': [], 'errors': [], 'flags': ['FREE_TENSOR_SYMBOLS'], 'lib_pure': [],
               'lib_used': ['numpy.kron, numpy.identity, .T as einsum terms'], 'functions_extra': []}
        R = Registry()
        tnnorm.install(R)

        def term(factors, left, right):
            return TArr(factors, [('flat',) + tuple(left), ('flat',) + tuple(right)])

        def spec(name):
            a, b, c, d = [new_label() for _ in range(4)]
            L = lambda s: term([(s, (a, c))], (a, b), (c, b))           # S[a,c] delta[b,d]: b and d identified
            Rr = lambda s: term([(s, (d, b))], (a, b), (a, d))          # delta[a,c] S[d,b]
            if name == 'left_super':
                return L('A')
            if name == 'right_super':
                return Rr('A')
            if name == 'left_right_super':
                return term([('A', (a, c)), ('B', (d, b))], (a, b), (c, d))
            if name == 'commutator':
                return TSum([(1, L('A')), (-1, Rr('A'))])
            return TSum([(1, L('A')), (1, Rr('A'))])
        def spec2(name):
            # two-site helpers: index order ((row_1, col_1), (row_2, col_2)) on both sides
            a1, b1, c1, d1, a2, b2, c2, d2 = [new_label() for _ in range(8)]
            out = lambda l1, l2, r1, r2: TArr.__new__(TArr)
            def mk(factors, left, right):
                return TArr(factors, [('flat', ('flat',) + left[0], ('flat',) + left[1]), ('flat', ('flat',) + right[0], ('flat',) + right[1])])
            acts_left = mk([('A', (a1, c1)), ('B', (a2, c2))], ((a1, b1), (a2, b2)), ((c1, b1), (c2, b2)))
            acts_right = mk([('A', (d1, b1)), ('B', (d2, b2))], ((a1, b1), (a2, b2)), ((a1, d1), (a2, d2)))
            if name == 'cross_commutator':
                return TSum([(1, acts_left), (-1, acts_right)])
            if name == 'cross_acommutator':
                return TSum([(1, acts_left), (1, acts_right)])
            return mk([('A', (a1, c1)), ('B', (d1, b1)), ('C', (a2, c2)), ('D', (d2, b2))], ((a1, b1), (a2, b2)), ((c1, d1), (c2, d2)))
        for name, nargs in (('cross_commutator', 2), ('cross_acommutator', 2), ('cross_left_right_super', 4)):
            fref = repo.resolve('operators.' + name)
            if fref is None:
                res['undecided'].append('contract target missing: operators.%s' % name)
                continue
            res['functions_extra'].append(describe(fref))
            Vv.reset_fresh()
            ip = Interp(repo, R, [], solver_timeout_ms=timeout_ms)
            try:
                got = ip.call(fref, [TArr.sym(n_, 2) for n_ in 'ABCD'[:nargs]], {})
                want = spec2(name)
                ok = sum_equal(got, want)
                info = {'computed': repr(got), 'required': repr(want)}
            except Unsupported as u:
                res['undecided'].append('unsupported construct in operators.%s: %s' % (name, u))
                continue
            except PyRaise as pr:
                ok, info = False, {'exception': pr.exc.typ}
            res['obligations'].append({'name': 'ops/%s' % name, 'backend': 'tnnorm', 'flags': ['FREE_TENSOR_SYMBOLS'], 'info': info, 'model': info,
                                       'pc_sat': 'sat', 'result': 'discharged' if ok else 'refuted', 'seconds': 0.0})
            res['paths'] += 1
        for name, nargs in (('left_super', 1), ('right_super', 1), ('left_right_super', 2), ('commutator', 1), ('acommutator', 1)):
            fref = repo.resolve('operators.' + name)
            if fref is None:
                res['undecided'].append('contract target missing: operators.%s' % name)
                continue
            res['functions_extra'].append(describe(fref))
            Vv.reset_fresh()
            ip = Interp(repo, R, [], solver_timeout_ms=timeout_ms)
            try:
                got = ip.call(fref, [TArr.sym('A', 2), TArr.sym('B', 2)][:nargs], {})
                want = spec(name)
                ok = sum_equal(got, want)
                info = {'computed': repr(got), 'required': repr(want)}
            except Unsupported as u:
                res['undecided'].append('unsupported construct in operators.%s: %s' % (name, u))
                continue
            except PyRaise as pr:
                ok, info = False, {'exception': pr.exc.typ}
            res['obligations'].append({'name': 'ops/%s' % name, 'backend': 'tnnorm', 'flags': ['FREE_TENSOR_SYMBOLS'], 'info': info, 'model': info,
                                       'pc_sat': 'sat', 'result': 'discharged' if ok else 'refuted', 'seconds': 0.0})
            res['paths'] += 1
        res['seconds'] = round(time.time() - t0, 3)
        return res


class LiouvillianTarget:
    """real system._liouvillian(H, [g], [A]) on free matrix symbols:
        L = -i (H (x) 1 - 1 (x) H^T) + g ( A (x) conj(A)  - 1/2 (A^+ A) (x) 1 - 1/2 1 (x) (A^+ A)^T )
    i.e. L vec(rho) = vec( -i[H, rho] + g (A rho A^+ - 1/2 {A^+ A, rho}) )  in the row-major vectorisation"""

    def __init__(self, prop):
        self.prop, self.name, self.qualname = prop, 'ops/lindbladian', 'system._liouvillian'

    def replay(self, ob):
        return {'func': 'lindbladian', 'inputs': {'obligation': ob['name']}}

    def run(self, timeout_ms, tier):
        from pyvc.tnnorm import TSum, Coef, sum_equal, new_label
        t0 = time.time()
        repo = Repo()
        res = {'target': self.name, 'function': self.qualname, 'property': self.prop, 'paths': 0, 'obligations': [], 'undecided': [], 'errors': [],
               'flags': ['FREE_TENSOR_SYMBOLS'], 'lib_pure': [], 'lib_used': ['numpy.kron, numpy.identity, numpy.dot, .T, .conjugate() as einsum terms']}
        fref = repo.resolve(self.qualname)
        if fref is None:
            res['undecided'].append('contract target missing: %s' % self.qualname)
            return res
        res['function_info'] = describe(fref)
        R = Registry()
        tnnorm.install(R)
        Vv.reset_fresh()
        ip = Interp(repo, R, [], solver_timeout_ms=timeout_ms)
        ip.tsum_scalars = True

        def term(factors, left, right):
            return TArr(factors, [('flat',) + tuple(left), ('flat',) + tuple(right)])
        a, b, c, d, x = [new_label() for _ in range(5)]
        want = TSum([
            (Coef(-1j), term([('H', (a, c))], (a, b), (c, b))),
            (Coef(1j), term([('H', (d, b))], (a, b), (a, d))),
            (Coef(1, ('gamma',)), term([('A', (a, c)), ('A*', (b, d))], (a, b), (c, d))),
            (Coef(-0.5, ('gamma',)), term([('A*', (x, a)), ('A', (x, c))], (a, b), (c, b))),
            (Coef(-0.5, ('gamma',)), term([('A*', (x, d)), ('A', (x, b))], (a, b), (a, d)))])
        try:
            got = ip.call(fref, [TArr.sym('H', 2), [Real('gamma')], [TArr.sym('A', 2)]], {})
            ok = sum_equal(got, want)
            info = {'computed': repr(got), 'required': repr(want)}
            res['obligations'].append({'name': 'ops/lindbladian', 'backend': 'tnnorm', 'flags': ['FREE_TENSOR_SYMBOLS'], 'info': info, 'model': info,
                                       'pc_sat': 'sat', 'result': 'discharged' if ok else 'refuted', 'seconds': 0.0})
            res['paths'] = 1
        except Unsupported as u:
            res['undecided'].append('unsupported construct: %s' % u)
        except PyRaise as pr:
            res['obligations'].append({'name': 'unexpected-exception/' + pr.exc.typ, 'backend': 'tnnorm', 'flags': [], 'info': {}, 'model': {}, 'pc_sat': 'sat',
                                       'result': 'refuted', 'seconds': 0.0})
        res['seconds'] = round(time.time() - t0, 3)
        return res


class ChainAssemblyTarget:
    """real SystemChain.add_site_hamiltonian / add_site_dissipation / add_nn_hamiltonian / add_nn_dissipation on free matrix
    symbols, starting from zero Liouvillians: what is ADDED equals the documented generator (row-major vectorisation; two-site
    index order ((row_1, col_1), (row_2, col_2)))."""

    def __init__(self, prop):
        self.prop, self.name, self.qualname = prop, 'chain/assembly', 'system.SystemChain.add_nn_hamiltonian'

    def replay(self, ob):
        return {'func': 'two_site_chain_vs_dense', 'inputs': {'obligation': ob['name']}}

    def run(self, timeout_ms, tier):
        from pyvc.tnnorm import TSum, Coef, sum_equal, new_label
        t0 = time.time()
        repo = Repo()
        res = {'target': self.name, 'function': 'system.SystemChain.add_site_hamiltonian/add_site_dissipation/add_nn_hamiltonian/add_nn_dissipation',
               'property': self.prop, 'paths': 0, 'obligations': [], 'undecided': [], 'errors': [], 'flags': ['FREE_TENSOR_SYMBOLS'], 'lib_pure': [],
               'lib_used': ['numpy.kron, numpy.identity, numpy.dot, @, .T, .conjugate() as einsum terms'], 'functions_extra': []}
        R = Registry()
        tnnorm.install(R)

        def one(f, l, r):
            return TArr(f, [('flat',) + tuple(l), ('flat',) + tuple(r)])

        def two(f, l, r):
            return TArr(f, [('flat', ('flat',) + l[0], ('flat',) + l[1]), ('flat', ('flat',) + r[0], ('flat',) + r[1])])

        def specs():
            a, b, c, d, x = [new_label() for _ in range(5)]
            a1, b1, c1, d1, a2, b2, c2, d2, x1, x2 = [new_label() for _ in range(10)]
            g = ('gamma',)
            return {
                'add_site_hamiltonian': TSum([(Coef(-1j), one([('H', (a, c))], (a, b), (c, b))), (Coef(1j), one([('H', (d, b))], (a, b), (a, d)))]),
                'add_site_dissipation': TSum([(Coef(1, g), one([('A', (a, c)), ('A*', (b, d))], (a, b), (c, d))),
                                              (Coef(-0.5, g), one([('A*', (x, a)), ('A', (x, c))], (a, b), (c, b))),
                                              (Coef(-0.5, g), one([('A*', (x, d)), ('A', (x, b))], (a, b), (a, d)))]),
                'add_nn_hamiltonian': TSum([(Coef(-1j), two([('A', (a1, c1)), ('B', (a2, c2))], ((a1, b1), (a2, b2)), ((c1, b1), (c2, b2)))),
                                            (Coef(1j), two([('A', (d1, b1)), ('B', (d2, b2))], ((a1, b1), (a2, b2)), ((a1, d1), (a2, d2))))]),
                # gamma ( (A(x)B) rho (A(x)B)^+ - 1/2 { (A(x)B)^+ (A(x)B), rho } )
                'add_nn_dissipation': TSum([
                    (Coef(1, g), two([('A', (a1, c1)), ('A*', (b1, d1)), ('B', (a2, c2)), ('B*', (b2, d2))], ((a1, b1), (a2, b2)), ((c1, d1), (c2, d2)))),
                    (Coef(-0.5, g), two([('A*', (x1, a1)), ('A', (x1, c1)), ('B*', (x2, a2)), ('B', (x2, c2))], ((a1, b1), (a2, b2)), ((c1, b1), (c2, b2)))),
                    (Coef(-0.5, g), two([('A*', (x1, d1)), ('A', (x1, b1)), ('B*', (x2, d2)), ('B', (x2, b2))], ((a1, b1), (a2, b2)), ((a1, d1), (a2, d2))))]),
            }
        cases = {'add_site_hamiltonian': ('_site_liouvillians', lambda: [1, TArr.sym('H', 2)], {}),
                 'add_site_dissipation': ('_site_liouvillians', lambda: [1, TArr.sym('A', 2)], {'gamma': Real('gamma')}),
                 'add_nn_hamiltonian': ('_nn_liouvillians', lambda: [1, TArr.sym('A', 2), TArr.sym('B', 2)], {}),
                 'add_nn_dissipation': ('_nn_liouvillians', lambda: [1, TArr.sym('A', 2), TArr.sym('B', 2)], {'gamma': Real('gamma')})}
        want = specs()
        for name, (field, mkargs, kw) in cases.items():
            fref = repo.resolve('system.SystemChain.' + name)
            if fref is None:
                res['undecided'].append('contract target missing: SystemChain.%s' % name)
                continue
            res['functions_extra'].append(describe(fref))
            Vv.reset_fresh()
            ip = Interp(repo, R, [], solver_timeout_ms=timeout_ms)
            ip.tsum_scalars = True
            obj = mkobj(repo, 'system.SystemChain', _hs_dims=[tnnorm.TDim('d%d' % i) for i in range(3)],
                        _site_liouvillians=[TSum([]) for _ in range(3)], _nn_liouvillians=[TSum([]) for _ in range(2)])
            try:
                ip.call(fref, [obj] + mkargs(), kw)
                got = obj.fields[field][1]
                untouched = all(len(x.items) == 0 for k_, x in enumerate(obj.fields['_site_liouvillians'] + obj.fields['_nn_liouvillians'])
                                if x is not got)
                ok = sum_equal(got, want[name]) and untouched
                info = {'added': repr(got), 'required': repr(want[name]), 'other entries untouched': untouched}
            except Unsupported as u:
                res['undecided'].append('unsupported construct in SystemChain.%s: %s' % (name, u))
                continue
            except PyRaise as pr:
                ok, info = False, {'exception': pr.exc.typ}
            res['obligations'].append({'name': 'chain/%s' % name, 'backend': 'tnnorm', 'flags': ['FREE_TENSOR_SYMBOLS'], 'info': info, 'model': info,
                                       'pc_sat': 'sat', 'result': 'discharged' if ok else 'refuted', 'seconds': 0.0})
            res['paths'] += 1
        res['seconds'] = round(time.time() - t0, 3)
        return res
