"""C20 — results depend only on current inputs: no mutation, aliasing or stale state.

Part B (this file, histories): memo tables, closures over self, shallow copies.
    memo/consistent[Class.method, attr]   call m; change the public attribute; call m again ==
                                          the answer of a freshly constructed equal object
    attrs/consistent[Class.method, attr]  change the attribute first; m == fresh equal object
    alias/copy-independent[Class.method, attr]
                                          build Bath(op, corr); change corr.attr afterwards;
                                          bath.correlations.m == answer for the ORIGINAL values
    reuse/same-as-fresh[Class.method]     m(args1); m(args2) == fresh object's m(args2)
All objects are built by the REAL constructors, run from source; functools.lru_cache is the
ghost table of Interp.call_memoised; numerical quadrature is an uninterpreted functional of the
integrand, which is evaluated by running the real integrand closure at a shared symbolic probe
point (equal integrand values at every probe point => equal integrals).
Part A (arrays: frames, layout, freshness) is in c20a.py.
"""
import ast
import z3
from .common import *
from pyvc.lib import INF
from pyvc.values import is_real, is_v
from . import c05

PROP = 'C20'
RealS = z3.RealSort()


def memo_registry():
    R = c05.c05_registry()
    R.memo = True

    @model
    def m_vec(ip, args, kw):
        """np.vectorize(f) applied to scalars is f"""
        return args[0]

    def probe_cx(ip, f, pts):
        v = ip.call(f, list(pts), {})
        return to_cx(v)

    @model
    def m_cint(ip, args, kw):
        """_complex_integral(integrand, a, b, epsrel, limit): an (uninterpreted) functional of the
        integrand and a function of the remaining arguments.  The integrand enters through its
        value at the shared symbolic probe point w_probe > 0."""
        w = Real('w_probe')
        ip.assume(w > 0)
        e = probe_cx(ip, args[0], [w])
        b = kw['b']
        bb = z3.Real('INFINITY') if b is INF else to_real(b)
        extra = [to_real(kw[k]) if not is_v(kw[k]) else kw[k] for k in ('epsrel', 'limit') if k in kw and kw[k] is not None]
        a = [e.re, e.im, to_real(kw['a']), bb] + extra
        return Cx(uf('Int_re', *a, sort=RealS), uf('Int_im', *a, sort=RealS))

    @model
    def m_dblquad(ip, args, kw):
        x, y = Real('x_probe'), Real('y_probe')
        f = ip.call(kw['func'], [y, x], {})
        g, h = ip.call(kw['gfun'], [x], {}), ip.call(kw['hfun'], [x], {})
        a = [to_real(f), to_real(kw['a']), to_real(kw['b']), to_real(g), to_real(h)]
        a += [to_real(kw[k]) for k in ('epsrel', 'epsabs') if k in kw and kw[k] is not None and not is_v(kw[k])]
        return (uf('DblInt', *a, sort=RealS), uf('DblErr', *a, sort=RealS))

    @model
    def m_exp(ip, args, kw):
        x = args[0]
        if isinstance(x, Cx):
            return Cx(uf('cexp_re', x.re, x.im, sort=RealS), uf('cexp_im', x.re, x.im, sort=RealS))
        return uf('lib_numpy_exp', to_real(x), sort=RealS)

    @model
    def m_finfo(ip, args, kw):
        return Obj('finfo', {'eps': Real('FLOAT_EPS')})

    @model
    def m_real(ip, args, kw):
        v = args[0]
        return v.re if isinstance(v, Cx) else v

    @model
    def m_imag(ip, args, kw):
        v = args[0]
        return v.im if isinstance(v, Cx) else 0
    R.lib_models['numpy.vectorize'] = m_vec
    R.lib_models['numpy.exp'] = m_exp
    R.lib_models['numpy.finfo'] = m_finfo
    R.lib_models['numpy.real'] = m_real
    R.lib_models['numpy.imag'] = m_imag
    R.lib_models['scipy.integrate.dblquad'] = m_dblquad
    R.models['bath_correlations._complex_integral'] = m_cint
    return R


# ---- classes, constructor parameters (= public attributes of the same name), methods
def params_of(cls, tag=''):
    J = lambda nm: user_callable(nm, sort=RealS, raises=False)
    Cf = lambda nm: user_callable(nm, sort='cx', raises=False)
    if cls == 'CustomSD':
        return {'j_function': J('J' + tag), 'cutoff': Real('cutoff' + tag), 'cutoff_type': 'exponential', 'temperature': Real('temperature' + tag)}
    if cls == 'PowerLawSD':
        return {'alpha': Real('alpha' + tag), 'zeta': Real('zeta' + tag), 'cutoff': Real('cutoff' + tag), 'cutoff_type': 'exponential',
                'temperature': Real('temperature' + tag)}
    if cls == 'CustomCorrelations':
        return {'correlation_function': Cf('Cfun' + tag)}
    raise KeyError(cls)


def changed_value(cls, attr):
    v = params_of(cls, '_changed')[attr]
    if attr == 'cutoff_type':
        return 'gaussian'
    return v


METHODS = {
    'CustomSD': ['correlation', 'eta_function', 'correlation_2d_integral'],
    'PowerLawSD': ['correlation', 'eta_function', 'correlation_2d_integral'],
    'CustomCorrelations': ['correlation', 'correlation_2d_integral'],
}


def method_args(meth, tag=''):
    if meth in ('correlation', 'eta_function'):
        return [Real('tau' + tag)], {}
    return [Real('delta' + tag), Real('time_1' + tag)], {'shape': 'square'}


def construct(ip, repo, cls, params):
    c = repo.resolve('bath_correlations.' + cls)
    if c is None:
        raise Unsupported('contract target missing: class %s' % cls)
    return ip.call(c, [], dict(params))


def valid(ip, params):
    for k in ('cutoff', 'temperature', 'zeta'):
        if k in params and is_real(params[k]):
            ip.assume(params[k] > 0 if k != 'temperature' else params[k] >= 0)


def call_m(ip, o, meth, a, k):
    return ip.call(ip.find_method(o, meth), list(a), dict(k))


def same(ip, a, b):
    if isinstance(a, Cx) or isinstance(b, Cx):
        a, b = to_cx(a), to_cx(b)
        return z3.And(a.re == b.re, a.im == b.im)
    return veq(a, b)


def history(kind, cls, meth, attr):
    """returns (scenario, invoke, post) for one history"""
    def scen(ip, repo):
        return {'args': [], 'kwargs': {}, 'inputs': {'class': cls, 'method': meth, 'attribute': attr, 'history': kind}}

    def invoke(ip, repo, fref, ctx):
        p = params_of(cls)
        valid(ip, p)
        a, k = method_args(meth)
        if meth == 'correlation_2d_integral':
            ip.assume(a[0] > 0)
        o = construct(ip, repo, cls, p)
        if kind == 'memo':
            call_m(ip, o, meth, a, k)
        if kind == 'reuse':
            # earlier use of the same object: another point of the same method (for the 2-D integrals of
            # spectral densities: of the memoised kernel they are built from)
            first = 'eta_function' if (meth == 'correlation_2d_integral' and cls != 'CustomCorrelations') else meth
            a1, k1 = method_args(first, '_first')
            call_m(ip, o, first, a1, k1)
            p2 = p
            got_obj = o
        elif kind == 'alias':
            bcls = repo.resolve('bath.Bath')
            O = Vc('coupling_operator')
            ip.assume(O != NONE)
            b = ip.call(bcls, [O, o], {})
            p2 = p                       # the bath must keep answering for the values it was built with
            v2 = changed_value(cls, attr)
            ip.setattr(o, attr, v2)
            got_obj = ip.getattr(b, 'correlations')
        elif kind == 'deepcopy':
            from pyvc.lib import copy_deepcopy
            c2 = copy_deepcopy(ip, [o], {})
            p2 = p                       # an object built from it earlier (copy.deepcopy) is unaffected by later changes of the original
            v2 = changed_value(cls, attr)
            ip.setattr(o, attr, v2)
            got_obj = c2
        else:
            v2 = changed_value(cls, attr)
            p2 = dict(p)
            p2[attr] = v2
            valid(ip, p2)
            ip.setattr(o, attr, v2)
            got_obj = o
        ctx['public'] = sorted(f for f in o.fields if not f.startswith('_'))
        got = call_m(ip, got_obj, meth, a, k)
        ip.ghost['memo'] = {}            # a fresh process for the reference object
        fresh = construct(ip, repo, cls, p2)
        want = call_m(ip, fresh, meth, a, k)
        return got, want

    def post(ip, ctx, out):
        if out.kind == 'raise':
            # rejected by the constructor / the method itself for BOTH objects alike is checked path-wise:
            # a raise from the reference object ends the path before `got` is compared, a raise from the used
            # object alone would be a difference
            ip.prove('path-accounted', z3.BoolVal(True))
            return
        got, want = out.value
        name = {'memo': 'memo/consistent', 'attrs': 'attrs/consistent', 'alias': 'alias/copy-independent', 'reuse': 'reuse/same-as-fresh',
                'deepcopy': 'alias/deepcopy-independent'}[kind]
        ip.prove('%s[%s.%s%s]' % (name, cls, meth, ', ' + attr if attr else ''), same(ip, got, want),
                 {'class': cls, 'method': meth, 'attribute': attr})
    return scen, invoke, post


def rp(ob):
    return {'func': 'history', 'inputs': {'obligation': ob['name'], 'info': ob.get('info'), 'model': ob.get('model')}}


def targets(tier='quick'):
    T = []
    R = memo_registry()
    for cls, meths in METHODS.items():
        attrs = list(params_of(cls).keys())
        for meth in meths:
            q = 'bath_correlations.%s.%s' % (cls if cls != 'PowerLawSD' else 'CustomSD', meth)
            s, i, p = history('reuse', cls, meth, None)
            T.append(Target('hist/reuse[%s.%s]' % (cls, meth), q, s, p, R, PROP, invoke=i, replay=rp))
            for attr in attrs:
                for kind in ('memo', 'attrs', 'alias', 'deepcopy'):
                    s, i, p = history(kind, cls, meth, attr)
                    T.append(Target('hist/%s[%s.%s,%s]' % (kind, cls, meth, attr), q, s, p, R, PROP, invoke=i, replay=rp))
    # re-use of one ParameterizedSystem in computations on different time grids (contracts shared with C08)
    from . import c08
    RH = c08.hist_registry()
    for M in (1, 2):
        for nm, q, inv, post in (('get_propagators', 'system.ParameterizedSystem.get_propagators', c08.invoke_hist_props, c08.post_hist_props),
                                 ('get_propagator_derivatives', 'system.ParameterizedSystem.get_propagator_derivatives', c08.invoke_hist, c08.post_hist)):
            T.append(Target('hist/reuse[ParameterizedSystem.%s,M=%d]' % (nm, M), q, c08.scen_hist(M), post, RH, PROP, invoke=inv,
                            replay=lambda ob: {'func': 'parameterized_system_reuse', 'inputs': {'obligation': ob['name']}}))
    T.append(MemoInventoryTarget())
    from . import c20a
    T += c20a.targets(tier)
    return T


META = {'level': 'proof', 'explanation': '', 'trusted_base': [], 'clauses': []}


# ---- memo inventory: every memoised function of the package is under a contract
class MemoInventoryTarget:
    """Finds every function of oqupy decorated with functools.lru_cache / cache (AST of every
    module, on every run).  Functions with a history contract above are listed as such; for
    every other one the frame obligation
        memo/inputs-immutable[<qualname>]
    must hold: each attribute of self that the memoised body reads (transitively through
    methods of the same object) is private (underscore) and assigned only in __init__ of its
    class hierarchy, and no property setter exists for it -- then (self, args) determines the
    result and a stale entry is impossible.  A memoised function for which this cannot be
    established is reported as undecided (never as proved, never as a violation)."""
    name = 'memo/inventory'
    qualname = 'functools.lru_cache users'
    prop = PROP
    HISTORY_CONTRACTS = {'bath_correlations.CustomSD._eta_function': 'hist/memo[CustomSD|PowerLawSD.eta_function|correlation_2d_integral, *]',
                         'bath_correlations.CustomCorrelations._correlation_2d_integral': 'hist/memo[CustomCorrelations.correlation_2d_integral, *]'}

    def replay(self, ob):
        return {'func': 'history', 'inputs': {'obligation': ob['name']}}

    def run(self, timeout_ms, tier):
        import os
        import time
        from pyvc.modules import Repo, PKG, ClassRef, FuncRef, describe
        from pyvc.interp import memo_decorated
        t0 = time.time()
        repo = Repo()
        res = {'target': self.name, 'function': self.qualname, 'property': PROP, 'paths': 1, 'obligations': [], 'undecided': [], 'errors': [],
               'flags': [], 'lib_pure': [], 'lib_used': ['functools.lru_cache (assumed contract: table keyed by the call arguments)'],
               'functions_extra': []}
        root = os.path.join(repo.root, PKG)
        found = []
        for dp, _, files in os.walk(root):
            for fn in sorted(files):
                if not fn.endswith('.py'):
                    continue
                short = os.path.relpath(os.path.join(dp, fn), root)[:-3].replace(os.sep, '.')
                m = repo.module(short)
                if m is None:
                    continue
                for nm, ent in m.names.items():
                    if isinstance(ent, FuncRef) and memo_decorated(ent.node):
                        found.append((ent.qualname, ent, None))
                    if isinstance(ent, ClassRef):
                        for mn, f in ent.own_members().items():
                            if isinstance(f, FuncRef) and memo_decorated(f.node):
                                found.append((f.qualname, f, ent))

        def ob(name, ok, info):
            res['obligations'].append({'name': name, 'backend': 'frame analysis (AST)', 'flags': [], 'info': info, 'model': info, 'pc_sat': 'sat',
                                       'result': 'discharged' if ok else 'refuted', 'seconds': 0.0})
        ob('memo/inventory-nonempty', len(found) > 0, {'memoised functions': [q for q, _, _ in found]})
        for q, f, cls in found:
            res['functions_extra'].append(describe(f))
            if q in self.HISTORY_CONTRACTS:
                ob('memo/under-history-contract[%s]' % q, True, {'contract': self.HISTORY_CONTRACTS[q]})
                continue
            if cls is None:
                res['undecided'].append('memoised module-level function %s has no contract' % q)
                continue
            reads, why = self.read_set(cls, f)
            bad = []
            for a in sorted(reads):
                if not a.startswith('_'):
                    bad.append('%s is public' % a)
                w = self.writers(cls, a)
                if w:
                    bad.append('%s is assigned outside __init__ (%s)' % (a, ', '.join(w)))
            if why:
                res['undecided'].append('memoised %s: %s' % (q, why))
            elif bad:
                res['undecided'].append('memoised %s reads state that can change without changing the key: %s' % (q, '; '.join(bad)))
            else:
                ob('memo/inputs-immutable[%s]' % q, True, {'reads': sorted(reads)})
        res['seconds'] = round(time.time() - t0, 3)
        return res

    @staticmethod
    def hierarchy(cls):
        out, seen, work = [], set(), [cls]
        while work:
            c = work.pop(0)
            if c.qualname in seen:
                continue
            seen.add(c.qualname)
            out.append(c)
            for b in c.node.bases:
                if isinstance(b, ast.Name):
                    r = c.module.lookup(b.id)
                    from pyvc.modules import ClassRef
                    if isinstance(r, ClassRef):
                        work.append(r)
        return out

    def read_set(self, cls, f):
        """attributes of self read by f, following self.method() calls inside the hierarchy"""
        reads, seen, work = set(), set(), [f]
        H = self.hierarchy(cls)
        while work:
            g = work.pop()
            if g.qualname in seen:
                continue
            seen.add(g.qualname)
            args = g.node.args.args
            if not args:
                return reads, 'no self parameter'
            me = args[0].arg
            for n in ast.walk(g.node):
                if isinstance(n, ast.Attribute) and isinstance(n.value, ast.Name) and n.value.id == me:
                    meth = None
                    for c in H:
                        meth = c.own_members().get(n.attr)
                        if meth is not None:
                            break
                    if meth is not None and hasattr(meth, 'node') and isinstance(meth.node, (ast.FunctionDef, ast.Lambda)):
                        work.append(meth)
                    else:
                        reads.add(n.attr)
                elif isinstance(n, ast.Call) and isinstance(n.func, ast.Name) and n.func.id in ('getattr', 'vars') and n.args and \
                        isinstance(n.args[0], ast.Name) and n.args[0].id == me:
                    return reads, 'reflective access to self'
        return reads, None

    def writers(self, cls, attr):
        out = []
        for c in self.hierarchy(cls):
            for st in c.node.body:
                if isinstance(st, ast.FunctionDef):
                    is_setter = any(isinstance(d, ast.Attribute) and d.attr == 'setter' for d in st.decorator_list)
                    if st.name == '__init__':
                        continue
                    me = st.args.args[0].arg if st.args.args else None
                    for n in ast.walk(st):
                        tg = []
                        if isinstance(n, ast.Assign):
                            tg = n.targets
                        elif isinstance(n, (ast.AugAssign, ast.AnnAssign)):
                            tg = [n.target]
                        for t in tg:
                            for x in ast.walk(t):
                                if isinstance(x, ast.Attribute) and isinstance(x.value, ast.Name) and x.value.id == me and x.attr == attr:
                                    out.append('%s.%s%s' % (c.name, st.name, ' (setter)' if is_setter else ''))
        return out
