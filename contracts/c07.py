"""C07 — multi-time correlations are aligned with the returned time axes.

Spec functions are written from the property statement ("however the times were specified
(step, float, slice, list in any order, interval in either direction)"), not from the code.
"""
import z3
from .common import *

PROP = 'C07'

# ------------------------------------------------------------------------------------
# S_parse: the documented meaning of a time specification on the grid 0..N


def _rnd_index(t, t0, dt):
    return round_half_even((t - t0) / dt)


def _common(ip):
    N = Int('N')
    dt, t0 = Real('dt'), Real('t0')
    ip.assume(z3.And(N >= 0, dt > 0), 'requires: max_step >= 0, dt > 0')
    return N, dt, t0


def scen_int(ip, repo):
    N, dt, t0 = _common(ip)
    k = Int('k')
    return {'args': [k, N, dt, t0], 'inputs': {'times': k, 'max_step': N, 'dt': dt, 'start_time': t0}}


def post_int(ip, ctx, out):
    k, N = ctx['args'][0], ctx['args'][1]
    oob = z3.Or(k < 0, k > N)
    if out.returned:
        ip.prove('parse/int', z3.And(z3.Not(oob), veq(out.value, Seq.from_list([k]))))
    elif out.raised('IndexError'):
        ip.prove('parse/raises-iff-oob', oob)
    else:
        expect_no_other_exception(ip, out)


def scen_float(ip, repo):
    N, dt, t0 = _common(ip)
    t = Real('t')
    return {'args': [t, N, dt, t0], 'inputs': {'times': t, 'max_step': N, 'dt': dt, 'start_time': t0}}


def post_float(ip, ctx, out):
    t, N, dt, t0 = ctx['args']
    idx = _rnd_index(t, t0, dt)
    oob = z3.Or(idx < 0, idx > N)
    if out.returned:
        ip.prove('parse/float', z3.And(z3.Not(oob), veq(out.value, Seq.from_list([idx]))))
    elif out.raised('IndexError'):
        ip.prove('parse/raises-iff-oob', oob)
    else:
        expect_no_other_exception(ip, out)


def scen_interval(ip, repo):
    N, dt, t0 = _common(ip)
    a, b = Real('a'), Real('b')
    return {'args': [(a, b), N, dt, t0],
            'inputs': {'times': [a, b], 'max_step': N, 'dt': dt, 'start_time': t0}}


def post_interval(ip, ctx, out):
    (a, b), N, dt, t0 = ctx['args']
    ia, ib = _rnd_index(a, t0, dt), _rnd_index(b, t0, dt)
    oob = z3.Or(ia < 0, ia > N, ib < 0, ib > N)
    if out.returned:
        ip.prove('parse/interval-in-bounds', z3.Not(oob))
        d = z3.If(ia <= ib, 1, -1)
        # inclusive at both ends, in either direction
        spec = Seq(z3.If(ia <= ib, ib - ia, ia - ib) + 1, lambda i: ia + d * i, 'ndarray')
        asc = ia <= ib
        ip.prove('parse/interval-asc', z3.Implies(asc, veq(out.value, spec)))
        ip.prove('parse/interval-desc', z3.Implies(z3.Not(asc), veq(out.value, spec)))
    elif out.raised('IndexError'):
        ip.prove('parse/raises-iff-oob', oob)
    else:
        expect_no_other_exception(ip, out)


def scen_slice(which):
    def scen(ip, repo):
        N, dt, t0 = _common(ip)
        parts = {}
        for nm in ('start', 'stop'):
            parts[nm] = Int('s_' + nm) if nm in which else None
        step = {'p': None, '1': 1, '2': 2, 'm1': -1, 'm3': -3}[which.split(':')[-1]]
        sl = SliceVal(parts['start'], parts['stop'], step)
        return {'args': [sl, N, dt, t0], 'slice': sl,
                'inputs': {'times': ['slice', parts['start'], parts['stop'], step], 'max_step': N,
                           'dt': dt, 'start_time': t0}}
    return scen


def post_slice(ip, ctx, out):
    sl, N = ctx['slice'], ctx['args'][1]
    if not out.returned:
        ip.prove('parse/slice-never-raises', z3.BoolVal(False), {'exc': out.value.typ})
        return
    # documented Python slice semantics on the points 0..N (N+1 points)
    n = N + 1
    step = sl.step if sl.step is not None else 1

    def clamp(x, lo, hi):
        return z3.If(x < lo, lo, z3.If(x > hi, hi, x))

    def nrm(x):
        return z3.If(x < 0, x + n, x)
    if step > 0:
        start = z3.IntVal(0) if sl.start is None else clamp(nrm(sl.start), 0, n)
        stop = n if sl.stop is None else clamp(nrm(sl.stop), 0, n)
        length = z3.If(stop > start, (stop - start + step - 1) / step, 0)
    else:
        start = n - 1 if sl.start is None else clamp(nrm(sl.start), -1, n - 1)
        stop = z3.IntVal(-1) if sl.stop is None else clamp(nrm(sl.stop), -1, n - 1)
        length = z3.If(start > stop, (start - stop - step - 1) / (-step), 0)
    spec = Seq(length, lambda i: start + i * step, 'ndarray')
    ip.prove('parse/slice', veq(out.value, spec))
    j = fresh_int('j')
    ip.prove('parse/slice-in-grid', z3.Implies(z3.And(j >= 0, j < out.value.length),
                                               z3.And(out.value.fn(j) >= 0, out.value.fn(j) <= N)))


def scen_list(ip, repo):
    N, dt, t0 = _common(ip)
    s, A, n = int_seq('tl')
    ip.assume(n >= 0)
    return {'args': [s, N, dt, t0], 'list': s,
            'inputs': {'times': s, 'max_step': N, 'dt': dt, 'start_time': t0}}


def post_list(ip, ctx, out):
    s, N = ctx['list'], ctx['args'][1]

    def inrange(x):
        return z3.And(x >= -(N + 1), x <= N)

    def nrm(x):
        return z3.If(x < 0, x + N + 1, x)
    if out.returned:
        j = fresh_int('j')
        ip.instantiate_universals(s, j)
        ip.prove('parse/list-in-bounds', z3.Implies(z3.And(j >= 0, j < s.length), inrange(s.fn(j))))
        spec = Seq(s.length, lambda i: nrm(s.fn(i)), 'ndarray')
        ip.prove('parse/list', veq(out.value, spec))
    elif out.raised('IndexError'):
        j = z3.Int('jx')
        ip.prove('parse/raises-iff-oob', z3.Exists([j], z3.And(j >= 0, j < s.length, z3.Not(inrange(s.fn(j))))))
    else:
        expect_no_other_exception(ip, out)


def scen_badtype(ip, repo):
    N, dt, t0 = _common(ip)
    return {'args': ['a string', N, dt, t0], 'inputs': {}}


def post_badtype(ip, ctx, out):
    ip.prove('parse/type-error', z3.BoolVal(out.raised('TypeError')))


# replay builders -------------------------------------------------------------------

def replay_parse(ob):
    m = ob.get('model') or {}
    return {'func': 'parse_times', 'inputs': m}


def targets(tier='quick'):
    R = Registry()
    T = []
    q = 'system_dynamics._parse_times'
    T.append(Target('parse/int', q, scen_int, post_int, R, PROP, replay=replay_parse))
    T.append(Target('parse/float', q, scen_float, post_float, R, PROP, replay=replay_parse))
    T.append(Target('parse/interval', q, scen_interval, post_interval, R, PROP, replay=replay_parse))
    for which in ('p', 'start:p', 'stop:p', 'start:stop:p', 'start:stop:2', 'start:stop:m1', 'm1',
                  'start:m1', 'stop:m1', 'start:stop:m3'):
        T.append(Target('parse/slice[%s]' % which, q, scen_slice(which), post_slice, R, PROP, replay=replay_parse))
    T.append(Target('parse/list', q, scen_list, post_list, R, PROP, replay=replay_parse))
    T.append(Target('parse/badtype', q, scen_badtype, post_badtype, R, PROP))
    return T


META = {
    'level': 'proof',
    'explanation': 'contracts on the real functions, verification conditions generated from the AST of /repo on every run, discharged by z3 (cvc5 for unknowns)',
    'trusted_base': [],
    'clauses': [],
}
